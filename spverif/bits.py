"""Bit-provenance normaliser: integer terms -> vectors  bit i |-> 0 | 1 | field bit | input-buffer bit | atom bit | TOP.

Exact for <<, >> (constant shift), &, |, ^ with constants, + of bit-disjoint operands, enum casts,
bool() of one-bit values, struct.unpack of a big-/little-endian unsigned or signed field, byte
indexing.  Anything else is an *atom* (an arithmetic quantity with a declared width) or TOP.
"""
from __future__ import annotations

import struct

from .terms import T, C, show, is_const
from .linear import Lin, linearize, term_range

TOP = ("T",)


class BV:
    __slots__ = ("bits", "ext")

    def __init__(self, bits, ext=0):
        self.bits = list(bits)
        self.ext = ext

    def get(self, i):
        return self.bits[i] if i < len(self.bits) else self.ext

    def width(self):
        n = len(self.bits)
        while n and self.bits[n - 1] == self.ext:
            n -= 1
        return n

    def take(self, n):
        return [self.get(i) for i in range(n)]

    def high_clear(self, n):
        """are all bits >= n known to be zero?"""
        return self.ext == 0 and all(b == 0 for b in self.bits[n:])

    def __repr__(self):
        return fmt_bits(self.take(max(self.width(), 1))) + ("" if self.ext == 0 else f" ext={self.ext}")


def fmt_bit(b):
    if b in (0, 1):
        return str(b)
    if b == TOP:
        return "?"
    if b[0] == "f":
        return f"{b[1]}[{b[2]}]"
    if b[0] == "d":
        return f"{b[1]}@{b[2]}.{b[3]}"
    if b[0] == "a":
        return f"<{b[1]}>[{b[2]}]"
    return str(b)


def fmt_bits(bits):
    """MSB first, runs compressed"""
    out = []
    i = len(bits) - 1
    while i >= 0:
        b = bits[i]
        if isinstance(b, tuple) and b[0] in ("f", "a"):
            j = i
            while j - 1 >= 0 and isinstance(bits[j - 1], tuple) and bits[j - 1][:2] == b[:2] and bits[j - 1][2] == bits[j][2] - 1:
                j -= 1
            out.append(f"{b[1]}[{b[2]}..{bits[j][2]}]" if j != i else fmt_bit(b))
            i = j - 1
            continue
        out.append(fmt_bit(b))
        i -= 1
    return " ".join(out)


def const_bv(v):
    v = int(v)
    if v >= 0:
        return BV([(v >> i) & 1 for i in range(max(v.bit_length(), 1))], 0)
    w = (~v).bit_length() + 1
    return BV([(v >> i) & 1 for i in range(w)], 1)


def and_(p, q):
    if p == 0 or q == 0:
        return 0
    if p == 1:
        return q
    if q == 1:
        return p
    if p == q:
        return p
    return TOP


def or_(p, q):
    if p == 1 or q == 1:
        return 1
    if p == 0:
        return q
    if q == 0:
        return p
    if p == q:
        return p
    return TOP


def xor_(p, q):
    if p == 0:
        return q
    if q == 0:
        return p
    if p in (0, 1) and q in (0, 1):
        return p ^ q
    return TOP


class BitCtx:
    """naming context: widths of symbolic fields and of arithmetic atoms"""

    def __init__(self, widths=None, atom_widths=None, enum_width=None, rename=None):
        self.widths = widths or {}
        self.atom_widths = atom_widths or {}
        self.enum_width = enum_width
        self.rename = rename or {}
        self.problems = []

    def sym_width(self, t):
        name = t.a[0]
        if name in self.widths:
            return self.widths[name]
        if t.ty == "bool":
            return 1
        if self.enum_width and isinstance(t.ty, str):
            w = self.enum_width(t.ty)
            if w:
                return w
        return None

    def atom(self, t):
        l = linearize(t)
        key = repr(l)
        if key in self.atom_widths:
            return key, self.atom_widths[key]
        lo, hi = term_range(t)
        if lo is not None and lo >= 0 and hi is not None:
            return key, max(hi.bit_length(), 1)
        return key, None


def buffer_pos(buf, idx_lin):
    """resolve (buffer term, index Lin) to (root term, absolute position Lin); None if not a byte buffer"""
    cur = buf
    pos = idx_lin
    while True:
        if cur.k == "slice":
            pos = pos + linearize(cur.a[1])
            cur = cur.a[0]
            continue
        if cur.k == "sym":
            return cur, pos
        if cur.k == "bcat" and len(cur.a[0]) == 1 and cur.a[0][0].k == "bytes":
            cur = cur.a[0][0].a[0]
            continue
        return None


def pos_key(lin):
    if lin.is_const():
        return lin.c
    return repr(lin)


def norm_bits(t, ctx: BitCtx):
    """-> BV or None (None = outside the domain)"""
    k = t.k
    if k == "const":
        v = t.a[0]
        if isinstance(v, (bool, int)):
            return const_bv(int(v))
        return None
    if k == "sym":
        w = ctx.sym_width(t)
        if w is None:
            ctx.problems.append(f"no width for {t.a[0]}")
            return None
        name = ctx.rename.get(t.a[0], t.a[0])
        return BV([("f", name, j) for j in range(w)], 0)
    if k == "enumcast":
        return norm_bits(t.a[1], ctx)
    if k == "idx":
        r = buffer_pos(t.a[0], linearize(t.a[1]))
        if r is None:
            ctx.problems.append(f"index into non-buffer {show(t)[:60]}")
            return None
        root, pos = r
        pk = pos_key(pos)
        return BV([("d", root.a[0], pk, b) for b in range(8)], 0)
    if k == "unpacked":
        fmt = t.a[0]
        r = buffer_pos(t.a[1], Lin({}, 0))
        if r is None:
            ctx.problems.append(f"unpack of non-buffer {show(t)[:60]}")
            return None
        root, pos = r
        order = fmt[0] if fmt and fmt[0] in "!<>=@" else "@"
        code = fmt.lstrip("!<>=@")
        if len(code) != 1 or code not in "BHIQbhiqLl":
            ctx.problems.append(f"format {fmt!r}")
            return None
        n = struct.calcsize("!" + code)
        if order in "=@":
            ctx.problems.append(f"native byte order in format {fmt!r}")
            return BV([TOP] * (8 * n), 0)
        bits = []
        for j in range(8 * n):
            byte = (n - 1 - j // 8) if order in "!>" else j // 8
            bits.append(("d", root.a[0], pos_key(pos + Lin({}, byte)), j % 8))
        ext = bits[-1] if code in "bhiql" else 0
        return BV(bits, ext)
    if k == "un":
        o, a = t.a
        if o in ("int", "+"):
            return norm_bits(a, ctx)
        if o == "bool":
            x = norm_bits(a, ctx)
            if x is not None and x.high_clear(1):
                return BV([x.get(0)], 0)
            if x is not None and x.ext == 0:
                # bool() of a value with exactly one possibly-set bit is that bit
                nz = [b for b in x.bits if b != 0]
                if len(nz) == 1:
                    return BV([nz[0]], 0)
            return BV([TOP], 0)
        if o == "~":
            x = norm_bits(a, ctx)
            if x is None:
                return None
            inv = lambda b: (1 - b) if b in (0, 1) else TOP
            return BV([inv(b) for b in x.bits], inv(x.ext))
        return _atom(t, ctx)
    if k == "op":
        o, a, b = t.a
        if o in ("<<", ">>") and b.k == "const" and isinstance(b.a[0], int) and b.a[0] >= 0:
            x = norm_bits(a, ctx)
            if x is None:
                return None
            if o == "<<":
                return BV([0] * b.a[0] + x.bits, x.ext)
            return BV(x.bits[b.a[0]:], x.ext)
        if o in ("&", "|", "^"):
            x, y = norm_bits(a, ctx), norm_bits(b, ctx)
            if x is None or y is None:
                return None
            n = max(len(x.bits), len(y.bits))
            f = {"&": and_, "|": or_, "^": xor_}[o]
            return BV([f(x.get(i), y.get(i)) for i in range(n)], f(x.ext, y.ext))
        if o in ("+", "-"):
            # arithmetic that cancels to a single term ((7 + f) - 7): the bits of that term
            from .linear import linearize as _lz
            l_ = _lz(t)
            if l_.c == 0 and len(l_.co) == 1:
                (at_, cf_), = l_.co.items()
                if cf_ == 1 and at_ != t:
                    return norm_bits(at_, ctx)
        if o == "+":
            x, y = norm_bits(a, ctx), norm_bits(b, ctx)
            if x is not None and y is not None:
                n = max(len(x.bits), len(y.bits))
                if x.ext == 0 and y.ext == 0 and all(x.get(i) == 0 or y.get(i) == 0 for i in range(n)):
                    return BV([or_(x.get(i), y.get(i)) for i in range(n)], 0)
            return _atom(t, ctx)
        if o == "*":
            # multiplication by a power of two is a shift
            for p_, q_ in ((a, b), (b, a)):
                if q_.k == "const" and isinstance(q_.a[0], int) and not isinstance(q_.a[0], bool) and q_.a[0] > 0 and q_.a[0] & (q_.a[0] - 1) == 0:
                    x = norm_bits(p_, ctx)
                    if x is None:
                        return None
                    return BV([0] * (q_.a[0].bit_length() - 1) + x.bits, x.ext)
        if o in (">=", "<") and b.k == "const" and isinstance(b.a[0], int) and not isinstance(b.a[0], bool) and b.a[0] > 0 and b.a[0] & (b.a[0] - 1) == 0:
            # x >= 2**k for a value of k+1 bits: its top bit (x < 2**k: the negation)
            k_ = b.a[0].bit_length() - 1
            x = norm_bits(a, ctx)
            if x is not None and x.high_clear(k_ + 1):
                bit = x.get(k_)
                if o == ">=":
                    return BV([bit], 0)
                return BV([(1 - bit) if bit in (0, 1) else TOP], 0)
        if o in ("-", "*", "//", "%", "**"):
            return _atom(t, ctx)
        if o in ("!=", "==") and b.k == "const" and b.a[0] == 0 and b.a[0] is not False:
            # (x & m) != 0 / bool-like tests of a value with exactly one possibly-set bit: that bit (== 0: its negation)
            x = norm_bits(a, ctx)
            if x is not None and x.ext == 0:
                nz = [q for q in x.bits if q != 0]
                if len(nz) == 1:
                    bit = nz[0]
                    if o == "!=":
                        return BV([bit], 0)
                    return BV([(1 - bit) if bit in (0, 1) else TOP], 0)
        if o in ("==", "!=", "<", "<=", ">", ">=", "and", "or", "in", "notin", "is", "isnot"):
            return BV([("a", show(t), 0)], 0)
        return None
    if k == "gamma":
        x, y = norm_bits(t.a[1], ctx), norm_bits(t.a[2], ctx)
        if x is not None and y is not None and x.bits == y.bits and x.ext == y.ext:
            return x
        # a one-bit selection between the constants 1 and 0 (or True/False, or two members of an enum with values 1/0):
        # the value is the selecting bit itself
        if t.a[1].k == "const" and t.a[2].k == "const" and t.a[1].a[0] in (1, True) and t.a[2].a[0] in (0, False) and t.a[1].a[0] is not None:
            c = norm_bits(truthy_bit(t.a[0]), ctx)
            if c is not None and len(c.bits) == 1 and c.ext == 0:
                return c
        # ... or between a single-bit constant 2**k and 0 (`0x10 if flag else 0`): the selecting bit at position k
        if t.a[1].k == "const" and t.a[2].k == "const" and isinstance(t.a[1].a[0], int) and not isinstance(t.a[1].a[0], bool) \
                and t.a[1].a[0] > 1 and t.a[1].a[0] & (t.a[1].a[0] - 1) == 0 and t.a[2].a[0] in (0, False) and t.a[2].a[0] is not None:
            c = norm_bits(truthy_bit(t.a[0]), ctx)
            if c is not None and len(c.bits) == 1 and c.ext == 0:
                return BV([0] * (t.a[1].a[0].bit_length() - 1) + [c.bits[0]], 0)
        if t.a[1].k == "const" and t.a[2].k == "const" and t.a[1].a[0] in (0, False) and t.a[2].a[0] in (1, True):
            c = norm_bits(truthy_bit(t.a[0]), ctx)
            if c is not None and len(c.bits) == 1 and c.ext == 0 and c.bits[0] not in (0, 1) and c.bits[0] != TOP:
                pass        # negated bit: not expressible as a provenance descriptor; fall through
        ctx.problems.append(f"data-dependent alternative {show(t)[:80]}")
        return None
    if k == "call" or k == "sum":
        return _atom(t, ctx)
    ctx.problems.append(f"term kind {k}")
    return None


def truthy_bit(c):
    """a gate condition as the term whose truth value it is (bool(x) for an integer x)"""
    from .terms import un as _un
    if c.k == "un" and c.a[0] == "bool":
        return c
    if c.k == "op" and c.a[0] in ("!=", "=="):
        return c
    return _un("bool", c)


def _atom(t, ctx):
    key, w = ctx.atom(t)
    if w is None:
        ctx.problems.append(f"unbounded arithmetic term {show(t)[:80]}")
        return None
    return BV([("a", key, j) for j in range(w)], 0)


def field_bits(name, width):
    return [("f", name, j) for j in range(width)]


def data_bits_be(root, bit_offset, width):
    """descriptors (LSB first) of a big-endian field of `width` bits starting at MSB-first bit offset"""
    out = []
    for j in range(width):
        absb = bit_offset + width - 1 - j
        out.append(("d", root, absb // 8, 7 - absb % 8))
    return out
