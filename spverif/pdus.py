"""Reference table of the eight CFDP PDU kinds (CCSDS 727.0-B-5 5.2, 5.3) in constructor vocabulary,
and the drivers that build each kind with symbolic parameters / decode it under a configuration case.

Used by C04 (CRC item), C06 (directives), C07 (file data), C09-C12.
"""
from __future__ import annotations

from .gti import new_interp, call_method, construct, read_path, Env, Unsupported
from .terms import T, C, sym, show, binop, length, NONE
from .layout import F, K, A, B, CRC
from .linear import Lin, linearize
from . import rules as R
from . import cfdp_common as CF

PDU = "cfdp.pdu"
TLVQ = "cfdp.tlv.tlv"


def enc(name):
    """term of name.encode() for a str-typed symbol"""
    return T("call", "encode", (sym(name, ty="str"),), ty="bytes")


def enc_len(name):
    return linearize(length(enc(name)))


def blen(name):
    return linearize(length(sym(name, ty="bytes")))


def fss(name, large):
    return F(name, 64 if large else 32)


# ---------------------------------------------------------------------------- TLV / LV sub-specs
def entity_id_tlv(it, env, P, name):
    obj = construct(it, env, f"{TLVQ}.EntityIdTlv", dict(entity_id=sym(name, ty="bytes")))
    spec = [K(8, 6), R.len_atom(8, blen(name)), B(name)]
    return obj, spec, blen(name) + Lin({}, 2)


def fs_response_tlv(it, env, P, n):
    """filestore response with action CREATE_FILE (no second name), empty filestore message"""
    obj = construct(it, env, f"{TLVQ}.FileStoreResponseTlv", dict(
        action_code=CF.enumc(P, "cfdp.tlv.defs.FilestoreActionCode", 0),
        status_code=CF.esym(P, f"status{n}", "cfdp.tlv.defs.FilestoreResponseStatusCode"),
        first_file_name=sym(f"name{n}", ty="str")))
    ln = enc_len(f"name{n}")
    spec = [K(8, 1), R.len_atom(8, ln + Lin({}, 3)), K(4, 0), F(f"status{n}", 4), R.len_atom(8, ln), B(f"enc(name{n})"), K(8, 0)]
    return obj, spec, ln + Lin({}, 5)


def generic_tlv(it, env, P, n):
    obj = construct(it, env, f"{TLVQ}.CfdpTlv", dict(tlv_type=CF.esym(P, f"opt_type{n}", "cfdp.tlv.defs.TlvType"), value=sym(f"opt_value{n}", ty="bytes")))
    spec = [F(f"opt_type{n}", 8), R.len_atom(8, blen(f"opt_value{n}")), B(f"opt_value{n}")]
    return obj, spec, blen(f"opt_value{n}") + Lin({}, 2)


def lv_spec(key, ln):
    return [R.len_atom(8, ln), B(key, repr(ln))]


# ---------------------------------------------------------------------------- the eight kinds
class Variant:
    def __init__(self, tag, obj, body, widths, lens, fss_syms=(), direction=0, kw=None):
        self.tag, self.obj, self.body, self.widths, self.lens = tag, obj, body, widths, lens
        self.fss_syms, self.direction, self.kw = fss_syms, direction, kw or {}


def build_eof(it, env, P, conf, large, variant):
    kw = dict(pdu_conf=conf, file_checksum=sym("file_checksum", ty="bytes"), file_size=sym("file_size", ty="int"),
              condition_code=CF.esym(P, "condition_code", f"{CF.DEFS}.ConditionCode"))
    body = [F("condition_code", 4), K(4, 0), B("file_checksum"), fss("file_size", large)]
    lens = {"file_checksum": Lin({}, 4)}
    if variant == "fault location":
        tlv, tspec, _ = entity_id_tlv(it, env, P, "fault_entity")
        kw["fault_location"] = tlv
        body += tspec
    obj = construct(it, env, f"{PDU}.eof.EofPdu", kw)
    return Variant(variant, obj, body, {"condition_code": 4, "file_size": 64 if large else 32}, lens, ("file_size",), 0, kw)


def build_finished(it, env, P, conf, large, variant):
    pk = dict(condition_code=CF.esym(P, "condition_code", f"{CF.DEFS}.ConditionCode") if variant != "fault location" else CF.enumc(P, f"{CF.DEFS}.ConditionCode", 4),
              delivery_code=CF.esym(P, "delivery_code", f"{CF.DEFS}.DeliveryCode"), file_status=CF.esym(P, "file_status", f"{CF.DEFS}.FileStatus"))
    first = [F("condition_code", 4) if variant != "fault location" else K(4, 4), K(1, 0), F("delivery_code", 1), F("file_status", 2)]
    body = list(first)
    if variant in ("two responses", "fault location", "two responses, fault location omitted"):
        resp = []
        for n in (1, 2):
            o, sp, _ = fs_response_tlv(it, env, P, n)
            resp.append(o)
            body += sp
        pk["file_store_responses"] = T("list", tuple(resp), ty=("list", None))
    if variant == "fault location":
        tlv, tspec, _ = entity_id_tlv(it, env, P, "fault_entity")
        pk["fault_location"] = tlv
        body += tspec
    if variant == "no TLVs (None)":
        # the constructor and the setter accept None for the response list (Optional in the setter's signature)
        pk["file_store_responses"] = NONE
    if variant == "two responses, fault location omitted":
        # (only built by C11's setter sequences; not one of the registered pack variants)
        tlv, _tspec, _ = entity_id_tlv(it, env, P, "fault_entity")
        pk["fault_location"] = tlv
        pk["condition_code"] = CF.enumc(P, f"{CF.DEFS}.ConditionCode", 0)
        body = [K(4, 0), K(1, 0), F("delivery_code", 1), F("file_status", 2)] + body[len(first):]
    if variant in ("fault location omitted", "fault location omitted (unsupported checksum type)"):
        # NO_ERROR / UNSUPPORTED_CHECKSUM_TYPE (727.0-B-5 5.2.3): a stored fault location is neither packed nor counted
        code = 0 if variant == "fault location omitted" else 0b1011
        tlv, tspec, _ = entity_id_tlv(it, env, P, "fault_entity")
        pk["fault_location"] = tlv
        pk["condition_code"] = CF.enumc(P, f"{CF.DEFS}.ConditionCode", code)
        body = [K(4, code), K(1, 0), F("delivery_code", 1), F("file_status", 2)]
    params = construct(it, env, f"{PDU}.finished.FinishedParams", pk)
    obj = construct(it, env, f"{PDU}.finished.FinishedPdu", dict(pdu_conf=conf, params=params))
    return Variant(variant, obj, body, {"condition_code": 4, "status1": 4, "status2": 4}, {}, (), 1, pk)


def build_ack(it, env, P, conf, large, variant):
    code = 5 if variant == "ack of Finished" else 4
    kw = dict(pdu_conf=conf, directive_code_of_acked_pdu=CF.enumc(P, f"{PDU}.file_directive.DirectiveType", code),
              condition_code_of_acked_pdu=CF.esym(P, "condition_code", f"{CF.DEFS}.ConditionCode"),
              transaction_status=CF.esym(P, "transaction_status", f"{PDU}.ack.TransactionStatus"))
    obj = construct(it, env, f"{PDU}.ack.AckPdu", kw)
    body = [K(4, code), K(4, 1 if code == 5 else 0), F("condition_code", 4), K(2, 0), F("transaction_status", 2)]
    # 727.0-B-5 5.2.4: an ACK of a Finished PDU travels towards the receiving entity (direction 0), of an EOF towards the sender (1)
    return Variant(variant, obj, body, {"condition_code": 4}, {}, (), 0 if code == 5 else 1, kw)


def build_metadata(it, env, P, conf, large, variant):
    pk = dict(closure_requested=sym("closure_requested", ty="bool"), checksum_type=CF.esym(P, "checksum_type", f"{CF.DEFS}.ChecksumType"),
              file_size=sym("file_size", ty="int"), source_file_name=sym("source_file_name", ty="str"), dest_file_name=sym("dest_file_name", ty="str"))
    src_l, dst_l = enc_len("source_file_name"), enc_len("dest_file_name")
    body = [K(1, 0), F("closure_requested", 1), K(2, 0), F("checksum_type", 4), fss("file_size", large)]
    if variant == "no file names":
        pk["source_file_name"] = NONE
        pk["dest_file_name"] = NONE
        body += [K(8, 0), K(8, 0)]
    else:
        body += lv_spec("enc(source_file_name)", src_l) + lv_spec("enc(dest_file_name)", dst_l)
    kw = dict(pdu_conf=conf)
    if variant == "two options":
        opts = []
        for n in (1, 2):
            o, sp, _ = generic_tlv(it, env, P, n)
            opts.append(o)
            body += sp
        kw["options"] = T("list", tuple(opts), ty=("list", None))
    params = construct(it, env, f"{PDU}.metadata.MetadataParams", pk)
    kw["params"] = params
    obj = construct(it, env, f"{PDU}.metadata.MetadataPdu", kw)
    return Variant(variant, obj, body, {"checksum_type": 4, "file_size": 64 if large else 32}, {}, ("file_size",), 0, pk)


def build_nak(it, env, P, conf, large, variant):
    kw = dict(pdu_conf=conf, start_of_scope=sym("start_of_scope", ty="int"), end_of_scope=sym("end_of_scope", ty="int"))
    body = [fss("start_of_scope", large), fss("end_of_scope", large)]
    w = {"start_of_scope": 64 if large else 32, "end_of_scope": 64 if large else 32}
    fs = ["start_of_scope", "end_of_scope"]
    if variant == "two segment requests":
        segs = []
        for n in (1, 2):
            segs.append(T("tuple", (sym(f"seg{n}_start", ty="int"), sym(f"seg{n}_end", ty="int"))))
            body += [fss(f"seg{n}_start", large), fss(f"seg{n}_end", large)]
            w[f"seg{n}_start"] = w[f"seg{n}_end"] = 64 if large else 32
            fs += [f"seg{n}_start", f"seg{n}_end"]
        kw["segment_requests"] = T("list", tuple(segs), ty=("list", None))
    obj = construct(it, env, f"{PDU}.nak.NakPdu", kw)
    return Variant(variant, obj, body, w, {}, tuple(fs), 1, kw)


def build_prompt(it, env, P, conf, large, variant):
    kw = dict(pdu_conf=conf, response_required=CF.esym(P, "response_required", f"{PDU}.prompt.ResponseRequired"))
    obj = construct(it, env, f"{PDU}.prompt.PromptPdu", kw)
    return Variant(variant, obj, [F("response_required", 1), K(7, 0)], {}, {}, (), 0, kw)


def build_keep_alive(it, env, P, conf, large, variant):
    kw = dict(pdu_conf=conf, progress=sym("progress", ty="int"))
    obj = construct(it, env, f"{PDU}.keep_alive.KeepAlivePdu", kw)
    return Variant(variant, obj, [fss("progress", large)], {"progress": 64 if large else 32}, {}, ("progress",), 1, kw)


class Kind:
    def __init__(self, name, cls, code, builder, variants, direction_note=""):
        self.name, self.cls, self.code, self.builder, self.variants = name, cls, code, builder, variants


DIRECTIVES = [
    Kind("EOF", f"{PDU}.eof.EofPdu", 0x04, build_eof, ("plain", "fault location")),
    Kind("Finished", f"{PDU}.finished.FinishedPdu", 0x05, build_finished, ("plain", "no TLVs (None)", "two responses", "fault location", "fault location omitted", "fault location omitted (unsupported checksum type)")),
    Kind("ACK", f"{PDU}.ack.AckPdu", 0x06, build_ack, ("ack of Finished", "ack of EOF")),
    Kind("Metadata", f"{PDU}.metadata.MetadataPdu", 0x07, build_metadata, ("plain", "no file names", "two options")),
    Kind("NAK", f"{PDU}.nak.NakPdu", 0x08, build_nak, ("plain", "two segment requests")),
    Kind("Prompt", f"{PDU}.prompt.PromptPdu", 0x09, build_prompt, ("plain",)),
    Kind("Keep Alive", f"{PDU}.keep_alive.KeepAlivePdu", 0x0C, build_keep_alive, ("plain",)),
]


def directive_spec(kind, v, E, S, crc, large, prefix=""):
    """full reference layout of one directive PDU variant; the data-field length cell is derived from the layout itself"""
    tail = [K(8, kind.code)] + v.body + ([CRC()] if crc else [])
    tail_len = R.spec_len(tail, v.lens)
    hdr = CF.header_spec(E, S, R.len_atom(16, tail_len), pdu_type=0, direction=v.direction, crc=crc, large=large, seg_meta=0, prefix=prefix)
    return hdr + tail, tail_len, tail_len + Lin({}, CF.header_len(E, S))


def config_cases(tier):
    if tier == "thorough":
        return [(E, S, crc, large) for (E, S) in CF.width_pairs(tier) for crc in (0, 1) for large in (0, 1)]
    # quick: all four flag combinations on the smallest header, plus two mixed-width headers (widths are C05's business)
    return [(1, 1, crc, large) for crc in (0, 1) for large in (0, 1)] + [(2, 4, 1, 0), (8, 2, 0, 1)]


def fss_not_truncated(term, names):
    """file-size-sensitive symbols must reach struct.pack bare (a mask would truncate silently)"""
    from .terms import subterms
    probs = []
    for s in subterms(term):
        if s.k == "packed":
            v = s.a[1]
            if v.k == "crc16v":
                continue
            syms = [x for x in subterms(v) if x.k == "sym" and x.a[0] in names]
            if syms and not (v.k == "sym"):
                probs.append(f"{show(v)[:60]} is packed instead of the bare value {syms[0].a[0]}")
    return probs
