"""spverif - static verification of spacepackets-py (ast-based, stdlib only).

Nothing in here imports or executes the analysed package.  See /verif/DESIGN.md.
"""

REPO_DEFAULT = "/repo"
PKG = "spacepackets"
