"""Gated-term abstract interpreter (GTI), part 1: environment, typing helpers, expressions.

One forward pass over a function body with callee bodies inlined.  Merge points join with
gamma terms; loops are summarised (unrolled only when their iteration space is a constant).
Unsupported syntax raises Unsupported -> the obligations depending on it become UNKNOWN.
"""
from __future__ import annotations

import ast
import itertools
from typing import Optional

from .index import Program, Func
from .terms import (T, C, NONE, TRUE, FALSE, sym, gamma, un, binop, truthy, bcat, as_bcat, bcat_concat,
                    length, is_const, show, conj)


class Unsupported(Exception):
    def __init__(self, msg, node=None, where=""):
        self.msg = msg
        self.lineno = getattr(node, "lineno", None)
        self.where = where
        super().__init__(f"{msg} @ {where}:{self.lineno}")


class Env:
    __slots__ = ("vars", "facts", "pc", "heap", "dead")

    def __init__(self):
        self.vars = {}
        self.facts = []
        self.pc = []
        self.heap = {}
        self.dead = False

    def clone(self):
        e = Env()
        e.vars = dict(self.vars)
        e.facts = list(self.facts)
        e.pc = list(self.pc)
        e.heap = dict(self.heap)
        e.dead = self.dead
        return e

    def adopt(self, o):
        self.vars, self.facts, self.pc, self.heap, self.dead = o.vars, o.facts, o.pc, o.heap, o.dead

    def add_fact(self, f):
        f = truthy(f)
        if f.k == "const":
            if not f.a[0]:
                self.dead = True
            return
        if f.k == "op" and f.a[0] == "and":
            self.add_fact(f.a[1])
            self.add_fact(f.a[2])
            return
        if f not in self.facts:
            self.facts.append(f)


BUILTIN_NAMES = {
    "len", "pow", "int", "bool", "bytes", "bytearray", "max", "min", "isinstance", "range", "abs", "round",
    "hash", "super", "str", "float", "ValueError", "TypeError", "IndexError", "OverflowError", "KeyError",
    "FileNotFoundError", "NotImplementedError", "AssertionError", "Exception", "enumerate", "open", "print",
    "dict", "list", "tuple", "sorted", "type", "object", "NotImplemented", "set", "zip", "any", "all", "sum",
    "hex", "repr", "id", "divmod", "property", "staticmethod", "classmethod", "iter", "next", "__name__",
    "getattr", "setattr", "slice", "map", "frozenset",
}


class InterpBase:
    def __init__(self, prog: Program, max_depth: int = 16):
        self.P = prog
        self.max_depth = max_depth
        self.reads = []
        self.raises = []
        self.stores = []
        self.notes = []
        self.calls = []
        self.objc = itertools.count(1)
        self.symc = itertools.count(1)
        self.evc = itertools.count(1)      # order of logged stores / raises
        self.module_oids = set()           # ids of objects created at module level (shared between calls)
        self.call_seq = 0
        self.fileops = []                  # file-system effects in program order
        self.with_stack = []               # context values of the enclosing with-blocks
        self.byref_stack = []              # (call id, parameters passed by reference) of the calls being inlined
        self.handler_excs = []             # exception classes the enclosing handler bodies have caught (for a bare raise)
        self.obj_info = {}
        self.depth = 0
        self.where = []
        self.fn_stack = []
        self.try_stack = []
        self.loop_stack = []
        self.attr_ty_cache = {}
        self.concrete_bytes = {}
        self.quiet = 0
        self.class_ns_cache = {}
        self.const_cache = {}

    # ------------------------------------------------------------------ logging helpers
    def loc(self, node=None):
        return f"{'>'.join(self.where)}:{getattr(node, 'lineno', '?')}"

    def cur_func(self) -> str:
        return self.where[-1] if self.where else "<top>"

    def unsupported(self, msg, node=None):
        raise Unsupported(msg, node, ">".join(self.where))

    def log_read(self, kind, buf, lo, hi, env, node, extra=None):
        if self.quiet:
            return
        self.reads.append({"kind": kind, "buf": buf, "lo": lo, "hi": hi, "facts": list(env.facts),
                           "where": self.loc(node), "func": self.cur_func(), "stack": tuple(self.where),
                           "text": _txt(node), "extra": extra})

    def log_raise(self, exc, env, node, kind="explicit", cond=None, extra=None):
        """record that `exc` may be raised here; returns True if a handler caught it"""
        facts = list(env.facts)
        if cond is not None:
            facts.append(cond)
        caught = self._route_to_handler(exc, env, cond)
        if caught and cond is not None:
            # the continuing path is the one on which the exception was not raised
            nc = un("not", cond)
            env.pc.append(nc)
            env.add_fact(nc)
        if self.quiet:
            return caught
        self.raises.append({"exc": exc, "facts": facts, "where": self.loc(node), "func": self.cur_func(),
                            "stack": tuple(self.where), "kind": kind, "text": _txt(node), "caught": caught,
                            "extra": extra, "seq": next(self.evc), "pc": list(env.pc) + ([cond] if cond is not None else [])})
        return caught

    def fresh_sym(self, hint, ty=None):
        return sym(f"{hint}#{next(self.symc)}", ty=ty)

    # ------------------------------------------------------------------ exception class algebra
    BUILTIN_EXC_PARENTS = {
        "BaseException": None, "Exception": "BaseException", "ValueError": "Exception",
        "TypeError": "Exception", "LookupError": "Exception", "IndexError": "LookupError",
        "KeyError": "LookupError", "ArithmeticError": "Exception", "OverflowError": "ArithmeticError",
        "OSError": "Exception", "FileNotFoundError": "OSError", "NotImplementedError": "RuntimeError",
        "RuntimeError": "Exception", "AssertionError": "Exception", "UnicodeError": "ValueError",
        "UnicodeDecodeError": "UnicodeError", "struct.error": "Exception", "AttributeError": "Exception",
        "ZeroDivisionError": "ArithmeticError", "StopIteration": "Exception",
    }

    def exc_ancestors(self, exc: str):
        out = []
        if exc in self.P.classes:
            for k in self.P.mro(exc):
                out.append(k)
            for b in self.P.ext_bases(exc):
                b = b.split(".")[-1] if b.startswith("builtins.") else b
                out.extend(self.exc_ancestors(b))
            return out
        cur = exc
        while cur is not None and cur not in out:
            out.append(cur)
            cur = self.BUILTIN_EXC_PARENTS.get(cur, "Exception" if cur != "BaseException" else None)
        return out

    def exc_matches(self, exc: str, handler_names) -> bool:
        anc = set(self.exc_ancestors(exc))
        return any(h in anc for h in handler_names)

    def _route_to_handler(self, exc, env, cond):
        for frame in reversed(self.try_stack):
            for hi, (names, bucket) in enumerate(frame["handlers"]):
                if names is None or self.exc_matches(exc, names):
                    frame.setdefault("excs", {}).setdefault(hi, []).append(exc)
                    snap = env.clone()
                    if cond is not None:
                        snap.add_fact(cond)
                        snap.pc.append(cond)
                    if not snap.dead:
                        bucket.append(snap)
                    return True
        return False

    # ------------------------------------------------------------------ annotation -> type
    def ann_type(self, mod, ann):
        if ann is None:
            return None
        if isinstance(ann, ast.Constant) and isinstance(ann.value, str):
            try:
                ann = ast.parse(ann.value, mode="eval").body
            except SyntaxError:
                return None
        if isinstance(ann, ast.Constant) and ann.value is None:
            return None
        if isinstance(ann, ast.Subscript):
            base = ast.unparse(ann.value).split(".")[-1]
            if base == "Optional":
                return self.ann_type(mod, ann.slice)
            if base in ("List", "list", "Sequence", "Deque", "deque", "Iterable"):
                return ("list", self.ann_type(mod, ann.slice))
            if base in ("Tuple", "tuple"):
                if isinstance(ann.slice, ast.Tuple):
                    return ("tuple", tuple(self.ann_type(mod, e) for e in ann.slice.elts))
                return ("tuple", None)
            if base == "Final":
                return self.ann_type(mod, ann.slice)
            if base == "Union":
                elts = ann.slice.elts if isinstance(ann.slice, ast.Tuple) else [ann.slice]
                tys = [self.ann_type(mod, e) for e in elts]
                tys = [t for t in tys if t is not None]
                if tys and all(t in ("bytes", "bytearray", "int") for t in tys):
                    return tys[0] if len(set(tys)) == 1 else None
                if len(tys) == 1:
                    return tys[0]
                return ("union", tuple(tys)) if tys else None
            if base in ("Type", "Dict", "dict", "Any"):
                return None
            return None
        if isinstance(ann, ast.Name):
            if ann.id in ("int", "bool", "bytes", "str", "bytearray", "float"):
                return "bytes" if ann.id == "bytearray" else ann.id
            r = self.P.resolve(mod, ann.id)
            if r and r[0] == "class":
                return r[1]
            if r and r[0] == "const":
                return self.ann_type(r[1], r[2])
            return None
        if isinstance(ann, ast.Attribute):
            return None
        return None

    def attr_type(self, clsq, attr):
        key = (clsq, attr)
        if key in self.attr_ty_cache:
            return self.attr_ty_cache[key]
        res = None
        P = self.P
        for k in P.mro(clsq):
            c = P.classes[k]
            for (fname, ann, default) in c.fields:
                if fname == attr:
                    res = self.ann_type(c.module, ann)
            if res:
                break
            if attr in c.props:
                res = self.ann_type(c.module, c.props[attr].node.returns)
                if res:
                    break
            for f in list(c.methods.values()) + list(c.setters.values()):
                params = {a.arg: a.annotation for a in f.node.args.args + f.node.args.kwonlyargs}
                for n in ast.walk(f.node):
                    tgt = val = ann = None
                    if isinstance(n, ast.Assign) and len(n.targets) == 1:
                        tgt, val = n.targets[0], n.value
                    elif isinstance(n, ast.AnnAssign):
                        tgt, val, ann = n.target, n.value, n.annotation
                    if isinstance(tgt, ast.Attribute) and isinstance(tgt.value, ast.Name) \
                            and tgt.value.id == "self" and tgt.attr == attr:
                        if ann is not None:
                            res = res or self.ann_type(c.module, ann)
                        if isinstance(val, ast.Call):
                            r = P.resolve_expr_class(c.module, val.func)
                            if r and not r.startswith("ext:"):
                                res = res or r
                        if isinstance(val, ast.Name) and val.id in params:
                            res = res or self.ann_type(c.module, params[val.id])
                if res:
                    break
            if res:
                break
        self.attr_ty_cache[key] = res
        return res

    def is_instance_attr(self, clsq, attr):
        P = self.P
        for k in P.mro(clsq):
            c = P.classes[k]
            if c.is_dataclass and any(f[0] == attr for f in c.fields):
                return True
            for f in list(c.methods.values()) + list(c.setters.values()):
                for n in ast.walk(f.node):
                    if isinstance(n, ast.Attribute) and isinstance(n.ctx, ast.Store) \
                            and isinstance(n.value, ast.Name) and n.value.id == "self" and n.attr == attr:
                        return True
        return False

    # ------------------------------------------------------------------ symbolic values
    def symbolic_value(self, name, ty):
        """a fresh symbolic input of the given type"""
        if isinstance(ty, str) and ty in self.P.classes:
            if self.P.is_enum(ty):
                return sym(name, ty=ty)
            return self.new_object(ty, symbolic=True, root=name, path=name)
        return sym(name, ty=ty)

    def next_oid(self):
        """the id the next created object will get (ids are handed out in increasing order)"""
        import itertools as _it
        n = next(self.objc)
        self.objc = _it.chain([n], self.objc)
        return n

    def new_object(self, clsq, symbolic=False, root=None, path=None):
        oid = next(self.objc)
        self.obj_info[oid] = {"cls": clsq, "symbolic": symbolic, "root": root, "path": path, "fresh": not symbolic}
        return T("obj", oid, ty=clsq)

    # ------------------------------------------------------------------ constants
    def module_const(self, mod, expr):
        key = (mod, id(expr))
        if key not in self.const_cache:
            self.quiet += 1
            first = self.next_oid()
            try:
                self.const_cache[key] = self.ev(expr, Env(), mod, None)
            finally:
                self.quiet -= 1
                # objects built while a module-level name is evaluated exist once per process: they are shared by
                # every call that reaches them
                for oid in range(first, self.next_oid()):
                    self.module_oids.add(oid)
        return self.const_cache[key]

    def enum_member(self, clsq, name):
        ns = self.class_namespace(clsq)
        return ns.get(name)

    def class_namespace(self, clsq):
        """constant-folded class-level constants (enum members become typed consts)"""
        if clsq in self.class_ns_cache:
            return self.class_ns_cache[clsq]
        ns = {}
        self.class_ns_cache[clsq] = ns
        P = self.P
        is_enum = P.is_enum(clsq)
        is_int = P.is_int_enum(clsq)
        for k in reversed(P.mro(clsq)):
            c = P.classes[k]
            cenv = Env()
            for n2, v2 in ns.items():
                cenv.vars[n2] = v2
            # inside the class body the functions defined there are plain names (dispatch tables built at class level)
            for mname, mf in c.methods.items():
                cenv.vars.setdefault(mname, T("func", mf.qual))
            for name, expr in c.consts.items():
                self.quiet += 1
                try:
                    v = self.ev(expr, cenv, c.module, None)
                except Unsupported:
                    v = None
                finally:
                    self.quiet -= 1
                if v is None:
                    continue
                if is_enum and not name.startswith("_") and v.k == "const":
                    if is_int:
                        v = T("const", v.a[0], ty=clsq)
                    else:
                        v = T("const", f"{c.name}.{name}", ty=clsq)
                ns[name] = v
                cenv.vars[name] = v if not (is_enum and v.k == "const" and is_int) else C(v.a[0])
        return ns

    def enum_values(self, clsq):
        ns = self.class_namespace(clsq)
        return [v.a[0] for n, v in ns.items() if v.k == "const" and v.ty == clsq]

    # ------------------------------------------------------------------ expressions
    def ev(self, e, env, mod, fn) -> T:
        m = getattr(self, "ev_" + type(e).__name__, None)
        if m is None:
            self.unsupported(f"expr {type(e).__name__}", e)
        return m(e, env, mod, fn)

    def ev_Constant(self, e, env, mod, fn):
        return C(e.value)

    def ev_JoinedStr(self, e, env, mod, fn):
        # f"..{x}..": the literal pieces and str(x) of the plainly formatted values; anything the interpreter cannot
        # evaluate quietly (messages of error paths, format specs) stays an opaque string
        parts = []
        self.quiet += 1
        try:
            sub = env.clone()
            for v in e.values:
                if isinstance(v, ast.Constant) and isinstance(v.value, str):
                    parts.append(C(v.value))
                elif isinstance(v, ast.FormattedValue) and v.conversion == -1 and v.format_spec is None:
                    parts.append(T("call", "str", (self.ev(v.value, sub, mod, fn),), ty="str"))
                else:
                    return T("call", "fstring", (), ty="str")
                if sub.dead:
                    return T("call", "fstring", (), ty="str")
        except Unsupported:
            return T("call", "fstring", (), ty="str")
        finally:
            self.quiet -= 1
        return T("call", "fstring", tuple(parts), ty="str")

    def ev_Lambda(self, e, env, mod, fn):
        return T("lambda", e, mod)

    def _comp_items(self, e, env, mod, fn):
        """[(condition, element), ...] of a single-generator comprehension over a literal sequence, or None.
        Each element is evaluated knowing its filter condition; elements whose filter is decided false are dropped."""
        if len(e.generators) != 1 or e.generators[0].is_async:
            return None, None
        g = e.generators[0]
        it = self.ev(g.iter, env, mod, fn)
        if it.k == "range" and all(a.k == "const" and isinstance(a.a[0], int) for a in it.a[0]) and (len(it.a[0]) < 3 or it.a[0][2].a[0] != 0):
            vals = range(*[a.a[0] for a in it.a[0]])
            if len(vals) <= 64:
                it = T("list", tuple(C(v) for v in vals), ty=("list", "int"))
        if it.k not in ("list", "tuple"):
            return None, it
        out = []
        for item in it.a[0]:
            sub = env.clone()
            self.assign(g.target, item, sub, mod, fn)
            cond = TRUE
            for c in g.ifs:
                t = truthy(self.ev(c, sub, mod, fn))
                cond = binop("and", cond, t)
                sub.add_fact(t)
                if sub.dead:
                    break
            if sub.dead or is_const(cond, False):
                continue
            out.append((cond, self.ev(e.elt, sub, mod, fn)))
        return out, it

    def ev_ListComp(self, e, env, mod, fn):
        # [f(x) for x in xs if p(x)] over a literal sequence: element-wise; a filter that is not decided gives an
        # "optlist" (elements present under a condition), which only sum / join / extend know how to consume
        items, it = self._comp_items(e, env, mod, fn)
        if items is not None:
            if all(is_const(c, True) for c, _ in items):
                return T("list", tuple(x for _, x in items), ty=("list", None))
            return T("optlist", tuple(items), ty=("list", None))
        if it is not None and not e.generators[0].ifs:
            return T("call", "listcomp", (it, C(ast.unparse(e.elt))), ty=("list", None))
        return T("call", "listcomp", (C(ast.unparse(e)),), ty=("list", None))

    def ev_DictComp(self, e, env, mod, fn):
        # {k(x): v(x) for x in <literal sequence>}: the entries, in order (later duplicates of a key replace earlier ones)
        if len(e.generators) == 1 and not e.generators[0].ifs and not e.generators[0].is_async:
            g = e.generators[0]
            it = self.ev(g.iter, env, mod, fn)
            if it.k in ("list", "tuple") and len(it.a[0]) <= 64:
                entries = []
                for item in it.a[0]:
                    sub = env.clone()
                    self.assign(g.target, item, sub, mod, fn)
                    k_ = self.ev(e.key, sub, mod, fn)
                    v_ = self.ev(e.value, sub, mod, fn)
                    entries = [(a_, b_) for a_, b_ in entries if a_ != k_] + [(k_, v_)]
                return T("dictlit", tuple(entries), ty="dict")
        return T("call", "dictcomp", (C(ast.unparse(e)),), ty="dict")

    def ev_GeneratorExp(self, e, env, mod, fn):
        # a generator over a literal sequence is consumed once by the call it is an argument of: same elements as the list
        items, _it = self._comp_items(e, env, mod, fn)
        if items is not None:
            if all(is_const(c, True) for c, _ in items):
                return T("list", tuple(x for _, x in items), ty=("list", None))
            return T("optlist", tuple(items), ty=("list", None))
        return T("call", "genexp", (C(ast.unparse(e)),), ty=("list", None))

    def ev_Dict(self, e, env, mod, fn):
        keys = [self.ev(k, env, mod, fn) for k in e.keys]
        vals = [self.ev(v, env, mod, fn) for v in e.values]
        return T("dictlit", tuple(zip(keys, vals)), ty="dict")

    def ev_Set(self, e, env, mod, fn):
        return T("tuple", tuple(self.ev(x, env, mod, fn) for x in e.elts))

    def ev_Name(self, e, env, mod, fn):
        if e.id in env.vars:
            return env.vars[e.id]
        r = self.P.resolve(mod, e.id)
        if r is None:
            if e.id in BUILTIN_NAMES:
                return T("builtin", e.id)
            self.unsupported(f"unresolved name {e.id}", e)
        if r[0] == "class":
            return T("class", r[1])
        if r[0] == "func":
            return T("func", r[1])
        if r[0] == "const":
            return self.module_const(r[1], r[2])
        if r[0] in ("module", "extern"):
            return T("builtin", r[1])
        self.unsupported(f"name kind {r}", e)

    def _elts(self, elts, env, mod, fn):
        """elements of a tuple/list display; *x is expanded when x is a constant string of octets or a literal sequence"""
        out = []
        for x in elts:
            if isinstance(x, ast.Starred):
                v = self.ev(x.value, env, mod, fn)
                if v.k == "const" and isinstance(v.a[0], (bytes, bytearray)):
                    out += [C(b) for b in v.a[0]]
                elif v.k in ("tuple", "list"):
                    out += list(v.a[0])
                else:
                    self.unsupported("starred element of a non-literal sequence", x)
            else:
                out.append(self.ev(x, env, mod, fn))
        return tuple(out)

    def ev_Tuple(self, e, env, mod, fn):
        return T("tuple", self._elts(e.elts, env, mod, fn))

    def ev_List(self, e, env, mod, fn):
        return T("list", self._elts(e.elts, env, mod, fn), ty=("list", None))

    def ev_IfExp(self, e, env, mod, fn):
        c = truthy(self.ev(e.test, env, mod, fn))
        if c.k == "const":
            return self.ev(e.body if c.a[0] else e.orelse, env, mod, fn)
        e1, e2 = env.clone(), env.clone()
        e1.add_fact(c)
        e2.add_fact(un("not", c))
        return gamma(c, self.ev(e.body, e1, mod, fn), self.ev(e.orelse, e2, mod, fn))

    def ev_UnaryOp(self, e, env, mod, fn):
        v = self.ev(e.operand, env, mod, fn)
        op = {ast.Not: "not", ast.USub: "-", ast.Invert: "~", ast.UAdd: "+"}[type(e.op)]
        return un(op, v)

    BINOPS = {ast.Add: "+", ast.Sub: "-", ast.Mult: "*", ast.Div: "/", ast.FloorDiv: "//", ast.Mod: "%",
              ast.LShift: "<<", ast.RShift: ">>", ast.BitOr: "|", ast.BitAnd: "&", ast.BitXor: "^",
              ast.Pow: "**"}

    def ev_BinOp(self, e, env, mod, fn):
        a = self.ev(e.left, env, mod, fn)
        b = self.ev(e.right, env, mod, fn)
        return self.arith(self.BINOPS[type(e.op)], a, b, env, e)

    def arith(self, op, a, b, env, node):
        if op == "%" and a.ty == "str" or (a.k == "const" and isinstance(a.a[0], str) and op == "%"):
            return T("call", "strformat", (), ty="str")
        return binop(op, a, b)

    def ev_BoolOp(self, e, env, mod, fn):
        is_and = isinstance(e.op, ast.And)
        sub = env.clone()
        res = None
        guard = TRUE
        for i, v in enumerate(e.values):
            before = dict(sub.vars) if _has_walrus(v) else None
            t = self.ev(v, sub, mod, fn)
            if before is not None:
                # names bound by := inside an operand outlive the expression; an operand after the first is only
                # evaluated under the short-circuit guard, so a rebinding there is gated on it
                for name, val in sub.vars.items():
                    if before.get(name) is not val:
                        old = env.vars.get(name)
                        env.vars[name] = val if (i == 0 or old is None) else gamma(guard, val, old)
            res = t if res is None else binop("and" if is_and else "or", res, t)
            # short-circuit: later operands are evaluated knowing the earlier ones
            tb = truthy(t)
            g = tb if is_and else un("not", tb)
            guard = binop("and", guard, g)
            sub.add_fact(g)
            if sub.dead:
                break
        return res

    CMPOPS = {ast.Eq: "==", ast.NotEq: "!=", ast.Lt: "<", ast.LtE: "<=", ast.Gt: ">", ast.GtE: ">=",
              ast.Is: "is", ast.IsNot: "isnot", ast.In: "in", ast.NotIn: "notin"}

    def ev_Compare(self, e, env, mod, fn):
        left = self.ev(e.left, env, mod, fn)
        res = None
        for op, right in zip(e.ops, e.comparators):
            r = self.ev(right, env, mod, fn)
            c = self.compare(self.CMPOPS[type(op)], left, r, env, e)
            res = c if res is None else binop("and", res, c)
            left = r
        return res

    def compare(self, o, a, b, env, node):
        # user-defined __eq__ on heap objects
        if o in ("==", "!=") and a.k == "obj" and isinstance(a.ty, str) and a.ty in self.P.classes:
            r = self.P.lookup(a.ty, "__eq__")
            if r and r[0] == "method":
                v = truthy(self.call_func(r[1], [a, b], {}, env, node))
                return v if o == "==" else un("not", v)
            if self.P.is_dataclass(a.ty) and b.k == "obj" and b.ty == a.ty:
                res = TRUE
                for (fname, _a, _d, _m) in self.P.dataclass_fields(a.ty):
                    res = binop("and", res, self.compare("==", self.getattr(a, fname, env, node),
                                                         self.getattr(b, fname, env, node), env, node))
                return res if o == "==" else un("not", res)
        if o in ("in", "notin") and b.k == "dictlit":
            # membership in a dictionary literal whose keys are heap objects / constants: decided by term identity
            hit = any(k_ == a for k_, _v in b.a[0])
            if hit or all(k_.k in ("obj", "const") for k_, _v in b.a[0]) and a.k in ("obj", "const"):
                return C(hit if o == "in" else not hit)
            return T("op", o, a, b, ty="bool")
        if o in ("in", "notin") and b.k == "obj" and b.ty == "dict":
            return T("op", o, a, b, ty="bool")
        if o in ("in", "notin") and b.k == "gamma":
            return gamma(b.a[0], self.compare(o, a, b.a[1], env, node), self.compare(o, a, b.a[2], env, node))
        return binop(o, a, b)

    # ---- subscripts
    def ev_Subscript(self, e, env, mod, fn):
        base = self.ev(e.value, env, mod, fn)
        if isinstance(e.slice, ast.Slice):
            if e.slice.step is not None:
                self.unsupported("slice step", e)
            lo = self.ev(e.slice.lower, env, mod, fn) if e.slice.lower else C(0)
            hi = self.ev(e.slice.upper, env, mod, fn) if e.slice.upper else NONE
            return self.do_slice(base, lo, hi, env, e)
        i = self.ev(e.slice, env, mod, fn)
        if i.k == "sliceobj":
            return self.do_slice(base, i.a[0], i.a[1], env, e)
        return self.do_index(base, i, env, e)

    # ---- byte strings under construction: positions resolved through the item list
    @staticmethod
    def _item_octets(it_):
        """fixed-size item -> list of per-octet terms (MSB first); None for variable items"""
        import struct as _st
        if it_.k == "u8":
            return [it_.a[0]]
        if it_.k == "lit":
            return [C(b) for b in it_.a[0]]
        if it_.k == "packed":
            fmt = it_.a[0]
            code = fmt.lstrip("!<>=@")
            if fmt[:1] in ("!", ">") and len(code) == 1 and code in "BHIQ":
                n = _st.calcsize("!" + code)
                return [binop("&", binop(">>", it_.a[1], C(8 * (n - 1 - i))), C(0xFF)) for i in range(n)]
        return None

    def bcat_tail(self, b, lo):
        """b[lo:] for an item-aligned start `lo` (constant or symbolic): -> bcat term or None"""
        from .linear import linearize, Lin
        from .terms import item_len
        want = linearize(lo)
        acc = Lin({}, 0)
        items = list(b.a[0])
        for i, it_ in enumerate(items):
            if acc.key() == want.key():
                return bcat(tuple(items[i:]))
            if it_.k in ("alt", "rep"):
                return None
            octs = self._item_octets(it_)
            if octs is not None and want.is_const() and acc.is_const() and acc.c < want.c < acc.c + len(octs):
                k = want.c - acc.c
                return bcat(tuple(T("u8", o) for o in octs[k:]) + tuple(items[i + 1:]))
            if it_.k == "bytes" and (want - acc).is_const() and (want - acc).c > 0 and i == len(items) - 1:
                return bcat((T("bytes", T("slice", it_.a[0], C((want - acc).c), NONE, ty="bytes")),))
            acc = acc + linearize(item_len(it_))
        if acc.key() == want.key():
            return bcat()
        return None

    def do_slice(self, base, lo, hi, env, node):
        ci = lambda t: t.k == "const" and isinstance(t.a[0], int) and not isinstance(t.a[0], bool) and t.a[0] >= 0
        if base.k == "slice" and ci(lo) and ci(hi) and ci(base.a[1]) and ci(base.a[2]) and lo.a[0] <= hi.a[0]:
            # b[a:e][c:d] == b[a+c : min(a+d, e)] for non-negative constants, whatever the length of b (clamping commutes):
            # one name for the same octets
            a_, e_, c_, d_ = base.a[1].a[0], base.a[2].a[0], lo.a[0], hi.a[0]
            if a_ + c_ <= e_:
                return self.do_slice(base.a[0], C(a_ + c_), C(min(a_ + d_, e_)), env, node)
        if base.k == "bcat" and len(base.a[0]) > 1 and is_const(hi, None):
            r = self.bcat_tail(base, lo)
            if r is not None:
                if len(r.a[0]) == 1 and r.a[0][0].k == "bytes":
                    return r.a[0][0].a[0] if r.a[0][0].a[0].k == "slice" else r
                return r
        if base.k == "bcat" and len(base.a[0]) > 1 and lo.k == "const" and hi.k == "const" and isinstance(hi.a[0], int) and isinstance(lo.a[0], int):
            # constant window inside the fixed-size prefix
            octs = []
            for it_ in base.a[0]:
                o = self._item_octets(it_)
                if o is None:
                    break
                octs += o
            if 0 <= lo.a[0] <= hi.a[0] <= len(octs):
                win = octs[lo.a[0]:hi.a[0]]
                if all(o.k == "const" for o in win):
                    return C(bytes(o.a[0] for o in win))
                return bcat(tuple(T("u8", o) for o in win))
            items = base.a[0]
            fixed = 0
            allfixed = True
            for it_ in items[:-1]:
                o = self._item_octets(it_)
                if o is None:
                    allfixed = False
                    break
                fixed += len(o)
            if allfixed and items[-1].k == "bytes" and lo.a[0] >= fixed:
                # a constant window that lies entirely in the trailing payload
                return self.do_slice(items[-1].a[0], C(lo.a[0] - fixed), C(hi.a[0] - fixed), env, node)
        if base.k == "gamma":
            return gamma(base.a[0], self.do_slice(base.a[1], lo, hi, env, node),
                         self.do_slice(base.a[2], lo, hi, env, node))
        if base.k == "const" and lo.k == "const" and hi.k == "const":
            try:
                return C(base.a[0][lo.a[0]:hi.a[0]])
            except Exception:
                pass
        if base.k in ("list", "tuple") and lo.k == "const" and hi.k == "const":
            return T(base.k, base.a[0][lo.a[0]:hi.a[0]], ty=base.ty)
        self.log_read("slice", base, lo, hi, env, node)
        return T("slice", base, lo, hi, ty="bytes")

    def namedtuple_items(self, obj, env, node):
        """field values of a NamedTuple instance in declaration order, or None"""
        if obj.k == "obj" and isinstance(obj.ty, str) and obj.ty in self.P.classes and getattr(self.P.classes[obj.ty], "is_namedtuple", False):
            return [self.getattr(obj, f_[0], env, node) for f_ in self.P.dataclass_fields(obj.ty)]
        return None

    def slice_items(self, it, env, node, limit=16):
        """octets of a slice of constant extent, as index reads of the slice (None if the extent is not a small constant)"""
        if it.k != "slice" or is_const(it.a[2], None):
            return None
        from .linear import linearize
        ext = linearize(it.a[2]) - linearize(it.a[1])
        if not ext.is_const() or not (0 <= ext.c <= limit):
            return None
        return [self.do_index(it, C(i_), env, node) for i_ in range(ext.c)]

    def do_index(self, base, i, env, node):
        nt = self.namedtuple_items(base, env, node)
        if nt is not None:
            base = T("tuple", tuple(nt))
        if base.k in ("tuple", "list"):
            if i.k == "const" and isinstance(i.a[0], int):
                try:
                    return base.a[0][i.a[0]]
                except IndexError:
                    self.log_raise("IndexError", env, node, kind="index")
                    env.dead = True
                    return NONE
            if i.k == "gamma":
                return gamma(i.a[0], self.do_index(base, i.a[1], env, node), self.do_index(base, i.a[2], env, node))
        if base.k == "gamma":
            return gamma(base.a[0], self.do_index(base.a[1], i, env, node), self.do_index(base.a[2], i, env, node))
        if base.k == "const" and i.k == "const":
            try:
                return C(base.a[0][i.a[0]])
            except Exception:
                pass
        if base.k == "sym" and i.k == "const" and (base.a[0], i.a[0]) in self.concrete_bytes:
            self.log_read("idx", base, i, None, env, node)
            return C(self.concrete_bytes[(base.a[0], i.a[0])])
        if self.concrete_bytes and base.k == "slice" and i.k == "const" and isinstance(i.a[0], int) and i.a[0] >= 0:
            # a structure-determining octet seen through (nested) slices with constant starts
            q, off, ok = base, i.a[0], True
            while q.k == "slice":
                if q.a[1].k == "const" and isinstance(q.a[1].a[0], int) and q.a[1].a[0] >= 0:
                    off += q.a[1].a[0]
                    q = q.a[0]
                else:
                    ok = False
                    break
            if ok and q.k == "sym" and (q.a[0], off) in self.concrete_bytes:
                self.log_read("idx", base, i, None, env, node)
                return C(self.concrete_bytes[(q.a[0], off)])
        if base.k == "dictlit" or base.ty == "dict" or (base.k == "obj" and base.ty == "dict"):
            if base.k == "dictlit":
                for k, v in base.a[0]:
                    if k == i or (k.k == "const" and i.k == "const" and k.a[0] == i.a[0] and type(k.a[0]) is type(i.a[0])):
                        return v
                if i.k != "const" and base.a[0] and all(k.k == "const" for k, _v in base.a[0]) and len(base.a[0]) <= 32:
                    # a symbolic key against constant keys: KeyError unless it equals one of them
                    hit = FALSE
                    for k, _v in base.a[0]:
                        hit = binop("or", hit, binop("==", i, C(k.a[0])))
                    self.log_raise("KeyError", env, node, kind="key", cond=un("not", hit))
                    env.add_fact(hit)
                    out_ = base.a[0][-1][1]
                    for k, v in reversed(base.a[0][:-1]):
                        out_ = gamma(binop("==", i, C(k.a[0])), v, out_)
                    return out_
                # a fully known dictionary without that key (same convention as .get() on it): the lookup raises
                self.log_raise("KeyError", env, node, kind="key")
                env.dead = True
                return NONE
            self.log_raise("KeyError", env, node, kind="key")
            return T("call", "dictget", (base, i))
        if base.k == "bcat" and i.k == "const" and isinstance(i.a[0], int) and i.a[0] >= 0 and \
                (len(base.a[0]) > 1 or (len(base.a[0]) == 1 and base.a[0][0].k != "bytes")):
            # index into a byte string under construction: resolve through the fixed-size prefix items
            pos = 0
            for n_, it_ in enumerate(base.a[0]):
                o = self._item_octets(it_)
                if o is None:
                    if it_.k == "bytes" and n_ == len(base.a[0]) - 1:
                        return self.do_index(it_.a[0], C(i.a[0] - pos), env, node)
                    break
                if i.a[0] < pos + len(o):
                    return o[i.a[0] - pos]
                pos += len(o)
        if base.k == "bcat" and i.k == "const":
            if self.concrete_bytes:
                # a copy of (part of) the entry buffer: a structure-determining octet keeps its concrete value
                from .bits import buffer_pos
                from .linear import linearize
                p = buffer_pos(base, linearize(i))
                if p is not None and p[1].is_const() and p[1].c >= 0 and p[0].k == "sym" and (p[0].a[0], p[1].c) in self.concrete_bytes:
                    self.log_read("idx", base, i, None, env, node)
                    return C(self.concrete_bytes[(p[0].a[0], p[1].c)])
            # an index into a byte string that was built from (a copy of) input octets is a read like any other: it fails
            # when the copy is shorter
            self.log_read("idx", base, i, None, env, node)
            return T("idx", base, i, ty="int")
        ety = base.ty[1] if isinstance(base.ty, tuple) and base.ty[0] == "list" else None
        if isinstance(base.ty, tuple) and base.ty[0] == "tuple" and base.ty[1] and i.k == "const" \
                and isinstance(i.a[0], int) and i.a[0] < len(base.ty[1]):
            ety = base.ty[1][i.a[0]]
        if base.ty in ("bytes", "bytearray") or base.k in ("slice", "bcat") or ety is None and base.ty is None:
            self.log_read("idx", base, i, None, env, node)
            if base.k in ("slice", "bcat"):
                # canonical value: the octet of the root buffer (the read log keeps the original view, whose bounds
                # X-BUF decides; wherever the index is valid the value is this octet)
                from .bits import buffer_pos
                from .linear import linearize
                p = buffer_pos(base, linearize(i))
                if p is not None and p[1].is_const() and p[1].c >= 0 and p[0].k == "sym":
                    if (p[0].a[0], p[1].c) in self.concrete_bytes:
                        return C(self.concrete_bytes[(p[0].a[0], p[1].c)])
                    return T("idx", p[0], C(p[1].c), ty="int" if ety is None else ety)
            return T("idx", base, i, ty="int" if ety is None else ety)
        self.log_read("idx", base, i, None, env, node)
        return T("idx", base, i, ty=ety)

    # ---- attributes
    def mangled(self, attr, fn):
        if attr.startswith("__") and not attr.endswith("__") and fn is not None and fn.cls:
            return Program.mangle(self.P.classes[fn.cls].name, attr)
        return attr

    def ev_Attribute(self, e, env, mod, fn):
        base = self.ev(e.value, env, mod, fn)
        if env.dead:
            return NONE         # the base expression always raises: the attribute is never read
        return self.getattr(base, e.attr, env, e, fn)

    def ev_Call(self, e, env, mod, fn):
        return self.eval_call(e, env, mod, fn)

    def ev_Starred(self, e, env, mod, fn):
        self.unsupported("starred", e)

    def ev_NamedExpr(self, e, env, mod, fn):
        v = self.ev(e.value, env, mod, fn)
        env.vars[e.target.id] = v
        return v


def _has_walrus(node):
    return any(isinstance(n, ast.NamedExpr) for n in ast.walk(node))


def _txt(node):
    if node is None:
        return ""
    try:
        s = ast.unparse(node)
    except Exception:
        return ""
    return s if len(s) < 160 else s[:157] + "..."
