"""Front end: program index and name/class resolution for the analysed package.

Parses every module under <repo>/spacepackets with `ast` (never imports it).
Provides: module symbol tables, import resolution through re-exports, classes with
linearised MRO, methods / classmethods / staticmethods / properties / setters,
dataclass fields, enum detection, private-name mangling, class constants.
"""
from __future__ import annotations

import ast
import dataclasses
import hashlib
import pathlib
from typing import Dict, List, Optional, Tuple

from . import PKG


class IndexError_(Exception):
    pass


@dataclasses.dataclass
class Func:
    qual: str                # module.Class.name or module.name  (setters: ...name:set)
    name: str
    node: ast.FunctionDef
    module: str
    cls: Optional[str]       # owning class qualname
    kind: str                # method|classmethod|staticmethod|function|property|setter
    path: str = ""

    @property
    def short(self) -> str:
        q = self.qual
        return q[len(PKG) + 1:] if q.startswith(PKG + ".") else q


@dataclasses.dataclass
class Cls:
    qual: str
    name: str
    node: ast.ClassDef
    module: str
    bases: list
    methods: Dict[str, Func]
    props: Dict[str, Func]
    setters: Dict[str, Func]
    consts: Dict[str, ast.expr]
    fields: List[Tuple[str, Optional[ast.expr], Optional[ast.expr]]]
    is_dataclass: bool = False
    is_namedtuple: bool = False
    dataclass_eq: bool = True
    path: str = ""


EXTERNAL_ENUM_BASES = {"enum.IntEnum", "enum.Enum", "IntEnum", "Enum", "enum.IntFlag"}


class Program:
    def __init__(self, repo: str):
        self.repo = pathlib.Path(repo)
        self.root = self.repo / PKG
        if not self.root.is_dir():
            raise IndexError_(f"package directory {self.root} not found")
        self.mods: Dict[str, Tuple[ast.Module, str, bool]] = {}
        self.src: Dict[str, str] = {}
        self.syms: Dict[str, dict] = {}
        self.classes: Dict[str, Cls] = {}
        self.funcs: Dict[str, Func] = {}
        self._mro_cache: Dict[str, List[str]] = {}
        self._enum_cache: Dict[str, bool] = {}
        h = hashlib.sha256()
        for p in sorted(self.root.rglob("*.py")):
            rel = p.relative_to(self.repo).with_suffix("")
            parts = list(rel.parts)
            is_pkg = parts[-1] == "__init__"
            if is_pkg:
                parts = parts[:-1]
            mod = ".".join(parts)
            text = p.read_text()
            h.update(str(rel).encode())
            h.update(text.encode())
            self.src[mod] = text
            self.mods[mod] = (ast.parse(text, filename=str(p)), str(p), is_pkg)
        self.digest = h.hexdigest()
        for mod, (tree, path, is_pkg) in self.mods.items():
            self._index(mod, tree, is_pkg, path)

    # ------------------------------------------------------------------ indexing
    def _abs(self, mod, is_pkg, level, name):
        if level == 0:
            return name
        parts = mod.split(".")
        if not is_pkg:
            parts = parts[:-1]
        parts = parts[: len(parts) - (level - 1)]
        return ".".join(parts + ([name] if name else []))

    def _index(self, mod, tree, is_pkg, path):
        st = self.syms.setdefault(mod, {})
        for n in tree.body:
            self._index_stmt(mod, n, is_pkg, path, st)

    def _index_stmt(self, mod, n, is_pkg, path, st):
        if isinstance(n, ast.ImportFrom):
            src = self._abs(mod, is_pkg, n.level, n.module)
            for a in n.names:
                if a.name == "*":
                    st.setdefault("*", []).append(src)
                else:
                    st[a.asname or a.name] = ("import", src, a.name)
        elif isinstance(n, ast.Import):
            for a in n.names:
                if a.asname:
                    st[a.asname] = ("module", a.name)
                else:
                    st[a.name.split(".")[0]] = ("module", a.name.split(".")[0])
        elif isinstance(n, ast.ClassDef):
            self._index_class(mod, n, path)
            st[n.name] = ("class", f"{mod}.{n.name}")
        elif isinstance(n, (ast.FunctionDef, ast.AsyncFunctionDef)):
            q = f"{mod}.{n.name}"
            self.funcs[q] = Func(q, n.name, n, mod, None, "function", path)
            st[n.name] = ("func", q)
        elif isinstance(n, (ast.Assign, ast.AnnAssign)):
            tgts = n.targets if isinstance(n, ast.Assign) else [n.target]
            for t in tgts:
                if isinstance(t, ast.Name) and n.value is not None:
                    st[t.id] = ("const", n.value)
                elif isinstance(t, (ast.Tuple, ast.List)) and n.value is not None and all(isinstance(e_, ast.Name) for e_ in t.elts):
                    # A, B, C = <sequence>: each name is the element at its position (a generator is materialised first)
                    seq = n.value
                    if isinstance(seq, ast.GeneratorExp):
                        seq = ast.Call(func=ast.Name(id="tuple", ctx=ast.Load()), args=[seq], keywords=[])
                    for i_, e_ in enumerate(t.elts):
                        sub = ast.Subscript(value=seq, slice=ast.Constant(value=i_), ctx=ast.Load())
                        ast.copy_location(sub, n)
                        ast.fix_missing_locations(sub)
                        st[e_.id] = ("const", sub)
        elif isinstance(n, ast.If):
            # `if __name__ == "__main__":` blocks and similar are not part of the library
            pass

    def _index_class(self, mod, n, path):
        q = f"{mod}.{n.name}"
        c = Cls(q, n.name, n, mod, n.bases, {}, {}, {}, {}, [], path=path)
        if any(ast.unparse(b_).split(".")[-1] == "NamedTuple" for b_ in n.bases):
            # typing.NamedTuple: fields from the annotations, positional / keyword construction, field-wise equality
            # (like a frozen dataclass); index access and unpacking by field order are handled by the interpreter
            c.is_dataclass = True
            c.is_namedtuple = True
        for d in n.decorator_list:
            s = ast.unparse(d)
            if "dataclass" in s:
                c.is_dataclass = True
                if "eq=False" in s.replace(" ", ""):
                    c.dataclass_eq = False
        for b in n.body:
            if isinstance(b, ast.FunctionDef):
                decs = [ast.unparse(d) for d in b.decorator_list]
                kind = "method"
                if "classmethod" in decs:
                    kind = "classmethod"
                elif "staticmethod" in decs:
                    kind = "staticmethod"
                elif "property" in decs:
                    kind = "property"
                elif any(d.endswith(".setter") for d in decs):
                    kind = "setter"
                fq = f"{q}.{b.name}" + (":set" if kind == "setter" else "")
                f = Func(fq, b.name, b, mod, q, kind, path)
                if kind == "property":
                    c.props[b.name] = f
                elif kind == "setter":
                    c.setters[b.name] = f
                else:
                    c.methods[b.name] = f
                self.funcs[fq] = f
            elif isinstance(b, ast.Assign):
                for t in b.targets:
                    if isinstance(t, ast.Name):
                        c.consts[t.id] = b.value
            elif isinstance(b, ast.AnnAssign) and isinstance(b.target, ast.Name):
                c.fields.append((b.target.id, b.annotation, b.value))
                if b.value is not None:
                    c.consts[b.target.id] = b.value
        self.classes[q] = c

    # ------------------------------------------------------------------ resolution
    def resolve(self, mod: str, name: str, seen=None):
        """-> ('class', q) | ('func', q) | ('const', mod, expr) | ('module', m) | ('extern', dotted) | None"""
        seen = seen or set()
        if (mod, name) in seen:
            return None
        seen.add((mod, name))
        st = self.syms.get(mod)
        if st is None:
            return None
        if name not in st:
            for src in st.get("*", []):
                if src in self.syms:
                    r = self.resolve(src, name, seen)
                    if r:
                        return r
            return None
        e = st[name]
        if e[0] == "import":
            src, nm = e[1], e[2]
            if src in self.syms:
                r = self.resolve(src, nm, seen)
                if r:
                    return r
                if f"{src}.{nm}" in self.mods:
                    return ("module", f"{src}.{nm}")
                return ("extern", f"{src}.{nm}")
            return ("extern", f"{src}.{nm}")
        if e[0] == "const":
            if isinstance(e[1], ast.Name):
                r = self.resolve(mod, e[1].id, seen)
                if r and r[0] in ("class", "func"):
                    return r
            return ("const", mod, e[1])
        if e[0] == "module":
            if e[1] in self.mods:
                return ("module", e[1])
            return ("extern", e[1])
        return e

    def resolve_expr_class(self, mod: str, e) -> Optional[str]:
        if isinstance(e, ast.Name):
            r = self.resolve(mod, e.id)
            if r and r[0] == "class":
                return r[1]
            if r and r[0] == "extern":
                return "ext:" + r[1]
            if r is None:
                return "ext:" + e.id   # builtin (Exception, ValueError, object ...)
            return None
        if isinstance(e, ast.Attribute):
            return "ext:" + ast.unparse(e)
        if isinstance(e, ast.Subscript):
            return self.resolve_expr_class(mod, e.value)
        return None

    def mro(self, q: str) -> List[str]:
        if q in self._mro_cache:
            return self._mro_cache[q]
        out: List[str] = []

        def go(k):
            if k in out or k not in self.classes:
                return
            out.append(k)
            c = self.classes[k]
            for b in c.bases:
                r = self.resolve_expr_class(c.module, b)
                if r and not r.startswith("ext:"):
                    go(r)

        # depth-first left-to-right; adequate for the single/multiple inheritance used in the package
        # (FileStoreRequestTlv(FileStoreRequestBase, AbstractTlvBase): no diamond with overrides)
        go(q)
        self._mro_cache[q] = out
        return out

    def ext_bases(self, q: str) -> List[str]:
        res = []
        for k in self.mro(q):
            c = self.classes[k]
            for b in c.bases:
                r = self.resolve_expr_class(c.module, b)
                if r and r.startswith("ext:"):
                    res.append(r[4:])
        return res

    def is_enum(self, q: str) -> bool:
        if q not in self._enum_cache:
            self._enum_cache[q] = any(b in EXTERNAL_ENUM_BASES or b.endswith(".IntEnum") or b.endswith(".Enum")
                                      for b in self.ext_bases(q))
        return self._enum_cache[q]

    def is_int_enum(self, q: str) -> bool:
        return any(b.endswith("IntEnum") for b in self.ext_bases(q))

    def is_exception(self, q: str) -> bool:
        return any(b in ("Exception", "ValueError", "builtins.Exception", "builtins.ValueError", "TypeError")
                   or b.endswith("Error") or b.endswith("Exception") for b in self.ext_bases(q))

    def exc_is_valueerror(self, q: str) -> bool:
        """does class q (internal exception class) derive from ValueError?"""
        return any(b in ("ValueError", "builtins.ValueError") for b in self.ext_bases(q))

    def is_subclass(self, q: str, base: str) -> bool:
        return base in self.mro(q)

    def lookup(self, clsq: str, name: str):
        """-> (kind, payload) following the MRO; kind in method|prop|const"""
        for k in self.mro(clsq):
            c = self.classes[k]
            if name in c.methods:
                return ("method", c.methods[name])
            if name in c.props:
                return ("prop", c.props[name])
            if name in c.consts:
                return ("const", (c, c.consts[name]))
        return None

    def lookup_after(self, clsq: str, after: str, name: str):
        """super() lookup: search the MRO of clsq after class `after`"""
        mro = self.mro(clsq)
        if after in mro:
            mro = mro[mro.index(after) + 1:]
        for k in mro:
            c = self.classes[k]
            if name in c.methods:
                return ("method", c.methods[name])
            if name in c.props:
                return ("prop", c.props[name])
        return None

    def lookup_setter(self, clsq: str, name: str) -> Optional[Func]:
        for k in self.mro(clsq):
            c = self.classes[k]
            if name in c.setters:
                return c.setters[name]
            if name in c.props or name in c.methods:
                # a property re-declared without setter in a subclass hides the base setter
                return None
        return None

    def dataclass_fields(self, clsq: str):
        fields = []
        for k in reversed(self.mro(clsq)):
            c = self.classes[k]
            if c.is_dataclass:
                for f in c.fields:
                    fields = [x for x in fields if x[0] != f[0]] + [(f[0], f[1], f[2], c.module)]
        return fields

    def is_dataclass(self, clsq: str) -> bool:
        return any(self.classes[k].is_dataclass for k in self.mro(clsq))

    def enum_members(self, clsq: str) -> Dict[str, ast.expr]:
        out = {}
        for k in reversed(self.mro(clsq)):
            for n, e in self.classes[k].consts.items():
                if not n.startswith("_"):
                    out[n] = e
        return out

    @staticmethod
    def mangle(cls_name: str, name: str) -> str:
        if name.startswith("__") and not name.endswith("__"):
            return f"_{cls_name.lstrip('_')}{name}"
        return name

    def func(self, short: str) -> Func:
        q = short if short.startswith(PKG + ".") else f"{PKG}.{short}"
        if q not in self.funcs:
            raise IndexError_(f"anchor vanished: function {q}")
        return self.funcs[q]

    def cls(self, short: str) -> Cls:
        q = short if short.startswith(PKG + ".") else f"{PKG}.{short}"
        if q not in self.classes:
            raise IndexError_(f"anchor vanished: class {q}")
        return self.classes[q]

    def stats(self):
        return {"modules": len(self.mods), "classes": len(self.classes), "functions": len(self.funcs)}
