"""Rule drivers shared by the property modules (W-PACK, W-UNPACK, W-VAL, L-LEN, G-RANGE ...)."""
from __future__ import annotations

from .bits import BitCtx, norm_bits, fmt_bits, data_bits_be, field_bits, TOP, fmt_bit, BV
from .gti import new_interp, call_method, construct, read_path, Env, Unsupported
from .layout import (flatten, flatten_any, ref_cells, compare_streams, resolve_crc_cells, stream_str, F, K, A, B, CRC,
                     stream_len_lin)
from .linear import entails, linearize, Lin
from .terms import T, C, sym, show, binop, un, truthy, is_const, length, NONE, gamma, as_bcat
from .report import PROVED, REFUTED, UNKNOWN


def enum_width_fn(it):
    def f(ty):
        if ty in it.P.classes and it.P.is_enum(ty):
            vals = [v for v in it.enum_values(ty) if isinstance(v, int)]
            if vals and min(vals) >= 0:
                return max(max(vals).bit_length(), 1)
        return None
    return f


def spec_widths(spec, acc=None, atoms=None):
    acc = {} if acc is None else acc
    atoms = {} if atoms is None else atoms
    for it in spec:
        if isinstance(it, F):
            acc[it.name] = it.width
        elif isinstance(it, A):
            atoms[it.key] = it.width
        elif isinstance(it, list):
            spec_widths(it, acc, atoms)
    return acc, atoms


def make_ctx(it, spec, extra_widths=None):
    w, a = spec_widths(spec)
    if extra_widths:
        w.update(extra_widths)
    return BitCtx(widths=w, atom_widths=a, enum_width=enum_width_fn(it))


def run_guarded(ck, rule, func, construct_text, thunk):
    """run an analysis step; Unsupported -> UNKNOWN obligation"""
    try:
        return thunk()
    except Unsupported as e:
        ck.unknown(rule, func, construct_text, f"unsupported construct: {e}")
        return None


# ---------------------------------------------------------------------------- W-PACK
# calls the interpreter models exactly (their terms are part of the comparison domain); any other call term is a
# construct the analysis does not understand, and a mismatch that involves one is UNKNOWN, never a violation
MODELLED_CALLS = {"encode", "decode", "hex", "rstrip", "strip", "isdigit", "floor", "int", "float", "hash", "dictget", "items", "round",
                  "isinstance", "enumname", "fstring", "strformat", "dcfield", "undefattr",
                  ".timestamp", ".exists", ".readline", ".read", ".astimezone", "datetime.datetime.fromtimestamp"}


def opaque_calls(t, limit=3):
    """names of unmodelled call terms inside t (at most `limit`)"""
    from .terms import subterms
    out = []
    for x in subterms(t):
        if x.k == "call" and x.a[0] not in MODELLED_CALLS:
            if x.a[0] not in out:
                out.append(x.a[0])
            if len(out) >= limit:
                break
    return out


def check_pack_layout(ck, it, env, packed, spec, func, what, extra_widths=None, rule="W-PACK"):
    """compare a packed bcat term with a reference spec"""
    ctx = make_ctx(it, spec, extra_widths)
    problems = []
    cells = resolve_crc_cells(flatten_any(packed, ctx, problems), ctx, problems)
    ref = ref_cells(spec)
    problems += compare_streams(cells, ref)
    detail = f"layout = {stream_str(cells, 300)}"
    if problems:
        oc = opaque_calls(packed)
        if oc:
            ck.unknown(rule, func, what, f"the packed value is built with constructs the analysis does not model ({', '.join(oc)}): {show(packed)[:160]}")
            return False, cells
        ck.refuted(rule, func, what, "; ".join(problems[:4]) + f" | inferred {stream_str(cells, 260)} | reference {stream_str(ref, 260)}")
        return False, cells
    ck.proved(rule, func, what, detail)
    return True, cells


# ---------------------------------------------------------------------------- W-UNPACK (fixed offsets)
def check_field_bits(ck, it, term, expect_bits, func, what, rule="W-UNPACK", ctx=None, width_bound=True):
    """term must normalise to exactly expect_bits (LSB first) with all higher bits zero"""
    ctx = ctx or BitCtx(enum_width=enum_width_fn(it))
    bv = norm_bits(term, ctx)
    if bv is None:
        oc = opaque_calls(term)
        if oc:
            ck.unknown(rule, func, what, f"the decoded value uses constructs the analysis does not model ({', '.join(oc)}): {show(term)[:160]}")
            return False
        ck.refuted(rule, func, what, f"decoded value {show(term)[:160]} is outside the bit domain ({'; '.join(ctx.problems[-2:])})")
        return False
    n = len(expect_bits)
    got = bv.take(n)
    probs = []
    if got != list(expect_bits):
        probs.append(f"decoded bits [{fmt_bits(got)}] != reference [{fmt_bits(list(expect_bits))}]")
    if width_bound and not bv.high_clear(n):
        probs.append(f"bits above bit {n - 1} may be set: {show(term)[:120]}")
    if probs:
        oc = opaque_calls(term)
        if oc:
            ck.unknown(rule, func, what, f"the decoded value uses constructs the analysis does not model ({', '.join(oc)}): {show(term)[:160]}")
            return False
        ck.refuted(rule, func, what, "; ".join(probs))
        return False
    ck.proved(rule, func, what, f"{show(term)[:120]} = [{fmt_bits(got)}]")
    return True


def check_lin_equal(ck, term, expect: Lin, func, what, rule="L-LEN", rename=None):
    got = linearize(term)
    if rename:
        got = Lin({rename.get(show(a), a) if not isinstance(rename.get(show(a)), T) else rename[show(a)]: v for a, v in got.co.items()}, got.c)
    if got.key() == expect.key():
        ck.proved(rule, func, what, f"{show(term)[:120]} == {expect!r}")
        return True
    oc = opaque_calls(term)
    if oc:
        ck.unknown(rule, func, what, f"the value uses constructs the analysis does not model ({', '.join(oc)}): {show(term)[:160]}")
        return False
    ck.refuted(rule, func, what, f"inferred {got!r}, reference {expect!r}")
    return False


# ---------------------------------------------------------------------------- G-RANGE
def check_range_guard(ck, it, facts, raises, ranges, func, exc_ok=("ValueError",), rule="G-RANGE"):
    """ranges: {label: (var term, lo, hi)}.  After the guards (facts) every var lies in its interval; every
    refusal is justified (its path condition implies that some var is out of range) and raises a
    ValueError (sub)class."""
    out = None
    for label, (var, lo, hi) in ranges.items():
        goal = binop("and", binop(">=", var, C(lo)), binop("<=", var, C(hi)))
        rel = [show(f)[:60] for f in facts if var in _atoms(f)][:4]
        st, model = entails(facts, goal)
        cons = f"{label}: accepted values lie in [{lo}, {hi}]"
        if st == "proved":
            ck.proved(rule, func, cons, f"guard facts {rel}")
        elif st == "refutable":
            ck.refuted(rule, func, cons, f"value {model.get(var)} passes the guards {rel}", witness=model)
        else:
            ck.unknown(rule, func, cons, str(model))
        o = binop("or", binop("<", var, C(lo)), binop(">", var, C(hi)))
        out = o if out is None else binop("or", out, o)
    n = 0
    for r in raises:
        if r["caught"] or r["kind"] != "explicit":
            continue
        n += 1
        st, model = entails(r["facts"], out)
        cons = f"refusal `{r['text'][:80]}` only for out-of-range {'/'.join(ranges)}"
        if st == "proved":
            if it.exc_matches(r["exc"], exc_ok):
                ck.proved(rule, func, cons, f"path condition {[show(f)[:60] for f in r['facts'][-2:]]}; raises {r['exc'].split('.')[-1]}")
            else:
                ck.refuted(rule, func, cons, f"raises {r['exc']} which is not a {exc_ok} (sub)class")
        elif st == "refutable":
            ck.refuted(rule, func, cons, f"in-range values {{{', '.join(f'{show(k)}={v}' for k, v in model.items())}}} are refused", witness=model)
        else:
            ck.unknown(rule, func, cons, str(model))
    return n


def _atoms(f):
    from .terms import subterms
    return set(subterms(f))


# ---------------------------------------------------------------------------- reference-spec helpers
def spec_len(spec, lens=None):
    """total length in octets of a flat reference spec as a Lin; B items contribute len-symbols
    (lens: {key: Lin or term} overrides)"""
    bits = 0
    lin = Lin({}, 0)
    for it in spec:
        if isinstance(it, (F, K, A)):
            bits += it.width
        elif isinstance(it, B):
            if lens and it.key in lens:
                v = lens[it.key]
                lin = lin + (v if isinstance(v, Lin) else linearize(v))
            elif it.key.startswith("enc(") and it.key.endswith(")"):
                lin = lin + linearize(length(T("call", "encode", (sym(it.key[4:-1], ty="str"),), ty="bytes")))
            else:
                lin = lin + Lin({length(sym(it.key, ty="bytes")): 1})
        elif isinstance(it, CRC):
            bits += 16
        elif isinstance(it, list):
            lin = lin + spec_len(it, lens)
        else:
            raise ValueError(f"spec_len of {it!r}")
    if bits % 8:
        raise ValueError("reference spec is not octet aligned")
    return lin + Lin({}, bits // 8)


def len_atom(width, lin: Lin):
    """an A() cell for an arithmetic length field whose value must equal `lin` (a constant becomes K)"""
    if lin.is_const():
        return K(width, lin.c)
    return A(width, repr(lin))


# ---------------------------------------------------------------------------- slices of the input
def check_slice_extent(ck, term, root, lo: Lin, hi: Lin, func, what, rule="W-UNPACK"):
    """term must be exactly root[lo:hi]"""
    from .bits import buffer_pos
    t = term
    while t.k == "bcat" and len(t.a[0]) == 1 and t.a[0][0].k == "bytes":
        t = t.a[0][0].a[0]
    if t.k != "slice":
        ck.refuted(rule, func, what, f"decoded value is {show(term)[:120]}, not a slice of {root}")
        return False
    p = buffer_pos(t, Lin({}, 0))
    if p is None or p[0].a[0] != root:
        ck.refuted(rule, func, what, f"decoded value {show(term)[:120]} is not a slice of {root}")
        return False
    got_lo = p[1]
    if is_const(t.a[2], None):
        ck.refuted(rule, func, what, f"decoded value {show(term)[:120]} runs to the end of the buffer; reference end {hi!r}")
        return False
    q = buffer_pos(T("slice", t.a[0], t.a[2], NONE), Lin({}, 0))
    got_hi = q[1]
    # inner closed slices must not cut the extent short: only single-level or open inner slices accepted
    inner = t.a[0]
    while inner.k == "slice":
        if not is_const(inner.a[2], None):
            ck.unknown(rule, func, what, f"nested closed slice {show(term)[:100]}")
            return False
        inner = inner.a[0]
    probs = []
    if got_lo.key() != lo.key():
        probs.append(f"starts at {got_lo!r}, reference {lo!r}")
    if got_hi.key() != hi.key():
        probs.append(f"ends at {got_hi!r}, reference {hi!r}")
    if probs:
        ck.refuted(rule, func, what, f"{show(term)[:100]}: " + "; ".join(probs))
        return False
    ck.proved(rule, func, what, f"{show(term)[:100]} = {root}[{lo!r} : {hi!r}]")
    return True


# ---------------------------------------------------------------------------- equality sensitivity
def check_eq_sensitive(ck, eq_term, syms_a, syms_b, func, what="__eq__ depends on every listed field of both operands", rule="Q-EQ"):
    """the term of `a == b` must mention every field symbol of a and of b"""
    from .terms import free_syms
    fs = free_syms(eq_term)
    missing = [s for s in list(syms_a) + list(syms_b) if s not in fs]
    if missing:
        ck.refuted(rule, func, what, f"equality {show(eq_term)[:160]} ignores {missing[:6]}")
        return False
    ck.proved(rule, func, what, f"{len(fs)} field symbols compared")
    return True


# ---------------------------------------------------------------------------- refused mutation leaves no trace
def check_refusal_atomic(ck, it, func, s0=0, r0=0, fresh_from=None, rule="G-REFUSE", what=None):
    """A mutator that refuses its argument must not have changed the object first: for every explicit, uncaught raise
    logged from index r0 on, no store logged from index s0 on (into an object that existed before the call) precedes it
    on the same path.  Same path: the store's facts are all among the raise's facts (paths only ever add facts).
    fresh_from: concrete objects with an id >= this number were created inside the call (use it.next_oid() before the
    call) and are not observable after a refusal; lazily materialised parts of a symbolic receiver are."""
    from . import decode_rules as _D
    raises = [r for r in it.raises[r0:] if r["kind"] == "explicit" and not r["caught"]]
    stores = it.stores[s0:]
    n = 0
    for r in raises:
        if not _D.feasible(r["facts"]):
            continue            # the refusal is unreachable (already excluded by an earlier validation)
        rf = set(r["facts"])
        first, last = {}, {}
        for st in stores:
            ff = st.get("finally_for")
            if ff is not None and r["seq"] not in ff:
                continue        # stored by a finally suite while another raise was propagating
            if st["seq"] > r["seq"] and ff is None:
                continue
            if fresh_from is not None and isinstance(st["oid"], int) and st["oid"] >= fresh_from \
                    and it.obj_info.get(st["oid"], {}).get("fresh", False):
                continue        # an object built inside the call: unreachable once the call has raised
            if not all(f in rf for f in st["facts"]):
                continue
            key = (st["oid"], st["attr"])
            first.setdefault(key, st)
            last[key] = st
        # net effect at the raise: a store that a handler has undone again (old value restored) leaves no trace
        early = [last[k] for k in last if not (first[k]["old"] is not None and first[k]["old"] == last[k]["val"])]
        n += 1
        cons = what or f"the refusal `{r['text'][:60]}` leaves the object as it was (nothing stays stored when the check fails)"
        if early:
            e = early[0]
            ck.refuted(rule, func, cons, f"`{e['text'][:60]}` in {e['func']} has stored {show(e['val'])[:40]} into .{e['attr']} when "
                       f"{r['exc'].split('.')[-1]} is raised at {r['where'].split('>')[-1]}; the refused value stays in the object",
                       witness={"store": e["where"], "raise": r["where"]})
        else:
            ck.proved(rule, func, cons, f"{len(stores)} stores examined, none is left in place on the path of the raise")
    return n


def check_eq_pair(ck, it, env, a, b, syms_a, syms_b, func, rule="Q-EQ"):
    """`a == b` of two objects built from disjoint symbols: the comparison term mentions every field symbol of both"""
    from .gti import Unsupported
    try:
        eq = it.compare("==", a, b, env, None)
    except Unsupported as e:
        ck.unknown(rule, func, "equality analysed", str(e))
        return
    check_eq_sensitive(ck, eq, syms_a, syms_b, func, rule=rule)
