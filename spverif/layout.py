"""Byte-layout normal forms: flatten a bcat term into a stream of cells and compare with a reference.

Cells:
  ("bit", descriptor)            one output bit (MSB-first order inside each octet group)
  ("bytes", key, lenkey)         an opaque octet string (a payload field), lenkey = canonical length
  ("crc16", n_cells_covered)     CRC-16 over the first n cells of the stream
  ("alt", condkey, streamA, streamB)
  ("rep", listkey, stream)
Reference layouts are written with the small DSL below (F, K, A, B, CRC, REP, ALT).
"""
from __future__ import annotations

import struct

from .bits import BV, BitCtx, norm_bits, TOP, fmt_bit, field_bits, data_bits_be, buffer_pos, pos_key
from .linear import Lin, linearize
from .terms import T, C, show, is_const, length, bcat_len


class LayoutProblem(Exception):
    pass


def canon_bytes_key(t):
    """canonical name of an opaque byte-string term"""
    if t.k == "sym":
        return t.a[0]
    if t.k == "call" and t.a[0] == "encode" and t.a[1][0].k == "sym":
        return f"enc({t.a[1][0].a[0]})"
    if t.k == "slice":
        r = buffer_pos(t, Lin({}, 0))
        if r is not None:
            root, lo = r
            hi = t.a[2]
            cur = t
            # absolute end: only for single-level slices with explicit end
            if cur.a[0].k == "sym" and not is_const(hi, None):
                return f"{root.a[0]}[{lo!r}:{linearize(hi)!r}]"
            if cur.a[0].k == "sym":
                return f"{root.a[0]}[{lo!r}:]"
    return show(t)


def flatten(b, ctx: BitCtx, problems):
    """bcat term -> list of cells"""
    out = []
    if b.k != "bcat":
        if b.k == "gamma":
            from .terms import as_bcat as _ab, bcat as _bc
            x, y = _ab(b.a[1]), _ab(b.a[2])
            if x.k == "bcat" and y.k == "bcat":
                # two alternatives of one byte string that share a prefix and a suffix differ only in the middle
                # (an early `return` for the empty case instead of a conditional extend)
                xi, yi = list(x.a[0]), list(y.a[0])
                pre = 0
                while pre < len(xi) and pre < len(yi) and xi[pre] == yi[pre]:
                    pre += 1
                suf = 0
                while suf < len(xi) - pre and suf < len(yi) - pre and xi[len(xi) - 1 - suf] == yi[len(yi) - 1 - suf]:
                    suf += 1
                if pre or suf:
                    mid = T("alt", b.a[0], _bc(tuple(xi[pre:len(xi) - suf])), _bc(tuple(yi[pre:len(yi) - suf])))
                    return flatten(_bc(tuple(xi[:pre]) + (mid,) + tuple(xi[len(xi) - suf:] if suf else ())), ctx, problems)
            return [("alt", show(b.a[0]), flatten_any(b.a[1], ctx, problems), flatten_any(b.a[2], ctx, problems))]
        return [("bytes", canon_bytes_key(b), repr(linearize(length(b))))]
    items = _merge_crc_octets(list(b.a[0]))
    for it in items:
        k = it.k
        if k == "u8":
            bv = norm_bits(it.a[0], ctx)
            out.extend(_bits_cells(bv, 8, it, ctx, problems))
        elif k == "packed":
            fmt = it.a[0]
            order = fmt[0] if fmt and fmt[0] in "!<>=@" else "@"
            code = fmt.lstrip("!<>=@")
            if len(code) != 1 or code not in "BHIQbhiq":
                problems.append(f"unsupported struct format {fmt!r}")
                out.append(("bit", TOP))
                continue
            n = struct.calcsize("!" + code) * 8
            if it.a[1].k == "crc16v":
                if fmt not in ("!H", ">H"):
                    problems.append(f"CRC16 packed with format {fmt!r}")
                out.append(("crc16", it.a[1]))
                continue
            bv = norm_bits(it.a[1], ctx)
            cells = _bits_cells(bv, n, it, ctx, problems)
            if order in "=@":
                problems.append(f"native byte order in struct.pack({fmt!r}, ...)")
                cells = [("bit", TOP)] * n
            elif order == "<":
                by = [cells[i:i + 8] for i in range(0, n, 8)]
                cells = [c for grp in reversed(by) for c in grp]
            if code in "bhiq":
                problems.append(f"signed struct format {fmt!r}")
            out.extend(cells)
        elif k == "lit":
            for byte in it.a[0]:
                out.extend(("bit", (byte >> (7 - i)) & 1) for i in range(8))
        elif k == "bytes":
            t = it.a[0]
            out.append(("bytes", canon_bytes_key(t), repr(linearize(length(t)))))
        elif k == "crc16":
            out.append(("crc16", it.a[0]))
        elif k == "alt":
            # lemma: alt(len(x) > 0 ? <bytes(x)> : <>) == <bytes(x)>   (extending by an empty string is a no-op)
            c, a1, a2 = it.a
            # polarity: alt(x is empty ? <> : <bytes(x)>) is the mirror image
            if len(a1.a[0]) == 0 and len(a2.a[0]) == 1:
                from .terms import un as _un
                if c.k == "op" and c.a[0] == "==" and is_const(c.a[2], 0):
                    c, a1, a2 = T("op", "!=", c.a[1], c.a[2], ty="bool"), a2, a1
                elif c.k == "op" and c.a[0] == "<=" and is_const(c.a[2], 0):
                    c, a1, a2 = T("op", ">", c.a[1], c.a[2], ty="bool"), a2, a1
                elif c.k == "op" and c.a[0] == "<" and is_const(c.a[2], 1):
                    c, a1, a2 = T("op", ">", c.a[1], C(0), ty="bool"), a2, a1
                elif c.k == "un" and c.a[0] == "not" and c.a[1].k == "un" and c.a[1].a[0] == "bool":
                    c, a1, a2 = c.a[1], a2, a1
            if c.k == "un" and c.a[0] == "bool" and len(a2.a[0]) == 0 and len(a1.a[0]) == 1 and a1.a[0][0].k == "bytes" \
                    and a1.a[0][0].a[0] == c.a[1]:
                # lemma: alt(bool(x) ? <bytes(x)> : <>) == <bytes(x)> for a byte string x (falsy iff empty)
                t = a1.a[0][0].a[0]
                out.append(("bytes", canon_bytes_key(t), repr(linearize(length(t)))))
                continue
            if c.k == "op" and c.a[0] in (">", "!=") and is_const(c.a[2], 0) and len(a2.a[0]) == 0 and len(a1.a[0]) == 1 \
                    and a1.a[0][0].k == "bytes" and linearize(c.a[1]).key() == linearize(length(a1.a[0][0].a[0])).key():
                t = a1.a[0][0].a[0]
                out.append(("bytes", canon_bytes_key(t), repr(linearize(length(t)))))
                continue
            out.append(("alt", show(it.a[0]), flatten(it.a[1], ctx, problems), flatten(it.a[2], ctx, problems)))
        elif k == "rep":
            out.append(("rep", show(it.a[0]), flatten(it.a[1], ctx, problems)))
        else:
            problems.append(f"unknown item {k}")
    return out


def _merge_crc_octets(items):
    """a CRC written octet by octet - u8(crc >> 8 [& 0xff]) followed by u8(crc & 0xff) of the same CRC term - is the same
    trailer as packed('!H', crc)"""
    def hi_of(v):
        if v.k == "op" and v.a[0] == "&" and is_const(v.a[2], 0xFF):
            v = v.a[1]
        if v.k == "op" and v.a[0] == ">>" and is_const(v.a[2], 8) and v.a[1].k == "crc16v":
            return v.a[1]
        return None

    def lo_of(v):
        if v.k == "op" and v.a[0] == "&" and is_const(v.a[2], 0xFF) and v.a[1].k == "crc16v":
            return v.a[1]
        return None
    out, i = [], 0
    while i < len(items):
        a = items[i]
        if a.k == "u8" and i + 1 < len(items) and items[i + 1].k == "u8":
            h, l_ = hi_of(a.a[0]), lo_of(items[i + 1].a[0])
            if h is not None and l_ is not None and h == l_:
                out.append(T("packed", "!H", h))
                i += 2
                continue
        out.append(a)
        i += 1
    return out


def flatten_any(t, ctx, problems):
    from .terms import as_bcat
    return flatten(as_bcat(t), ctx, problems)


def _bits_cells(bv, n, item, ctx, problems):
    if bv is None:
        problems.append(f"value outside the bit domain: {show(item)[:100]} ({'; '.join(ctx.problems[-2:])})")
        return [("bit", TOP)] * n
    if not bv.high_clear(n):
        hi = [fmt_bit(b) for b in bv.take(max(len(bv.bits), n + 1))[n:] if b != 0][:4]
        problems.append(f"bits above bit {n - 1} may be set in {show(item)[:100]}: {hi}")
    return [("bit", b) for b in reversed(bv.take(n))]


# ---------------------------------------------------------------------------- reference DSL
class F:      # field bits
    def __init__(self, name, width, getter=None):
        self.name, self.width, self.getter = name, width, getter


class K:      # constant bits
    def __init__(self, width, value):
        self.width, self.value = width, value


class A:      # arithmetic atom, identified by its canonical linear form string
    def __init__(self, width, key):
        self.width, self.key = width, key


class B:      # opaque bytes
    def __init__(self, key, lenkey=None):
        self.key, self.lenkey = key, lenkey


class CRC:
    pass


def ref_cells(spec):
    out = []
    for it in spec:
        if isinstance(it, F):
            out.extend(("bit", b) for b in reversed(field_bits(it.name, it.width)))
        elif isinstance(it, K):
            out.extend(("bit", (it.value >> (it.width - 1 - i)) & 1) for i in range(it.width))
        elif isinstance(it, A):
            out.extend(("bit", ("a", it.key, j)) for j in reversed(range(it.width)))
        elif isinstance(it, B):
            out.append(("bytes", it.key, it.lenkey))
        elif isinstance(it, CRC):
            out.append(("crc16", None))
        elif isinstance(it, list):
            out.extend(ref_cells(it))
        else:
            raise LayoutProblem(f"bad spec item {it!r}")
    return out


def cell_str(c):
    if c[0] == "bit":
        return fmt_bit(c[1])
    if c[0] == "bytes":
        return f"bytes({c[1]})"
    if c[0] == "crc16":
        return "crc16"
    return c[0]


def stream_str(cells, limit=400):
    out = []
    i = 0
    n = len(cells)
    while i < n:
        c = cells[i]
        if c[0] == "bit":
            j = i
            grp = []
            while j < n and cells[j][0] == "bit":
                grp.append(cells[j][1])
                j += 1
            from .bits import fmt_bits
            out.append("[" + fmt_bits(list(reversed(grp))) + "]")
            i = j
        else:
            out.append(cell_str(c))
            i += 1
    s = " ".join(out)
    return s if len(s) <= limit else s[:limit] + "…"


def compare_streams(inferred, ref, crc_coverage_check=True):
    """-> list of mismatch strings (empty = equal)"""
    problems = []
    n = min(len(inferred), len(ref))
    bitpos = 0
    for i in range(n):
        a, b = inferred[i], ref[i]
        if a[0] != b[0]:
            problems.append(f"cell {i} (bit offset {bitpos}): packed {cell_str(a)} where the reference has {cell_str(b)}")
            break
        if a[0] == "bit":
            if a[1] != b[1]:
                problems.append(f"bit offset {bitpos} (octet {bitpos // 8}, bit {7 - bitpos % 8}): packed {fmt_bit(a[1])}, reference {fmt_bit(b[1])}")
                if len(problems) >= 4:
                    break
            bitpos += 1
        elif a[0] == "bytes":
            if a[1] != b[1]:
                problems.append(f"cell {i}: packed bytes({a[1]}), reference bytes({b[1]})")
            elif b[2] is not None and a[2] != b[2]:
                problems.append(f"cell {i}: bytes({a[1]}) has length {a[2]}, reference {b[2]}")
        elif a[0] == "crc16":
            if crc_coverage_check:
                cov = a[1]
                # coverage must be exactly all preceding cells
                if isinstance(cov, list) and cov != inferred[:i]:
                    j = 0
                    while j < min(len(cov), i) and cov[j] == inferred[j]:
                        j += 1
                    if j < min(len(cov), i):
                        why = f"covered cell {j} is {cell_str(cov[j])} but the packed cell is {cell_str(inferred[j])} (stale or different content)"
                    else:
                        why = f"it covers {len(cov)} cells, {i} precede it"
                    problems.append(f"cell {i}: the CRC is not computed over exactly the preceding octets: {why}")
            bitpos += 16
    if not problems and len(inferred) != len(ref):
        extra = inferred[n:] if len(inferred) > n else ref[n:]
        side = "packed output has extra" if len(inferred) > n else "reference continues with"
        problems.append(f"length mismatch: {side} {stream_str(extra, 160)}")
    return problems


def resolve_crc_cells(cells, ctx, problems):
    """replace ("crc16", term) by ("crc16", [cells the CRC covers])"""
    out = []
    for c in cells:
        if c[0] == "crc16" and isinstance(c[1], T):
            t = c[1]
            if t.k == "crc16v":
                t = t.a[0]
            cov = flatten_any(t, ctx, [])
            out.append(("crc16", cov))
        else:
            out.append(c)
    return out


def stream_len_lin(cells):
    """symbolic length in octets of a flat stream (no alt / rep)"""
    bits = 0
    lin = Lin({}, 0)
    for c in cells:
        if c[0] == "bit":
            bits += 1
        elif c[0] == "crc16":
            bits += 16
        elif c[0] == "bytes":
            lin = lin + Lin({T("sym", f"len({c[1]})"): 1})
        else:
            raise LayoutProblem(f"stream_len of {c[0]}")
    if bits % 8:
        raise LayoutProblem("non octet-aligned stream")
    return lin + Lin({}, bits // 8)
