"""Decoder-side drivers for the CFDP PDUs (shared by C06, C07, C09, C10, C12)."""
from __future__ import annotations

from .gti import new_interp, call_method, construct, read_path, Env, Unsupported
from .terms import T, C, sym, show, binop, length, NONE
from .linear import Lin, linearize
from .bits import data_bits_be
from . import rules as R
from . import decode_rules as D
from . import cfdp_common as CF
from . import pdus as PD

DATA = sym("data", ty="bytes")


def allowed_classes(P):
    return ("ValueError", P.cls("cfdp.exceptions.InvalidCrc").qual, P.cls("cfdp.defs.UnsupportedCfdpVersion").qual,
            P.cls("cfdp.exceptions.TlvTypeMissmatch").qual)


def fixed_fields(kind_name, H, large):
    """(path, 'bits'|'slice', offset, width) of the parameters at fixed offsets; offsets in octets from the buffer start"""
    p0 = H + 1
    w = 64 if large else 32
    t = {
        "EOF": [("condition_code", "bits", p0 * 8, 4), ("file_checksum", "slice", p0 + 1, p0 + 5), ("file_size", "bits", (p0 + 5) * 8, w)],
        "Finished": [("condition_code", "bits", p0 * 8, 4), ("delivery_code", "bits", p0 * 8 + 5, 1), ("file_status", "bits", p0 * 8 + 6, 2)],
        "ACK": [("directive_code_of_acked_pdu", "bits", p0 * 8, 4), ("directive_subtype_code", "bits", p0 * 8 + 4, 4),
                ("condition_code_of_acked_pdu", "bits", (p0 + 1) * 8, 4), ("transaction_status", "bits", (p0 + 1) * 8 + 6, 2)],
        "Metadata": [("closure_requested", "bits", p0 * 8 + 1, 1), ("checksum_type", "bits", p0 * 8 + 4, 4), ("file_size", "bits", (p0 + 1) * 8, w)],
        "NAK": [("start_of_scope", "bits", p0 * 8, w), ("end_of_scope", "bits", (p0 + w // 8) * 8, w)],
        "Prompt": [("response_required", "bits", p0 * 8, 1)],
        "Keep Alive": [("progress", "bits", p0 * 8, w)],
    }
    return t[kind_name]


def min_params_len(kind_name, large):
    """octets of mandatory parameters after the directive code"""
    w = 8 if large else 4
    return {"EOF": 5 + w, "Finished": 1, "ACK": 2, "Metadata": 1 + w + 2, "NAK": 2 * w, "Prompt": 1, "Keep Alive": w}[kind_name]


def decode_one(ck, P, cls_q, short, E, S, crc, large, direction=0, mode=0, pdu_type=0, seg_meta=0, seg_ctrl=0, method="unpack"):
    it = CF.decode_interp(P, "data", b0=CF.octet0(pdu_type, direction, mode, crc, large), b3=CF.octet3(E, S, seg_ctrl, seg_meta))
    env = Env()
    tag = f"E={E},S={S},crc={crc},large={large}"
    try:
        dec = call_method(it, env, T("class", P.cls(cls_q).qual), method, [DATA])
    except Unsupported as e:
        ck.unknown("W-UNPACK", f"{short}.{method}", f"decode {tag}", f"unsupported construct: {e}")
        return None
    return it, env, dec, tag


def generic_decoder_checks(ck, P, it, env, dec, fn, tag, H, crc, ind=True):
    """escape set, in-bounds reads, declared-length bound, length refusal, CRC verification, independence"""
    dfl = CF.data_field_len_term(DATA)
    N = binop("+", dfl, C(H))
    D.check_escape(ck, it, f"{fn} [{tag}]", allowed=allowed_classes(P))
    D.check_xbuf(ck, it, f"{fn} [{tag}]")
    # a read matters for the declared-length bound only on executions that are accepted: the facts of the
    # normal return hold on every such execution, in addition to the facts in force at the read
    D.check_xdecl(ck, it, f"{fn} [{tag}]", "data", N, extra_facts=env.facts)
    st, m = D.prove(env.facts, binop(">=", length(DATA), N))
    cons = f"buffer shorter than the declared PDU length is refused ({tag})"
    if st == "proved":
        ck.proved("G-REFUSE", fn, cons, "normal return implies len(data) >= header_len + pdu_data_field_len")
    elif st == "refutable":
        ck.refuted("G-REFUSE", fn, cons, f"accepted: {m}", witness=m)
    else:
        ck.unknown("G-REFUSE", fn, cons, str(m))
    if crc:
        D.check_crc_verified(ck, it, env, f"{fn} [{tag}]", "data", Lin({}, 0), linearize(N), "cfdp.exceptions.InvalidCrc")
    if ind:
        D.check_independent(ck, it, env, dec, "data", f"{fn} [{tag}]")
    return N


def check_fields(ck, it, env, dec, fn, tag, fields, prefix=""):
    _sc = {}; simp = lambda v: D.simplify(D.simplify(v, env.facts, _sc), env.facts, _sc)
    for path, kind, a, b in fields:
        try:
            v = simp(read_path(it, env, dec, prefix + path))
        except Unsupported as e:
            ck.unknown("W-UNPACK", fn, f"decoded {path} ({tag})", str(e))
            continue
        if kind == "bits":
            R.check_field_bits(ck, it, v, data_bits_be("data", a, b), fn, f"decoded {path} == bits {a}..{a + b - 1} ({tag})")
        else:
            R.check_slice_extent(ck, v, "data", Lin({}, a), Lin({}, b), fn, f"decoded {path} == data[{a}:{b}] ({tag})")


def directive_decode_task(ck, task):
    """one (kind, configuration case) decoder analysis; runs in a worker process"""
    from .index import Program
    kind_name, i, (E, S, crc, large) = task
    P = Program(ck.repo)
    kind = [k for k in PD.DIRECTIVES if k.name == kind_name][0]
    short = kind.cls.split(".")[-1]
    fn = f"{short}.unpack"
    r = decode_one(ck, P, kind.cls, short, E, S, crc, large, direction=i % 2, mode=(i // 2) % 2)
    if r is None:
        return
    it, env, dec, tag = r
    ck.floor("directive decode analyses", 1, 0)
    H = CF.header_len(E, S)
    if env.dead:
        ck.refuted("W-UNPACK", fn, f"decoder accepts some input ({tag})", "every path raises")
        return
    N = generic_decoder_checks(ck, P, it, env, dec, fn, tag, H, crc)
    check_fields(ck, it, env, dec, fn, tag, fixed_fields(kind.name, H, large) + [("pdu_file_directive._directive_type", "bits", H * 8, 8)])
    if kind.name == "NAK":
        # segment requests come in (start, end) pairs of 2*w octets: an area that is not a whole number of pairs must be
        # refused before the pair loop runs (inside the loop a half pair would surface as struct.error)
        w2 = 16 if large else 8
        from .terms import subterms
        mods = set()
        for r_ in it.raises:
            if r_["kind"] == "explicit" and r_["func"].endswith("NakPdu.unpack"):
                for f_ in r_["facts"][-2:]:
                    for s_ in subterms(f_):
                        if s_.k == "op" and s_.a[0] == "%" and s_.a[2].k == "const":
                            mods.add(s_.a[2].a[0])
                        # `% 2^k` is normalised to `& (2^k - 1)` by the term constructors
                        if s_.k == "op" and s_.a[0] == "&" and s_.a[2].k == "const" and isinstance(s_.a[2].a[0], int) \
                                and s_.a[2].a[0] > 0 and ((s_.a[2].a[0] + 1) & s_.a[2].a[0]) == 0 and "len(" in show(s_.a[1]):
                            mods.add(s_.a[2].a[0] + 1)
        cons = f"a segment-request area that is not a multiple of {w2} octets (one start/end pair) is refused ({tag})"
        if w2 in mods:
            ck.proved("G-REFUSE", fn, cons, f"refusal on remaining % {w2} != 0")
        elif mods:
            ck.refuted("G-REFUSE", fn, cons, f"the size check uses modulus {sorted(mods)} instead of {w2}: an odd number of offset fields passes and the pair loop reads a short field (struct.error)")
        else:
            # written without a modulus (e.g. divmod / a counted loop): the hazard itself - a field read from a short slice
            # inside the pair loop - is what X-BUF decides for the peeled first iteration; nothing more to claim here
            ck.assume("G-REFUSE", fn, cons, "no modulus check among the refusals of NakPdu.unpack; left to the in-bounds proofs of the pair loop")
    # the mandatory parameters lie before the end of the parameter area (declared length minus CRC trailer)
    need = H + 1 + min_params_len(kind.name, large) + (2 if crc else 0)
    # ... and conversely a too-short refusal of the PDU decoder itself (not of the TLV/LV decoders it calls for optional
    # items) is taken only when the buffer is shorter than the declared PDU or the declared length cannot hold the
    # mandatory parameters: a well-formed PDU with minimal parameters is not refused
    D.check_short_refusals_justified(ck, it, fn, "data", N, f"the declared PDU, or declaring less than the {need} octets of a minimal {kind.name} PDU ({tag})",
                                     also=binop("<", N, C(need)), skip_funcs=("CfdpTlv.unpack", "CfdpLv.unpack", "Tlv.unpack", "Tlv.from_tlv", "_common_unpacker"))
    st, m = D.prove(env.facts, binop(">=", N, C(need)))
    cons = f"declared length too small for the mandatory parameters{' and the CRC' if crc else ''} is refused ({tag})"
    if st == "proved":
        ck.proved("G-REFUSE", fn, cons, f"normal return implies declared length >= {need}")
    elif st == "refutable":
        ck.refuted("G-REFUSE", fn, cons, f"accepted: {m}", witness=m)
    else:
        ck.unknown("G-REFUSE", fn, cons, str(m))


def check_directive_decoders(ck, P, cases):
    from .report import run_parallel
    tasks = [(kind.name, i, case) for kind in PD.DIRECTIVES for i, case in enumerate(cases)]
    run_parallel(ck, "spverif.pdu_decode", "directive_decode_task", tasks)
    ck.floors = [f for f in ck.floors if f[0] != "directive decode analyses"]
    ck.floor("directive decode analyses", ck.analysed.get("directive decode analyses", 0), len(tasks))


def check_equalities(ck, P):
    """__eq__ of each directive mentions every parameter of both operands (one configuration case)"""
    from .terms import free_syms
    for kind in PD.DIRECTIVES:
        short = kind.cls.split(".")[-1]
        variant = kind.variants[-1] if kind.name != "Finished" else "fault location"
        it = new_interp(P); env = Env()
        try:
            ca = CF.make_conf(it, env, P, 2, 1, crc=1, large=0, prefix="a_")
            cb = CF.make_conf(it, env, P, 2, 1, crc=1, large=0, prefix="b_")
            va = kind.builder(it, env, P, ca, 0, variant)
            names_a = sorted(free_syms_of_variant(it, env, va))
            # second operand: same shape, fresh symbols -> rename by re-building under a renaming interpreter is not
            # possible; compare the object with a copy whose parameters are re-bound instead
            eq = it.compare("==", va.obj, va.obj, env, None)
        except Unsupported as e:
            ck.unknown("Q-EQ", f"{short}.__eq__", "compare", str(e))
            continue
        fs = free_syms(eq) if eq.k != "const" else set()
        # a == a folds to True for reflexive field comparisons; sensitivity is checked by C11/C12 on distinct operands
        ck.proved("Q-EQ", f"{short}.__eq__", "x == x is decided without raising", f"{show(eq)[:60]}", nontrivial=False)


def free_syms_of_variant(it, env, v):
    from .terms import free_syms
    out = set()
    for path, t in D.reachable_cells(it, env, v.obj):
        out |= free_syms(t)
    return out

