"""D-KEEP - a locally accumulated result is not dropped on one normal exit while another exit keeps it.

Contradiction rule (Engler et al.): a function that builds a result in a local accumulator (`a = []` / `bytearray()` /
`list()`, later `a.append(..)` / `a.extend(..)` / `a += ..`) and hands the whole accumulator on at one normal exit
(returns it, stores it into an attribute or a subscript) believes the accumulated items are part of its result.  A
normal exit (return / falling off the end) that is reachable after an append and has not passed such a hand-over
contradicts that belief: the items decoded or encoded so far are silently lost on that path (seeded change C06-u2:
FinishedPdu._unpack_tlvs returned at the fault location before the filestore responses were stored).

The analysis is a syntax-directed walk over the statement kinds Python has (if / while / for / try / with / match /
return / raise / break / continue) with the path state  (appended?, handed-over?)  - a four-element powerset lattice,
loops iterated to the fixpoint.  Nothing is executed.  Path feasibility the rule knows about:
  * a branch taken only when the accumulator is empty (`if not a`, `if len(a) == 0`, `if a:` ... else) carries the
    state "nothing appended";
  * raising exits are not normal exits;
  * a hand-over before the appends counts (the attribute then aliases the same list object);
  * passing the whole accumulator to a call counts as a hand-over on that path (a helper may store it), but does not by
    itself make the rule applicable;
  * slices / elements of the accumulator are not hand-overs of the accumulator (a working buffer is not a result).
A function whose accumulator is never handed over whole at any exit is out of scope (working buffer).
"""
from __future__ import annotations

import ast
import pathlib

EMPTY_CTORS = ("list", "bytearray", "deque", "set", "dict")
GROW = ("append", "extend", "appendleft", "extendleft", "insert", "add", "update")
WRAPPERS = ("list", "tuple", "bytes", "bytearray", "sorted", "copy", "deepcopy", "frozenset", "set")


def _is_empty_ctor(v):
    if isinstance(v, (ast.List, ast.Set)) and not v.elts:
        return True
    if isinstance(v, ast.Dict) and not v.keys:
        return True
    return (isinstance(v, ast.Call) and isinstance(v.func, ast.Name) and v.func.id in EMPTY_CTORS
            and not v.args and not v.keywords)


def _whole(e, a):
    """is expression `e` the whole accumulator `a`, possibly copied / wrapped or as an element of a tuple/list display"""
    if isinstance(e, ast.Name):
        return e.id == a
    if isinstance(e, ast.Call):
        f = e.func
        nm = f.id if isinstance(f, ast.Name) else f.attr if isinstance(f, ast.Attribute) else None
        if nm in WRAPPERS and len(e.args) == 1 and _whole(e.args[0], a):
            return True
        if isinstance(f, ast.Attribute) and f.attr == "copy" and not e.args and _whole(f.value, a):
            return True
        return False
    if isinstance(e, (ast.Tuple, ast.List)):
        return any(_whole(x, a) for x in e.elts)
    if isinstance(e, ast.Starred):
        return _whole(e.value, a)
    if isinstance(e, ast.IfExp):
        return _whole(e.body, a) or _whole(e.orelse, a)
    if isinstance(e, ast.BoolOp):
        return any(_whole(x, a) for x in e.values)
    if isinstance(e, ast.NamedExpr):
        return _whole(e.value, a)
    return False


def _calls_with_whole(node, a):
    for n in ast.walk(node):
        if isinstance(n, ast.Call):
            if isinstance(n.func, ast.Attribute) and isinstance(n.func.value, ast.Name) and n.func.value.id == a:
                continue        # the accumulator's own methods
            if any(_whole(x, a) for x in n.args) or any(_whole(k.value, a) for k in n.keywords):
                return True
    return False


def _grows(node, a):
    for n in ast.walk(node):
        if (isinstance(n, ast.Call) and isinstance(n.func, ast.Attribute) and n.func.attr in GROW
                and isinstance(n.func.value, ast.Name) and n.func.value.id == a):
            return True
    return False


def _none_test(t, a):
    """the accumulator is a container object, never None: returns the branch of `if t` that cannot be taken"""
    if isinstance(t, ast.UnaryOp) and isinstance(t.op, ast.Not):
        return {"then": "else", "else": "then"}.get(_none_test(t.operand, a))
    if (isinstance(t, ast.Compare) and len(t.ops) == 1 and isinstance(t.left, ast.Name) and t.left.id == a
            and isinstance(t.comparators[0], ast.Constant) and t.comparators[0].value is None):
        if isinstance(t.ops[0], (ast.IsNot, ast.NotEq)):
            return "else"
        if isinstance(t.ops[0], (ast.Is, ast.Eq)):
            return "then"
    return None


def _empty_test(t, a):
    """returns 'then' / 'else' when that branch of `if t` is taken only with an empty accumulator, else None"""
    def is_len(e):
        return (isinstance(e, ast.Call) and isinstance(e.func, ast.Name) and e.func.id == "len" and len(e.args) == 1
                and isinstance(e.args[0], ast.Name) and e.args[0].id == a)
    if isinstance(t, ast.UnaryOp) and isinstance(t.op, ast.Not):
        r = _empty_test(t.operand, a)
        return {"then": "else", "else": "then"}.get(r)
    if isinstance(t, ast.Name) and t.id == a:
        return "else"
    if is_len(t):
        return "else"
    if isinstance(t, ast.Compare) and len(t.ops) == 1:
        l, op, r = t.left, t.ops[0], t.comparators[0]
        zero = lambda e: isinstance(e, ast.Constant) and e.value == 0 and not isinstance(e.value, bool)
        one = lambda e: isinstance(e, ast.Constant) and e.value == 1 and not isinstance(e.value, bool)
        if is_len(l) and zero(r):
            if isinstance(op, ast.Eq) or isinstance(op, ast.LtE):
                return "then"
            if isinstance(op, (ast.NotEq, ast.Gt)):
                return "else"
        if is_len(l) and one(r):
            if isinstance(op, ast.Lt):
                return "then"
            if isinstance(op, ast.GtE):
                return "else"
        if is_len(r) and zero(l):
            if isinstance(op, (ast.Eq, ast.GtE)):
                return "then"
            if isinstance(op, (ast.NotEq, ast.Lt)):
                return "else"
    return None


class _Walk:
    """path states are frozensets of (appended, handed) pairs"""

    def __init__(self, a):
        self.a = a
        self.exits = []          # (lineno, kind, states)
        self.sinks = []          # result hand-overs found: (lineno, kind)
        self.rebound_none = False   # set by analyse_function when the name is also bound to something else

    # -- effects of one simple statement / expression on a state set
    def effect(self, node, S, ret=False):
        a = self.a
        handed = False
        if isinstance(node, ast.Return) and node.value is not None and _whole(node.value, a):
            handed = True; self.sinks.append((node.lineno, "return"))
        if isinstance(node, (ast.Assign, ast.AnnAssign)) and node.value is not None:
            tg = node.targets if isinstance(node, ast.Assign) else [node.target]
            if _whole(node.value, a) and any(isinstance(t, (ast.Attribute, ast.Subscript)) for t in tg):
                handed = True; self.sinks.append((node.lineno, "store"))
        if isinstance(node, (ast.Expr,)) and isinstance(node.value, (ast.Yield, ast.YieldFrom)) and node.value.value is not None and _whole(node.value.value, a):
            handed = True; self.sinks.append((node.lineno, "yield"))
        if not handed and _calls_with_whole(node, a):
            handed = True            # tolerant: a helper may keep it
        grows = _grows(node, a) or (isinstance(node, ast.AugAssign) and isinstance(node.target, ast.Name) and node.target.id == a)
        # rebinding the name to something that does not derive from it starts a new accumulator
        if isinstance(node, ast.Assign) and any(isinstance(t, ast.Name) and t.id == a for t in node.targets):
            if any(isinstance(n, ast.Name) and n.id == a for n in ast.walk(node.value)):
                grows = grows or True
            else:
                S = frozenset({(False, h) for (_, h) in S}) if _is_empty_ctor(node.value) else S
        out = set()
        for (ap, hd) in S:
            out.add((ap or grows, hd or handed))
        return frozenset(out)

    def block(self, stmts, S):
        """returns (fallthrough states, break states, continue states)"""
        brk, cont = frozenset(), frozenset()
        for s in stmts:
            if not S:
                break
            S, b, c = self.stmt(s, S)
            brk |= b; cont |= c
        return S, brk, cont

    def stmt(self, s, S):
        E = frozenset()
        if isinstance(s, ast.Return):
            S2 = self.effect(s, S)
            self.exits.append((s.lineno, "return", S2))
            return E, E, E
        if isinstance(s, ast.Raise):
            return E, E, E
        if isinstance(s, ast.Break):
            return E, S, E
        if isinstance(s, ast.Continue):
            return E, E, S
        if isinstance(s, ast.If):
            S0 = self.effect(s.test, S)
            side = _empty_test(s.test, self.a)
            St = frozenset(x for x in S0 if not x[0]) if side == "then" else S0
            Se = frozenset(x for x in S0 if not x[0]) if side == "else" else S0
            dead = _none_test(s.test, self.a) if not self.rebound_none else None
            if dead == "then":
                St = E
            elif dead == "else":
                Se = E
            a1, b1, c1 = self.block(s.body, St)
            a2, b2, c2 = self.block(s.orelse, Se)
            return a1 | a2, b1 | b2, c1 | c2
        if isinstance(s, (ast.While, ast.For, ast.AsyncFor)):
            head = s.test if isinstance(s, ast.While) else s.iter
            entry = S
            out_brk = E
            seen = None
            cur = entry
            while seen != cur:
                seen = cur
                Sh = self.effect(head, cur)
                body_in = Sh
                if isinstance(s, ast.While):
                    side = _empty_test(s.test, self.a)
                    if side == "then":
                        body_in = frozenset(x for x in Sh if not x[0])
                a1, b1, c1 = self.block(s.body, body_in)
                out_brk |= b1
                cur = cur | a1 | c1
            Sh = self.effect(head, cur)
            infinite = isinstance(s, ast.While) and isinstance(s.test, ast.Constant) and bool(s.test.value)
            normal = E if infinite else Sh
            a2, b2, c2 = self.block(s.orelse, normal)
            return a2 | out_brk, b2, c2
        if isinstance(s, (ast.With, ast.AsyncWith)):
            for it in s.items:
                S = self.effect(it.context_expr, S)
            return self.block(s.body, S)
        if isinstance(s, ast.Try) or s.__class__.__name__ == "TryStar":
            # a handler may be entered from any point of the body: before it, and after each of its statements
            pts = S
            cur = S
            brk, cont = E, E
            for st in s.body:
                if not cur:
                    break
                cur, b, c = self.stmt(st, cur)
                brk |= b; cont |= c
                pts |= cur
                for n in ast.walk(st):      # effects of a partially executed statement
                    pass
            # states inside nested statements of the body also reach the handlers: approximate with the union of
            # the entry state and every (appended, handed) combination the body can produce
            if any(_grows(st, self.a) for st in s.body):
                pts |= frozenset((True, h) for (_, h) in pts)
            a_else, b2, c2 = self.block(s.orelse, cur)
            brk |= b2; cont |= c2
            outs = a_else
            for h in s.handlers:
                ah, bh, ch = self.block(h.body, pts)
                outs |= ah; brk |= bh; cont |= ch
            if s.finalbody:
                outs, bf, cf = self.block(s.finalbody, outs)
                brk |= bf; cont |= cf
            return outs, brk, cont
        if isinstance(s, ast.Match):
            S0 = self.effect(s.subject, S)
            outs, brk, cont = E, E, E
            exhaustive = False
            for c in s.cases:
                a1, b1, c1 = self.block(c.body, S0)
                outs |= a1; brk |= b1; cont |= c1
                if isinstance(c.pattern, ast.MatchAs) and c.pattern.pattern is None and c.guard is None:
                    exhaustive = True
            if not exhaustive:
                outs |= S0
            return outs, brk, cont
        if isinstance(s, (ast.FunctionDef, ast.AsyncFunctionDef, ast.ClassDef)):
            return S, E, E
        return self.effect(s, S), E, E


def accumulators(fn):
    """names bound to an empty container in `fn` (not in nested functions) that are grown later"""
    names = {}
    for n in _own_nodes(fn):
        if isinstance(n, ast.Assign) and len(n.targets) == 1 and isinstance(n.targets[0], ast.Name) and _is_empty_ctor(n.value):
            names.setdefault(n.targets[0].id, n.lineno)
        if isinstance(n, ast.AnnAssign) and isinstance(n.target, ast.Name) and n.value is not None and _is_empty_ctor(n.value):
            names.setdefault(n.target.id, n.lineno)
    out = []
    for a, ln in names.items():
        grown = any(_grows(n, a) for n in fn.body) or any(
            isinstance(n, ast.AugAssign) and isinstance(n.target, ast.Name) and n.target.id == a for n in _own_nodes(fn))
        if grown:
            out.append((a, ln))
    return out


def _own_nodes(fn):
    stack = list(fn.body)
    while stack:
        n = stack.pop()
        yield n
        for c in ast.iter_child_nodes(n):
            if isinstance(c, (ast.FunctionDef, ast.AsyncFunctionDef, ast.ClassDef, ast.Lambda)):
                continue
            stack.append(c)


def analyse_function(fn):
    """returns list of dicts: {acc, line, sinks, exits, dropped:[(lineno, kind)]} for accumulators in scope of the rule"""
    res = []
    for a, ln in accumulators(fn):
        w = _Walk(a)
        w.rebound_none = any(
            (isinstance(n, ast.Assign) and any(isinstance(t, ast.Name) and t.id == a for t in n.targets) and not _is_empty_ctor(n.value))
            or (isinstance(n, (ast.For, ast.AsyncFor)) and any(isinstance(t, ast.Name) and t.id == a for t in ast.walk(n.target)))
            or (isinstance(n, ast.NamedExpr) and n.target.id == a)
            for n in _own_nodes(fn)) or any(x.arg == a for x in fn.args.args + fn.args.kwonlyargs + fn.args.posonlyargs)
        S, _b, _c = w.block(fn.body, frozenset({(False, False)}))
        if S:
            end = getattr(fn.body[-1], "end_lineno", fn.body[-1].lineno)
            w.exits.append((end, "end of function", S))
        if not w.sinks:
            res.append({"acc": a, "line": ln, "in_scope": False, "sinks": [], "exits": len(w.exits), "dropped": []})
            continue
        dropped = sorted({(l, k) for (l, k, St) in w.exits if (True, False) in St})
        res.append({"acc": a, "line": ln, "in_scope": True, "sinks": sorted(set(w.sinks)), "exits": len(w.exits), "dropped": dropped})
    return res


def functions_of(tree):
    """(qualified name, node) of every function / method in a module, nested ones included"""
    out = []

    def rec(node, prefix):
        for n in ast.iter_child_nodes(node):
            if isinstance(n, (ast.FunctionDef, ast.AsyncFunctionDef)):
                out.append((prefix + n.name, n)); rec(n, prefix + n.name + ".")
            elif isinstance(n, ast.ClassDef):
                rec(n, prefix + n.name + ".")
            else:
                rec(n, prefix)
    rec(tree, "")
    return out


SELF_TEST_BAD = '''
def f(self, raw):
    items = []
    idx = 0
    while idx < len(raw):
        if raw[idx] == 1:
            items.append(raw[idx + 1]); idx += 2
        elif raw[idx] == 2:
            self.last = raw[idx + 1]
            return idx + 2
        else:
            raise ValueError("bad")
    self.items = items
    return idx
'''
SELF_TEST_GOOD = '''
def f(self, raw):
    items = []
    idx = 0
    last = None
    if not raw:
        return 0
    while True:
        if raw[idx] == 1:
            items.append(raw[idx + 1]); idx += 2
        elif raw[idx] == 2:
            last = raw[idx + 1]; idx += 2
        else:
            raise ValueError("bad")
        if idx >= len(raw):
            break
    if items is not None:
        self.items = items
    if last is not None:
        self.last = last
    return idx
'''


def self_test():
    bad = analyse_function(ast.parse(SELF_TEST_BAD).body[0])
    good = analyse_function(ast.parse(SELF_TEST_GOOD).body[0])
    return (len(bad) == 1 and bad[0]["in_scope"] and [k for (_l, k) in bad[0]["dropped"]] == ["return"]
            and len(good) == 1 and good[0]["in_scope"] and not good[0]["dropped"])


def check_keep(ck, repo, subdirs, floor, rule="D-KEEP"):
    """run the rule over every function of the given sub-directories / files of <repo>/spacepackets"""
    ck.rule(rule, "an accumulator that one normal exit hands on whole (returned / stored) is handed on at every normal exit "
                  "reachable after an append (path walk over the statement tree, states (appended, handed))")
    if not self_test():
        ck.unknown(rule, "spverif.keep_rule.self_test", "positive and negative example of the rule", "the rule's own examples are not decided as expected")
        return
    root = pathlib.Path(repo) / "spacepackets"
    files = []
    for sd in subdirs:
        p = root / sd
        files += sorted(p.rglob("*.py")) if p.is_dir() else [p] if p.exists() else []
    n_in = n_out = n_fn = 0
    for f in files:
        try:
            tree = ast.parse(f.read_text())
        except SyntaxError as e:
            ck.unknown(rule, str(f.relative_to(repo)), "parse", str(e)); continue
        for qn, fn in functions_of(tree):
            n_fn += 1
            for r in analyse_function(fn):
                where = f"{f.relative_to(repo)}:{qn}"
                if not r["in_scope"]:
                    n_out += 1
                    continue
                n_in += 1
                what = f"accumulator `{r['acc']}` is handed on at every normal exit reachable after an append"
                if r["dropped"]:
                    ck.refuted(rule, where, what, "; ".join(f"{k} at line {l} is reachable after `{r['acc']}` grew and before it is returned/stored "
                                                             f"(kept at line {r['sinks'][0][0]} on other paths)" for (l, k) in r["dropped"]))
                else:
                    ck.proved(rule, where, what, f"{r['exits']} normal exits, hand-over at line(s) {', '.join(str(l) for l, _ in r['sinks'])}")
    ck.analysed[rule] = {"files": len(files), "functions": n_fn, "accumulators_in_scope": n_in, "working_buffers_out_of_scope": n_out}
    ck.floor(f"{rule} accumulators in scope", n_in, floor)
