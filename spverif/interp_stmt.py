"""GTI part 3: statements (structured control flow, joins, loops, try/except)."""
from __future__ import annotations

import ast

from .interp import Env, Unsupported, _txt
from .terms import (T, C, NONE, TRUE, FALSE, sym, gamma, un, binop, truthy, bcat, as_bcat, bcat_concat,
                    length, is_const, show, conj)

MAX_UNROLL = 64


def join_envs(envs, conds, base_vars=None):
    """join several live environments; conds[i] selects envs[i] (last one is the default)"""
    if len(envs) == 1:
        return envs[0]
    out = Env()
    names = set()
    for e in envs:
        names.update(e.vars)
    for n in names:
        vals = [e.vars.get(n) for e in envs]
        first = vals[0]
        if all(v is not None and v == first for v in vals):
            out.vars[n] = first
            continue
        cur = vals[-1] if vals[-1] is not None else T("undef", n)
        for v, c in zip(reversed(vals[:-1]), reversed(conds[:-1])):
            cur = gamma(c, v if v is not None else T("undef", n), cur)
        out.vars[n] = cur
    keys = set()
    for e in envs:
        keys.update(e.heap)
    for k in keys:
        vals = [e.heap.get(k) for e in envs]
        first = vals[0]
        if all(v is not None and v == first for v in vals):
            out.heap[k] = first
            continue
        cur = vals[-1] if vals[-1] is not None else T("undef", k[0], k[1])
        for v, c in zip(reversed(vals[:-1]), reversed(conds[:-1])):
            cur = gamma(c, v if v is not None else T("undef", k[0], k[1]), cur)
        out.heap[k] = cur
    out.facts = [f for f in envs[0].facts if all(f in e.facts for e in envs[1:])]
    # common prefix of the path conditions
    pc = []
    for items in zip(*[e.pc for e in envs]):
        if all(i == items[0] for i in items):
            pc.append(items[0])
        else:
            break
    out.pc = pc
    return out


class StmtMixin:
    def block(self, stmts, env, mod, fn, exits):
        for s in stmts:
            if env.dead:
                return
            m = getattr(self, "st_" + type(s).__name__, None)
            if m is None:
                self.unsupported(f"stmt {type(s).__name__}", s)
            m(s, env, mod, fn, exits)

    def st_Expr(self, s, env, mod, fn, exits):
        if isinstance(s.value, ast.Constant):
            return
        self.ev(s.value, env, mod, fn)

    def st_Pass(self, s, env, mod, fn, exits):
        pass

    def st_Import(self, s, env, mod, fn, exits):
        for a in s.names:
            env.vars[(a.asname or a.name).split(".")[0]] = T("builtin", a.name if a.asname else a.name.split(".")[0])

    def st_ImportFrom(self, s, env, mod, fn, exits):
        is_pkg = self.P.mods[mod][2]
        src = self.P._abs(mod, is_pkg, s.level, s.module)
        for a in s.names:
            r = self.P.resolve(src, a.name) if src in self.P.syms else None
            if r and r[0] == "class":
                env.vars[a.asname or a.name] = T("class", r[1])
            elif r and r[0] == "func":
                env.vars[a.asname or a.name] = T("func", r[1])
            else:
                env.vars[a.asname or a.name] = T("builtin", f"{src}.{a.name}")

    def st_Global(self, s, env, mod, fn, exits):
        pass

    def st_Delete(self, s, env, mod, fn, exits):
        for t in s.targets:
            if isinstance(t, ast.Subscript):
                base = self.ev(t.value, env, mod, fn)
                idx = self.ev(t.slice, env, mod, fn)
                if not self.quiet:
                    self.notes.append({"kind": "delitem", "base": base, "idx": idx, "where": self.loc(t),
                                       "func": self.cur_func(), "text": _txt(t)})
            elif isinstance(t, ast.Name):
                env.vars.pop(t.id, None)
            else:
                self.unsupported("del target", t)

    def st_Assert(self, s, env, mod, fn, exits):
        c = truthy(self.ev(s.test, env, mod, fn))
        if is_const(c, True):
            return
        self.log_raise("AssertionError", env, s, kind="assert", cond=un("not", c))
        env.add_fact(c)

    def st_Assign(self, s, env, mod, fn, exits):
        v = self.ev(s.value, env, mod, fn)
        if env.dead:
            return
        for t in s.targets:
            self.assign(t, v, env, mod, fn)

    def st_AnnAssign(self, s, env, mod, fn, exits):
        if s.value is not None:
            v = self.ev(s.value, env, mod, fn)
            if env.dead:
                return
            self.assign(s.target, v, env, mod, fn)

    def st_AugAssign(self, s, env, mod, fn, exits):
        op = self.BINOPS[type(s.op)]
        cur = self.ev(s.target, env, mod, fn)
        v = self.ev(s.value, env, mod, fn)
        if env.dead:
            return
        if op == "+" and (cur.k == "bcat" or cur.ty in ("bytes", "bytearray")):
            new = bcat_concat(as_bcat(cur), as_bcat(v))
        else:
            new = self.arith(op, cur, v, env, s)
        self.assign(s.target, new, env, mod, fn)

    def st_Return(self, s, env, mod, fn, exits):
        v = self.ev(s.value, env, mod, fn) if s.value else NONE
        if env.dead:
            return
        exits.append((list(env.pc), v, self.heap_with_byref(env), list(env.facts)))
        if getattr(self, "log_exit_vars", False) and not self.quiet:
            self.exit_vars.append((len(self.where), dict(env.vars)))      # (call depth, local variables) at this return
        env.dead = True

    def st_Raise(self, s, env, mod, fn, exits):
        name = "?"
        if s.exc is not None:
            e = s.exc.func if isinstance(s.exc, ast.Call) else s.exc
            try:
                self.quiet += 1
                try:
                    t = self.ev(e, env.clone(), mod, fn)
                finally:
                    self.quiet -= 1
                if t.k == "class":
                    name = t.a[0]
                elif t.k in ("exc", "builtin"):
                    name = t.a[0]
                elif isinstance(s.exc, ast.Call) and t.k in ("func", "bound"):
                    # `raise make_error(...)`: the class is that of the object the factory returns
                    self.quiet += 1
                    try:
                        v = self.ev(s.exc, env.clone(), mod, fn)
                    finally:
                        self.quiet -= 1
                    if v.k == "exc":
                        name = v.a[0]
                    elif v.k == "obj" and isinstance(v.ty, str):
                        name = v.ty
                    else:
                        name = ast.unparse(e)
                else:
                    name = ast.unparse(e)
            except Unsupported:
                name = ast.unparse(e)
        elif self.handler_excs:
            # a bare raise in a handler re-raises what the handler caught
            for name in self.handler_excs[-1]:
                self.log_raise(name, env, s, kind="explicit")
            env.dead = True
            return
        else:
            name = "reraise"
        if isinstance(s.exc, ast.Call):
            # the arguments of the exception are ordinary expressions: their reads and may-raise operations count
            # (a failing one replaces the intended exception by IndexError / struct.error / ...)
            for a in list(s.exc.args) + [k.value for k in s.exc.keywords]:
                if env.dead:
                    break
                try:
                    self.ev(a, env, mod, fn)
                except Unsupported:
                    pass
            if env.dead:
                return
        self.log_raise(name, env, s, kind="explicit")
        env.dead = True

    def st_If(self, s, env, mod, fn, exits):
        c = truthy(self.ev(s.test, env, mod, fn))
        if env.dead:
            return
        if c.k == "const":
            self.block(s.body if c.a[0] else s.orelse, env, mod, fn, exits)
            return
        e1, e2 = env.clone(), env.clone()
        e1.add_fact(c)
        e1.pc.append(c)
        nc = un("not", c)
        e2.add_fact(nc)
        e2.pc.append(nc)
        if not e1.dead:
            self.block(s.body, e1, mod, fn, exits)
        if not e2.dead:
            self.block(s.orelse, e2, mod, fn, exits)
        if e1.dead and e2.dead:
            env.dead = True
            return
        if e1.dead:
            env.adopt(e2)
            return
        if e2.dead:
            env.adopt(e1)
            return
        j = join_envs([e1, e2], [c, nc])
        if getattr(self, "guarded_join", False):
            # keep what only one branch knows as an implication of its condition (c -> f, i.e. not c or f)
            for e_, c_, n_ in ((e1, c, nc), (e2, nc, c)):
                for f_ in e_.facts:
                    if f_ not in j.facts and f_ != c_ and len(j.facts) < 200:
                        j.facts.append(binop("or", n_, f_))
        j.pc = list(env.pc)
        env.adopt(j)

    # ------------------------------------------------------------------ loops
    def _iter_items(self, it):
        """constant iteration space -> list of item terms, else None"""
        if it.k in ("tuple", "list"):
            return list(it.a[0])
        if it.k == "range":
            a = it.a[0]
            if all(x.k == "const" and isinstance(x.a[0], int) for x in a):
                vals = list(range(*[x.a[0] for x in a]))
                if len(vals) <= MAX_UNROLL:
                    return [C(v) for v in vals]
        if it.k == "const" and isinstance(it.a[0], (bytes, str, tuple)):
            if len(it.a[0]) <= MAX_UNROLL:
                return [C(v) for v in it.a[0]]
        return None

    def st_For(self, s, env, mod, fn, exits):
        it = self.ev(s.iter, env, mod, fn)
        if env.dead:
            return
        if it.k == "gamma":
            # iterate under each alternative
            e1, e2 = env.clone(), env.clone()
            c = it.a[0]
            e1.add_fact(c); e1.pc.append(c)
            e2.add_fact(un("not", c)); e2.pc.append(un("not", c))
            for sub, alt in ((e1, it.a[1]), (e2, it.a[2])):
                self._for_over(s, alt, sub, mod, fn, exits)
            live = [(e, cc) for e, cc in ((e1, c), (e2, un("not", c))) if not e.dead]
            if not live:
                env.dead = True
            elif len(live) == 1:
                env.adopt(live[0][0])
            else:
                j = join_envs([e1, e2], [c, un("not", c)])
                j.pc = list(env.pc)
                env.adopt(j)
            return
        self._for_over(s, it, env, mod, fn, exits)

    def _for_over(self, s, it, env, mod, fn, exits):
        if is_const(it, None):
            self.log_raise("TypeError", env, s, kind="iter-none")
            env.dead = True
            return
        items = self._iter_items(it)
        if items is None and not self.quiet:
            items = self.slice_items(it, env, s.iter)     # for octet in buf[a:a+n]: the n octets (each a read)
        if items is not None:
            frame = {"breaks": [], "kind": "for"}
            self.loop_stack.append(frame)
            try:
                for item in items:
                    if env.dead:
                        break
                    self.assign(s.target, item, env, mod, fn)
                    self.block(s.body, env, mod, fn, exits)
                    if frame.get("continued"):
                        conts = frame.pop("continued")
                        live = ([env] if not env.dead else []) + conts
                        if live:
                            j = join_envs(live, [conj(e.pc[len(env.pc):]) for e in live]) if len(live) > 1 else live[0]
                            env.adopt(j)
                            env.dead = False
            finally:
                self.loop_stack.pop()
            if not env.dead and s.orelse:
                self.block(s.orelse, env, mod, fn, exits)
            self._join_breaks(env, frame)
            return
        # summarised loop over an opaque sequence
        ety = None
        if isinstance(it.ty, tuple) and it.ty[0] == "list":
            ety = it.ty[1]
        if it.k == "range":
            ety = "int"
        elem = self.symbolic_elem(it, ety, env)
        self._summarised_loop(s, it, elem, env, mod, fn, exits)

    def symbolic_elem(self, it, ety, env):
        name = f"elem({show(it)[:60]})"
        if isinstance(ety, str) and ety in self.P.classes and not self.P.is_enum(ety):
            return self.new_object(ety, symbolic=True, root=None, path=name)
        if isinstance(ety, tuple) and ety[0] == "tuple" and ety[1]:
            return T("tuple", tuple(sym(f"{name}[{i}]", ty=t) for i, t in enumerate(ety[1])))
        return sym(name, ty=ety)

    def _summarised_loop(self, s, it, elem, env, mod, fn, exits):
        before_vars = dict(env.vars)
        before_heap = dict(env.heap)
        # discovery pass: which variables / heap cells does the body modify?
        probe = env.clone()
        self.quiet += 1
        try:
            self.assign(s.target, elem, probe, mod, fn)
            self._loop_body(s, probe, mod, fn, [], {"breaks": [], "kind": "probe"})
        finally:
            self.quiet -= 1
        mod_vars = [k for k, v in probe.vars.items() if k in before_vars and before_vars[k] != v]
        mod_heap = [k for k, v in probe.heap.items() if k in before_heap and before_heap[k] != v]
        body_env = env.clone()
        # accumulators keep their entry value inside the single analysed iteration; everything else is havocked
        acc = {}
        for k in mod_vars:
            b, a = before_vars[k], probe.vars[k]
            if b.k == "bcat" and a.k == "bcat" and a.a[0][:len(b.a[0])] == b.a[0]:
                acc[k] = ("bcat", a.a[0][len(b.a[0]):])
            elif a.k == "op" and a.a[0] == "+" and a.a[1] == b:
                acc[k] = ("sum", a.a[2])
            else:
                body_env.vars[k] = self.fresh_sym(f"loop({k})", ty=b.ty)
        for k in mod_heap:
            body_env.heap[k] = self.fresh_sym(f"loop({k[1]})", ty=before_heap[k].ty)
        frame = {"breaks": [], "kind": "for"}
        self.assign(s.target, elem, body_env, mod, fn)
        self._loop_body(s, body_env, mod, fn, exits, frame)
        for k in mod_vars:
            if k in acc:
                kind, payload = acc[k]
                if kind == "bcat":
                    env.vars[k] = bcat(before_vars[k].a[0] + (T("rep", it, bcat(payload), elem),))
                else:
                    env.vars[k] = binop("+", before_vars[k], T("sum", it, payload, elem, ty="int"))
            else:
                env.vars[k] = self.fresh_sym(f"after({k})", ty=before_vars[k].ty)
        for k in mod_heap:
            env.heap[k] = self.fresh_sym(f"after({k[1]})", ty=before_heap[k].ty)
        if isinstance(s.target, ast.Name):
            env.vars[s.target.id] = elem
        self._join_breaks(env, frame)

    def _join_breaks(self, env, frame):
        brs = frame["breaks"]
        if not brs:
            return
        live = ([env.clone()] if not env.dead else []) + brs
        if len(live) == 1:
            j = live[0]
        else:
            base = len(env.pc)
            j = join_envs(live, [conj(e.pc[base:]) if e.pc[base:] else TRUE for e in live])
        pc = list(env.pc)
        env.adopt(j)
        env.pc = pc
        env.dead = False

    def _join_continues(self, env, frame):
        """the state at the end of one execution of a loop body: the fall-through state joined with every `continue`"""
        conts = frame.pop("continued", None)
        if not conts:
            return
        live = ([env.clone()] if not env.dead else []) + conts
        if len(live) == 1:
            j = live[0]
        else:
            base = 0
            while all(len(e.pc) > base for e in live) and all(e.pc[base] == live[0].pc[base] for e in live):
                base += 1
            conds = [conj(e.pc[base:]) if e.pc[base:] else TRUE for e in live]
            j = join_envs(live, conds)
            if getattr(self, "guarded_join", False):
                # what only one of the joined paths knows is kept as an implication of that path's condition
                for e_, c_ in zip(live, conds):
                    if is_const(c_, True):
                        continue
                    for f_ in e_.facts:
                        if f_ not in j.facts and len(j.facts) < 200:
                            j.facts.append(binop("or", un("not", c_), f_))
        env.adopt(j)
        env.dead = False

    def _loop_body(self, s, env, mod, fn, exits, frame):
        self.loop_stack.append(frame)
        try:
            self.block(s.body, env, mod, fn, exits)
        finally:
            self.loop_stack.pop()
        self._join_continues(env, frame)

    def st_While(self, s, env, mod, fn, exits):
        # constant-false condition
        c0 = truthy(self.ev(s.test, env.clone(), mod, fn))
        if is_const(c0, False):
            return
        if is_const(c0, True) and not isinstance(s.test, ast.Constant) and self._unroll_concrete_while(s, env, mod, fn, exits):
            return
        if not is_const(c0, True) and not self.quiet and self._unroll_bounded_while(s, env, mod, fn, exits):
            return
        before_vars = dict(env.vars)
        before_heap = dict(env.heap)
        probe = env.clone()
        # The probe doubles as the peeled first iteration: it starts from the real entry state with the loop test
        # assumed, so what it reads and raises involves input symbols only and is decided like straight-line code
        # (the summarised pass below covers the later iterations and needs inductive invariants for the same reads).
        peel = not self.quiet and not getattr(self, "no_peel", False)
        if peel:
            probe.add_fact(c0)
            probe.pc.append(c0)
        else:
            self.quiet += 1
        try:
            self._loop_body(s, probe, mod, fn, [], {"breaks": [], "kind": "probe"})
        finally:
            if not peel:
                self.quiet -= 1
        # further peeled iterations (peel_depth > 1): each continues from the state the previous one ended in
        if peel and not probe.dead:
            cur = probe
            for _k in range(1, int(getattr(self, "peel_depth", 1))):
                nxt = cur.clone()
                ck_ = truthy(self.ev(s.test, nxt, mod, fn))
                if nxt.dead or is_const(ck_, False):
                    break
                nxt.add_fact(ck_)
                nxt.pc.append(ck_)
                self._loop_body(s, nxt, mod, fn, [], {"breaks": [], "kind": "probe"})
                if nxt.dead:
                    break
                cur = nxt
        assigned = {n.id for st in s.body for n in ast.walk(st) if isinstance(n, ast.Name) and isinstance(n.ctx, ast.Store)}
        mod_vars = set(k for k, v in probe.vars.items() if k in before_vars and before_vars[k] != v) | (assigned & set(before_vars))
        # mutated containers (x.append(..)) also show up as changed values in the probe
        mod_heap = [k for k, v in probe.heap.items() if k in before_heap and before_heap[k] != v]
        head = env.clone()
        entry_values = {}
        for k in mod_vars:
            entry_values[k] = before_vars[k]
            head.vars[k] = self.fresh_sym(f"loop({k})", ty=before_vars[k].ty)
        for k in mod_heap:
            head.heap[k] = self.fresh_sym(f"loop({k[1]})", ty=before_heap[k].ty)
        invs = []
        if not self.quiet and not getattr(self, "no_loop_invariants", False):
            try:
                invs = self.infer_loop_invariants(s, env, head, mod_vars, entry_values, mod, fn)
            except Unsupported:
                invs = []
        for f_ in invs:
            head.add_fact(f_)
        if not self.quiet:
            self.notes.append({"kind": "loop", "node": s, "func": self.cur_func(), "where": self.loc(s),
                               "entry": entry_values, "head": {k: head.vars[k] for k in mod_vars},
                               "facts": list(env.facts), "stack": tuple(self.where), "invariants": list(invs)})
        body = head.clone()
        c = truthy(self.ev(s.test, body, mod, fn))
        body.add_fact(c)
        body.pc.append(c)
        frame = {"breaks": [], "kind": "while", "node": s}
        self._loop_body(s, body, mod, fn, exits, frame)
        if not self.quiet:
            self.notes.append({"kind": "loop-end", "node": s, "func": self.cur_func(),
                               "head": {k: head.vars[k] for k in mod_vars},
                               "next": {k: body.vars.get(k) for k in mod_vars} if not body.dead else None,
                               "facts": list(body.facts), "stack": tuple(self.where)})
        # state after the loop: loop head with the negated condition, joined with the break states
        after = head.clone()
        ren = {}
        for k in mod_vars:
            after.vars[k] = self.fresh_sym(f"after({k})", ty=before_vars[k].ty)
            ren[head.vars[k]] = after.vars[k]
        if invs:
            # the invariants hold at every evaluation of the loop test, hence for the values the loop is left with
            from .terms import substitute
            after.facts = [f_ for f_ in after.facts if f_ not in invs]
            for f_ in invs:
                after.add_fact(substitute(f_, ren))
        for k in mod_heap:
            after.heap[k] = self.fresh_sym(f"after({k[1]})", ty=before_heap[k].ty)
        cc = truthy(self.ev(s.test, after.clone(), mod, fn)) if not is_const(c0, True) else TRUE
        if is_const(cc, True):
            after.dead = True
        else:
            after.add_fact(un("not", cc))
        pc = list(env.pc)
        env.adopt(after)
        env.pc = pc
        if s.orelse and not env.dead:
            # while ... else: the else suite runs when the test becomes false, not after a break
            self.block(s.orelse, env, mod, fn, exits)
        self._join_breaks(env, frame)

    def _unroll_concrete_while(self, s, env, mod, fn, exits, limit=64):
        """A while loop whose test is decided by constants at every evaluation (a counter started from a constant) is
        executed iteration by iteration like straight-line code.  A quiet dry run decides whether that is the case."""
        dry = env.clone()
        n = 0
        self.quiet += 1
        try:
            while True:
                c = truthy(self.ev(s.test, dry.clone(), mod, fn))
                if c.k != "const":
                    return False
                if not c.a[0]:
                    break
                n += 1
                if n > limit:
                    return False
                frame = {"breaks": [], "kind": "while", "node": s}
                self._loop_body(s, dry, mod, fn, [], frame)
                if frame["breaks"] or dry.dead:
                    return False        # data-dependent exits: leave it to the summarising analysis
        except Unsupported:
            return False
        finally:
            self.quiet -= 1
        for _ in range(n):
            frame = {"breaks": [], "kind": "while", "node": s}
            self._loop_body(s, env, mod, fn, exits, frame)
            if env.dead:
                return True
        if s.orelse:
            self.block(s.orelse, env, mod, fn, exits)
        return True

    def _unroll_bounded_while(self, s, env, mod, fn, exits, limit=16):
        """A while loop whose test is a conjunction with a concretely bounded part (`idx <= 7 + n and idx < len(buf)` with
        constant idx and n) ends after a known number of iterations whatever the symbolic part says: it is executed
        iteration by iteration, each under the symbolic rest of its test, and the states in which that rest failed
        earlier are joined with the final one.  A quiet dry run decides whether the loop is of that kind."""
        if s.orelse or any(isinstance(n_, (ast.Break, ast.Continue, ast.Return)) for st_ in s.body for n_ in ast.walk(st_)):
            return False
        dry = env.clone()
        n = 0
        self.quiet += 1
        try:
            while True:
                c = truthy(self.ev(s.test, dry.clone(), mod, fn))
                if is_const(c, False):
                    break
                n += 1
                if n > limit:
                    return False
                if c.k != "const":
                    dry.add_fact(c)
                    if dry.dead:
                        break
                self.block(s.body, dry, mod, fn, [])
                if dry.dead:
                    return False
        except Unsupported:
            return False
        finally:
            self.quiet -= 1
        if n == 0:
            return False
        outs = []
        base = len(env.pc)
        for _ in range(n):
            c = truthy(self.ev(s.test, env.clone(), mod, fn))
            if is_const(c, False):
                break
            if c.k != "const":
                e_exit = env.clone()
                nc = un("not", c)
                e_exit.add_fact(nc)
                e_exit.pc.append(nc)
                if not e_exit.dead:
                    outs.append(e_exit)
                env.add_fact(c)
                env.pc.append(c)
                if env.dead:
                    break
            self.block(s.body, env, mod, fn, exits)
            if env.dead:
                break
        live = ([env.clone()] if not env.dead else []) + outs
        if not live:
            env.dead = True
            return True
        if len(live) == 1:
            j = live[0]
        else:
            j = join_envs(live, [conj(e.pc[base:]) if e.pc[base:] else TRUE for e in live])
        pc = list(env.pc[:base])
        env.adopt(j)
        env.pc = pc
        env.dead = False
        return True

    def infer_loop_invariants(self, s, env, head, mod_vars, entry_values, mod, fn):
        """Houdini-style inference of simple inductive invariants for a summarised while loop.

        Candidates: (a) v >= entry(v) for every integer loop variable; (b) every fact that holds at the end of
        the continuing path of the body and mentions the whole next-value term of one loop variable, read as a
        predicate of that variable (typically the negation of the test that breaks out of the loop).  A candidate
        survives if it holds on entry (from the facts before the loop) and is re-established at the end of the body
        assuming all surviving candidates at the head.  Checked with the same entailment procedure as the rules."""
        from .terms import substitute, subterms
        from .decode_rules import budgeted_prove
        import os as _os
        _dbg = bool(_os.environ.get("SPVERIF_DEBUG_INV"))

        def loop_syms(t):
            return {x for x in subterms(t) if x.k == "sym" and isinstance(x.a[0], str) and x.a[0].startswith("loop(")}

        def run_body(assumed):
            b = head.clone()
            for f_ in assumed:
                b.add_fact(f_)
            c_ = truthy(self.ev(s.test, b, mod, fn))
            b.add_fact(c_)
            self.quiet += 1
            try:
                self._loop_body(s, b, mod, fn, [], {"breaks": [], "kind": "probe"})
            finally:
                self.quiet -= 1
            return b
        ints = [k for k in mod_vars if (entry_values[k].ty == "int" or (entry_values[k].k == "const" and isinstance(entry_values[k].a[0], int)
                                                                        and not isinstance(entry_values[k].a[0], bool)))]
        if not ints:
            return []
        cands = [(k, binop(">=", head.vars[k], entry_values[k])) for k in ints if not loop_syms(entry_values[k])]
        b0 = run_body([])
        if b0.dead:
            return []
        base = set(head.facts)
        for f_ in b0.facts:
            if f_ in base:
                continue
            for k in ints:
                nxt = b0.vars.get(k)
                if nxt is None or nxt == head.vars[k]:
                    continue
                if any(x == nxt for x in subterms(f_)):
                    c_ = substitute(f_, {nxt: head.vars[k]})
                    if loop_syms(c_) <= {head.vars[k]}:
                        cands.append((k, c_))
        alive = list(cands)
        for _round in range(3):
            b = run_body([c_ for _k, c_ in alive])
            if b.dead:
                break
            keep = []
            for k, c_ in alive:
                entry = substitute(c_, {head.vars[k]: entry_values[k]})
                st1, _m = budgeted_prove(env.facts, entry, max_cases=24, budget=1.5)
                if _dbg:
                    print("INV-CAND", k, show(c_)[:120], "| entry", st1, str(_m)[:100])
                if st1 != "proved":
                    continue
                nxt = b.vars.get(k)
                pres = substitute(c_, {head.vars[k]: nxt}) if nxt is not None else None
                if pres is None:
                    continue
                st2 = None
                if truthy(pres) in b.facts:
                    st2, _m = "proved", "literally established at the end of the body"
                elif c_.k == "op" and c_.a[0] == ">=" and c_.a[1] == head.vars[k] and nxt is not None:
                    lo_ = self._delta_lower_bound(nxt, head.vars[k])
                    if lo_ is not None and lo_ >= 0:
                        st2, _m = "proved", f"next - current >= {lo_} on every branch"
                if st2 is None:
                    st2, _m = budgeted_prove(b.facts, pres, max_cases=24, budget=1.5)
                if _dbg:
                    print("   preserved", st2, str(_m)[:160])
                if st2 == "proved":
                    keep.append((k, c_))
            if len(keep) == len(alive):
                break
            alive = keep
        return [c_ for _k, c_ in alive]

    def _delta_lower_bound(self, nxt, cur):
        """syntactic lower bound of nxt - cur, distributing over gated alternatives (None = unknown)"""
        from .linear import linearize, term_range
        if nxt.k == "gamma":
            a, b = self._delta_lower_bound(nxt.a[1], cur), self._delta_lower_bound(nxt.a[2], cur)
            return None if a is None or b is None else min(a, b)
        d = linearize(nxt) - linearize(cur)
        lo = d.c
        for atom, coef in d.co.items():
            if atom.k == "gamma":
                from .linear import lower_bound
                alo, ahi = lower_bound(atom), None
            else:
                alo, ahi = term_range(atom)
            bound = alo if coef > 0 else ahi
            if bound is None:
                import os as _os
                if _os.environ.get("SPVERIF_DEBUG_INV"):
                    print("   no bound for atom", show(atom)[:200], "coef", coef)
                return None
            lo += coef * bound
        return lo

    def st_Break(self, s, env, mod, fn, exits):
        if self.loop_stack:
            fr = self.loop_stack[-1]
            if fr["kind"] != "probe":
                fr["breaks"].append(env.clone())
        env.dead = True

    def st_Continue(self, s, env, mod, fn, exits):
        if self.loop_stack:
            self.loop_stack[-1].setdefault("continued", []).append(env.clone())
        env.dead = True

    # ------------------------------------------------------------------ try / with
    def st_Try(self, s, env, mod, fn, exits):
        handlers = []
        for h in s.handlers:
            if h.type is None:
                names = None
            else:
                elts = h.type.elts if isinstance(h.type, ast.Tuple) else [h.type]
                names = []
                for e in elts:
                    t = self.ev(e, env.clone(), mod, fn)
                    names.append(t.a[0] if t.k in ("class", "exc", "builtin") else ast.unparse(e))
            handlers.append((names, []))
        frame = {"handlers": handlers}
        entry = env.clone()
        assigned = {n.id for st in s.body for n in ast.walk(st) if isinstance(n, ast.Name) and isinstance(n.ctx, ast.Store)}
        self.try_stack.append(frame)
        try:
            self.block(s.body, env, mod, fn, exits)
        finally:
            self.try_stack.pop()
        if not env.dead and s.orelse:
            self.block(s.orelse, env, mod, fn, exits)
        outs = [] if env.dead else [env.clone()]
        for hi, (h, (names, bucket)) in enumerate(zip(s.handlers, handlers)):
            if not bucket:
                continue
            henv = bucket[0] if len(bucket) == 1 else join_envs(bucket, [conj(b.pc) for b in bucket])
            henv = henv.clone()
            henv.vars = dict(entry.vars)
            for n in assigned:
                if n in henv.vars:
                    henv.vars[n] = self.fresh_sym(f"try({n})", ty=henv.vars[n].ty)
            henv.pc = list(entry.pc)
            if len(bucket) == 1:
                extra = bucket[0].pc[len(entry.pc):] if bucket[0].pc[:len(entry.pc)] == entry.pc else []
                henv.pc += [conj(extra)] if extra else []
            else:
                henv.pc.append(self.fresh_sym("caught", ty="bool"))
            henv.dead = False
            if h.name:
                henv.vars[h.name] = self.new_object("<exception>", symbolic=True, root=None, path=h.name)
            caught = list(dict.fromkeys(frame.get("excs", {}).get(hi, []))) or list(names or ["Exception"])
            self.handler_excs.append(caught)
            nr_h = len(self.raises)
            try:
                self.block(h.body, henv, mod, fn, exits)
            finally:
                self.handler_excs.pop()
            if not henv.dead:
                outs.append(henv)
            elif s.finalbody and not self.quiet:
                # the handler leaves by raising: the finally suite still runs, in the state the handler reached; what it
                # stores belongs to the path of that raise (the refusal rules look at it)
                seqs = frozenset(r_["seq"] for r_ in self.raises[nr_h:] if not r_["caught"])
                if seqs:
                    fenv = henv.clone()
                    fenv.dead = False
                    old_ff = getattr(self, "_finally_for", None)
                    self._finally_for = seqs
                    try:
                        self.block(s.finalbody, fenv, mod, fn, [])
                    finally:
                        self._finally_for = old_ff
        if s.finalbody:
            for o in outs:
                self.block(s.finalbody, o, mod, fn, exits)
            outs = [o for o in outs if not o.dead]
        if not outs:
            env.dead = True
            return
        if len(outs) == 1:
            pc = list(entry.pc)
            env.adopt(outs[0])
            env.pc = pc
            return
        j = join_envs(outs, [conj(o.pc[len(entry.pc):]) if o.pc[len(entry.pc):] else TRUE for o in outs])
        j.pc = list(entry.pc)
        env.adopt(j)

    def st_With(self, s, env, mod, fn, exits):
        vals = []
        for it in s.items:
            v = self.ev(it.context_expr, env, mod, fn)
            vals.append(v)
            if it.optional_vars is not None:
                self.assign(it.optional_vars, v, env, mod, fn)
        if not self.quiet:
            self.notes.append({"kind": "with", "node": s, "func": self.cur_func(), "where": self.loc(s)})
        self.with_stack.extend(vals)
        try:
            self.block(s.body, env, mod, fn, exits)
        finally:
            del self.with_stack[len(self.with_stack) - len(vals):]
        # leaving the block (normally, by return or by an exception) closes what it manages
        for v in reversed(vals):
            self.log_fileop("with-exit", v, (), {}, env, s)

    def st_FunctionDef(self, s, env, mod, fn, exits):
        self.unsupported("nested function", s)

    def st_ClassDef(self, s, env, mod, fn, exits):
        self.unsupported("nested class", s)
