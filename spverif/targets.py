"""Catalogue of the public decoder entry points and how each is analysed (used by C09 and C10).

A target group is a name plus a generator of Run records; groups are executed in worker processes.
"""
from __future__ import annotations

from .index import Program
from .gti import new_interp, call_method, construct, read_path, Env, Unsupported
from .terms import T, C, sym, show, binop, un, length, NONE
from .linear import Lin, linearize
from . import decode_rules as D
from . import cfdp_common as CF
from . import pdus as PD
from . import pdu_decode as DEC


class Run:
    def __init__(self, entry, tag, it, env, result, root=None, N=None, allowed=("ValueError",), independent=True, partial=False):
        self.entry, self.tag, self.it, self.env, self.result = entry, tag, it, env, result
        self.root, self.N, self.allowed, self.independent = root, N, allowed, independent
        self.partial = partial      # decodes only a leading part of the unit (header decoders): N bounds its reads, not its input


def q(P, short):
    return P.cls(short).qual


def cm(P, cls_short, meth, args, concrete=None, kw=None, pre=None):
    it = new_interp(P)
    for k, v in (concrete or {}).items():
        it.concrete_bytes[k] = v
    env = Env()
    if pre:
        pre(it, env)
    r = call_method(it, env, T("class", q(P, cls_short)), meth, list(args), kw)
    return it, env, r


def fn(P, func_short, kwargs, concrete=None):
    it = new_interp(P)
    for k, v in (concrete or {}).items():
        it.concrete_bytes[k] = v
    env = Env()
    r = it.call_func(P.func(func_short), [], dict(kwargs), env)
    return it, env, r


DATA = sym("data", ty="bytes")


def sp_len(data):
    return binop("+", T("unpacked", "!H", T("slice", data, C(4), C(6), ty="bytes"), ty="int"), C(7))


# ---------------------------------------------------------------------------- groups
def g_ccsds(P, tier):
    it, env, r = cm(P, "ccsds.spacepacket.SpacePacketHeader", "unpack", [DATA])
    yield Run("ccsds.spacepacket.SpacePacketHeader.unpack", "", it, env, r, "data", C(6))
    rp = sym("raw_packet", ty="bytes")
    it, env, r = fn(P, "ccsds.spacepacket.get_apid_from_raw_space_packet", {"raw_packet": rp})
    yield Run("ccsds.spacepacket.get_apid_from_raw_space_packet", "", it, env, r, "raw_packet", C(2), independent=False)
    for m in ("unpack", "unpack_from_raw"):
        it, env, r = cm(P, "ccsds.time.cds.CdsShortTimestamp", m, [DATA])
        yield Run(f"ccsds.time.cds.CdsShortTimestamp.{m}", "", it, env, r, "data", C(7), independent=(m == "unpack"))
    it = new_interp(P); env = Env()
    o = construct(it, env, "ccsds.time.cds.CdsShortTimestamp", dict(ccsds_days=C(0), ms_of_day=C(0)))
    call_method(it, env, o, "read_from_raw", [DATA])
    yield Run("ccsds.time.cds.CdsShortTimestamp.read_from_raw", "", it, env, o, "data", C(7))
    # stream parser: the scan part as a whole over one symbolic buffer, first three iterations peeled (helpers inlined,
    # whatever they are called), the same way C13 analyses it
    from .props import c13 as _c13
    import ast as _ast
    f = P.func("ccsds.spacepacket.parse_space_packets")
    body = [s_ for s_ in f.node.body if not (isinstance(s_, _ast.Expr) and isinstance(s_.value, _ast.Constant))]
    probs, bname, drain_st = _c13.find_drain(P, f)
    if bname is None:
        raise Unsupported("parse_space_packets: drain loop not located")
    loops = [s_ for s_ in body if isinstance(s_, (_ast.While, _ast.For)) and s_ is not drain_st and body.index(s_) > body.index(drain_st)]
    if len(loops) != 1:
        raise Unsupported("parse_space_packets: scan loop not located")
    buf = sym("concatenated_packets", ty="bytes")
    it = new_interp(P); env = Env()
    it.peel_depth = 3
    it.guarded_join = True
    env.vars[bname] = buf
    env.vars[f.node.args.args[0].arg] = sym("analysis_queue", ty=("list", "bytes"))
    for s_ in body[:body.index(drain_st)]:
        for n_ in _ast.walk(s_):
            if isinstance(n_, _ast.Name) and isinstance(n_.ctx, _ast.Store) and n_.id not in env.vars:
                env.vars[n_.id] = sym(n_.id, ty=("list", None))
    it.where.append(f.short)
    it.block(body[body.index(drain_st) + 1:body.index(loops[0]) + 1], env, f.module, f, [])
    yield Run("ccsds.spacepacket.parse_space_packets", "scan part, three peeled iterations", it, env, NONE, None, None, independent=False)


def g_pus(P, tier):
    tl = sym("timestamp_len", ty="int")
    pre = lambda it, env: env.add_fact(binop(">=", tl, C(0)))
    it, env, r = cm(P, "ecss.tc.PusTcDataFieldHeader", "unpack", [DATA])
    yield Run("ecss.tc.PusTcDataFieldHeader.unpack", "", it, env, r, "data", C(5))
    tcx = ("ValueError", q(P, "ecss.tc.InvalidTcCrc16"))
    tmx = ("ValueError", q(P, "ecss.tm.InvalidTmCrc16"))
    it, env, r = cm(P, "ecss.tc.PusTc", "unpack", [DATA])
    yield Run("ecss.tc.PusTc.unpack", "", it, env, r, "data", sp_len(DATA), tcx)
    it, env, r = cm(P, "ecss.tm.PusTmSecondaryHeader", "unpack", [DATA, tl], pre=pre)
    yield Run("ecss.tm.PusTmSecondaryHeader.unpack", "", it, env, r, "data", binop("+", tl, C(7)))
    it, env, r = cm(P, "ecss.tm.PusTm", "unpack", [DATA, tl], pre=pre)
    yield Run("ecss.tm.PusTm.unpack", "", it, env, r, "data", sp_len(DATA), tmx)
    it, env, r = cm(P, "ecss.pus_17_test.Service17Tm", "unpack", [DATA, tl], pre=pre)
    yield Run("ecss.pus_17_test.Service17Tm.unpack", "", it, env, r, "data", sp_len(DATA), tmx)
    rb = sym("raw_bytearray", ty="bytes")
    it, env, r = fn(P, "ecss.tm.PusTm.service_from_bytes", {"raw_bytearray": rb})
    yield Run("ecss.tm.PusTm.service_from_bytes", "", it, env, r, "raw_bytearray", C(8), independent=False)
    it, env, r = fn(P, "ecss.check_pus_crc", {"tc_packet": sym("tc_packet", ty="bytes")})
    yield Run("ecss.check_pus_crc", "", it, env, r, None, None, independent=False)
    it, env, r = cm(P, "ecss.req_id.RequestId", "unpack", [DATA])
    yield Run("ecss.req_id.RequestId.unpack", "", it, env, r, "data", C(4))
    for pfc in (8, 16, 32, 64):
        it, env, r = cm(P, "ecss.fields.PacketFieldEnum", "unpack", [DATA, C(pfc)])
        yield Run("ecss.fields.PacketFieldEnum.unpack", f"pfc {pfc}", it, env, r, "data", C(pfc // 8))
    for nb in (1, 2):
        it, env, r = cm(P, "ecss.pus_1_verification.FailureNotice", "unpack", [DATA, C(nb), sym("num_bytes_data", ty="int")],
                        pre=lambda it, env: env.add_fact(binop(">=", sym("num_bytes_data", ty="int"), C(0))))
        yield Run("ecss.pus_1_verification.FailureNotice.unpack", f"code width {nb}", it, env, r, "data", binop("+", sym("num_bytes_data", ty="int"), C(nb)))


def g_srv1(P, tier):
    tmx = ("ValueError", q(P, "ecss.tm.InvalidTmCrc16"))
    for sub in range(0, 10):
        for Tl in (0, 7):
            it = new_interp(P); env = Env()
            it.concrete_bytes[("data", 8)] = sub
            up = construct(it, env, "ecss.pus_1_verification.UnpackParams", dict(timestamp_len=C(Tl), bytes_step_id=C(1), bytes_err_code=C(2)))
            r = call_method(it, env, T("class", q(P, "ecss.pus_1_verification.Service1Tm")), "unpack", [DATA, up])
            yield Run("ecss.pus_1_verification.Service1Tm.unpack", f"subservice {sub}, T={Tl}", it, env, r, "data", sp_len(DATA), tmx)


def g_cfdp_header(P, tier):
    ax = DEC.allowed_classes(P)
    for (E, S) in ((1, 1), (2, 4), (8, 2), (4, 8)):
        it, env, r = cm(P, "cfdp.pdu.header.PduHeader", "unpack", [DATA], concrete={("data", 3): CF.octet3(E, S, 1, 1)})
        yield Run("cfdp.pdu.header.PduHeader.unpack", f"E={E},S={S}", it, env, r, "data", C(CF.header_len(E, S)), ax)
        it, env, r = cm(P, "cfdp.pdu.file_directive.FileDirectivePduBase", "unpack", [DATA], concrete={("data", 3): CF.octet3(E, S)})
        H = CF.header_len(E, S)
        yield Run("cfdp.pdu.file_directive.FileDirectivePduBase.unpack", f"E={E},S={S}", it, env, r, "data", binop("+", CF.data_field_len_term(DATA), C(H)), ax, partial=True)
        it, env, r = cm(P, "cfdp.pdu.helper.PduFactory", "pdu_directive_type", [DATA], concrete={("data", 0): CF.octet0(0), ("data", 3): CF.octet3(E, S)})
        yield Run("cfdp.pdu.helper.PduFactory.pdu_directive_type", f"E={E},S={S}", it, env, r, "data", None, ax, independent=False)
    for code in (0x20, 0x25, 0x50, 0x66):
        it, env, r = cm(P, "cfdp.pdu.header.PduHeader", "unpack", [DATA], concrete={("data", 3): code})
        yield Run("cfdp.pdu.header.PduHeader.unpack", f"invalid width codes {code:#04x}", it, env, r, "data", None, ax)
    it, env, r = cm(P, "cfdp.pdu.header.PduHeader", "unpack", [DATA])
    yield Run("cfdp.pdu.header.PduHeader.unpack", "symbolic (escape set only)", it, env, r, None, None, ax, independent=False)
    for m in ("pdu_type", "is_file_directive"):
        it, env, r = cm(P, "cfdp.pdu.helper.PduFactory", m, [DATA])
        yield Run(f"cfdp.pdu.helper.PduFactory.{m}", "", it, env, r, "data", None, ax, independent=False)
    it, env, r = fn(P, "cfdp.pdu.header.AbstractPduBase.header_len_from_raw", {"data": DATA})
    yield Run("cfdp.pdu.header.AbstractPduBase.header_len_from_raw", "", it, env, r, "data", None, ax, independent=False)


def g_pdu(P, tier, kind_name=None, case_idx=None):
    ax = DEC.allowed_classes(P)
    kinds = [(k.name, k.cls, k.code) for k in PD.DIRECTIVES] + [("File Data", "cfdp.pdu.file_data.FileDataPdu", None)]
    for name, cls, code in kinds:
        if kind_name and name != kind_name:
            continue
        cases = PD.config_cases(tier)
        for i, (E, S, crc, large) in enumerate(cases):
            if case_idx is not None and i != case_idx:
                continue
            H = CF.header_len(E, S)
            N = binop("+", CF.data_field_len_term(DATA), C(H))
            for sm in ((0, 1) if code is None else (0,)):
                conc = {("data", 0): CF.octet0(1 if code is None else 0, i % 2, (i // 2) % 2, crc, large), ("data", 3): CF.octet3(E, S, i % 2 if code is None else 0, sm)}
                it, env, r = cm(P, cls, "unpack", [DATA], concrete=conc)
                yield Run(f"{cls}.unpack", f"E={E},S={S},crc={crc},large={large}" + (f",segmeta={sm}" if code is None else ""), it, env, r, "data", N, ax)
            if i in (1, 4):
                conc = {("data", 0): CF.octet0(1 if code is None else 0, 0, 0, crc, large), ("data", 3): CF.octet3(E, S)}
                if code is not None:
                    conc[("data", H)] = code
                for m in ("from_raw", "from_raw_to_holder"):
                    it, env, r = cm(P, "cfdp.pdu.helper.PduFactory", m, [DATA], concrete=conc)
                    yield Run(f"cfdp.pdu.helper.PduFactory.{m}", f"{name} E={E},S={S},crc={crc},large={large}", it, env, r, "data", N, ax)


def g_tlv(P, tier):
    from .props.c08 import CONCRETE
    ax = ("ValueError", q(P, "cfdp.exceptions.TlvTypeMissmatch"))
    rb = sym("raw_bytes", ty="bytes")
    it, env, r = cm(P, "cfdp.lv.CfdpLv", "unpack", [rb])
    yield Run("cfdp.lv.CfdpLv.unpack", "", it, env, r, "raw_bytes", binop("+", T("idx", rb, C(0), ty="int"), C(1)), ax, independent=False)
    N = binop("+", T("idx", DATA, C(1), ty="int"), C(2))
    it, env, r = cm(P, "cfdp.tlv.tlv.CfdpTlv", "unpack", [DATA])
    yield Run("cfdp.tlv.tlv.CfdpTlv.unpack", "", it, env, r, "data", N, ax)
    for cls, (mod, ttype, acc) in CONCRETE.items():
        for octet in (ttype, (ttype + 1) % 7):
            it, env, r = cm(P, f"{mod}.{cls}", "unpack", [DATA], concrete={("data", 0): octet})
            yield Run(f"{mod}.{cls}.unpack", f"type octet {octet}", it, env, r, "data", N, ax)


def g_reserved(P, tier):
    M = "cfdp.tlv.msg_to_user"
    v = sym("v", ty="bytes")
    table = {"get_proxy_put_request_params": 0x00, "get_proxy_put_response_params": 0x07, "get_proxy_closure_requested": 0x0B, "get_proxy_transmission_mode": 0x04,
             "get_dir_listing_request_params": 0x10, "get_dir_listing_response_params": 0x11, "get_dir_listing_options": 0x15, "get_originating_transaction_id": 0x0A}
    for g, mt in table.items():
        for conc in (({("v", 0): 0x01},) if g == "get_originating_transaction_id" else ({},)):
            it = new_interp(P); env = Env()
            for k_, vv in conc.items():
                it.concrete_bytes[k_] = vv
            m = construct(it, env, f"{M}.ReservedCfdpMessage", dict(msg_type=C(mt), value=v))
            it.reads.clear(); it.raises.clear()
            r = call_method(it, env, m, g)
            yield Run(f"{M}.ReservedCfdpMessage.{g}", "", it, env, r, None, None, independent=False)
    it = new_interp(P); env = Env()
    mt = construct(it, env, f"{M}.MessageToUserTlv", dict(msg=sym("msg", ty="bytes")))
    it.reads.clear(); it.raises.clear()
    r = call_method(it, env, mt, "to_reserved_msg_tlv")
    yield Run(f"{M}.MessageToUserTlv.to_reserved_msg_tlv", "", it, env, r, None, None, independent=False)


def g_uslp(P, tier):
    from .props.c17 import allowed
    ax = allowed(P)
    rp = sym("raw_packet", ty="bytes")
    for n in range(8):
        it, env, r = cm(P, "uslp.header.PrimaryHeader", "unpack", [rp], concrete={("raw_packet", 6): (1 << 3) | n})
        yield Run("uslp.header.PrimaryHeader.unpack", f"VCF count length {n}", it, env, r, "raw_packet", C(7 + n), ax)
    it, env, r = cm(P, "uslp.header.TruncatedPrimaryHeader", "unpack", [rp])
    yield Run("uslp.header.TruncatedPrimaryHeader.unpack", "", it, env, r, "raw_packet", C(4), ax)
    hs = sym("header_start", ty="bytes")
    it, env, r = fn(P, "uslp.header.determine_header_type", {"header_start": hs})
    yield Run("uslp.header.determine_header_type", "", it, env, r, "header_start", C(4), ax, independent=False)
    rt = sym("raw_tfdf", ty="bytes"); el = sym("exact_len", ty="int")
    ftq = q(P, "uslp.frame.FrameType")
    for rule in range(8):
        for trunc in (False, True):
            for ft in (None, "FIXED", "VARIABLE"):
                it = new_interp(P); env = Env()
                it.concrete_bytes[("raw_tfdf", 0)] = (rule << 5) | 1
                env.add_fact(binop(">=", el, C(0)))
                r = call_method(it, env, T("class", q(P, "uslp.frame.TransferFrameDataField")), "unpack", [],
                                dict(raw_tfdf=rt, truncated=C(trunc), exact_len=el, frame_type=NONE if ft is None else T("const", f"FrameType.{ft}", ty=ftq)))
                yield Run("uslp.frame.TransferFrameDataField.unpack", f"rule {rule:03b}, truncated {trunc}, {ft}", it, env, r, "raw_tfdf", el, ax)


def g_frame(P, tier):
    from .props.c17 import allowed
    ax = allowed(P)
    raw = sym("raw_frame", ty="bytes")
    for ftype, n, op, has_iz, has_fz, trunc in (("FIXED", 0, 0, False, False, False), ("FIXED", 2, 1, True, True, False), ("VARIABLE", 3, 1, False, True, False),
                                                 ("VARIABLE", 1, 0, True, False, False), ("VARIABLE", 0, 0, True, True, True), ("FIXED", 0, 0, False, False, True)):
        it = new_interp(P); env = Env()
        it.concrete_bytes[("raw_frame", 3)] = 1 if trunc else 0
        if not trunc:
            it.concrete_bytes[("raw_frame", 6)] = (op << 3) | n
        iz, fz, tl, fl = sym("iz", ty="int"), sym("fz", ty="int"), sym("truncated_frame_len", ty="int"), sym("fixed_len", ty="int")
        for s_ in (iz, fz, tl, fl):
            env.add_fact(binop(">=", s_, C(0)))
        kw = dict(has_insert_zone=C(has_iz), has_fecf=C(has_fz), insert_zone_len=iz if has_iz else NONE, fecf_len=fz if has_fz else NONE)
        props = construct(it, env, "uslp.frame.FixedFrameProperties", dict(fixed_len=fl, **kw)) if ftype == "FIXED" else \
            construct(it, env, "uslp.frame.VarFrameProperties", dict(truncated_frame_len=tl, **kw))
        ft = T("const", f"FrameType.{ftype}", ty=q(P, "uslp.frame.FrameType"))
        r = call_method(it, env, T("class", q(P, "uslp.frame.TransferFrame")), "unpack", [raw, ft, props])
        frame_len = binop("|", binop("<<", T("idx", raw, C(4), ty="int"), C(8)), T("idx", raw, C(5), ty="int"))
        N = tl if trunc else binop("+", frame_len, C(1))
        yield Run("uslp.frame.TransferFrame.unpack", f"{ftype}, vcf len {n}, OCF {op}, IZ {has_iz}, FECF {has_fz}, truncated {trunc}", it, env, r, "raw_frame", N, ax)


def g_util(P, tier):
    st = sym("stream", ty="bytes")
    for n, cls, m in ((1, "ByteFieldU8", "from_u8_bytes"), (2, "ByteFieldU16", "from_u16_bytes"), (4, "ByteFieldU32", "from_u32_bytes"), (8, "ByteFieldU64", "from_u64_bytes")):
        it, env, r = cm(P, f"util.{cls}", m, [st])
        yield Run(f"util.{cls}.{m}", "", it, env, r, "stream", C(n))
        it, env, r = fn(P, "util.ByteFieldGenerator.from_bytes", dict(byte_len=C(n), stream=st))
        yield Run("util.ByteFieldGenerator.from_bytes", f"width {n}", it, env, r, "stream", C(n))
        raw = sym("raw", ty="bytes")
        it = new_interp(P); env = Env()
        env.add_fact(binop("==", length(raw), C(n)))
        r = call_method(it, env, T("class", q(P, "util.UnsignedByteField")), "from_bytes", [raw])
        yield Run("util.UnsignedByteField.from_bytes", f"len {n}", it, env, r, None, None, independent=False)


GROUPS = {"ccsds": g_ccsds, "pus": g_pus, "srv1": g_srv1, "cfdp-header": g_cfdp_header, "tlv": g_tlv, "reserved": g_reserved, "uslp": g_uslp, "frame": g_frame, "util": g_util}
PDU_KINDS = ["EOF", "Finished", "ACK", "Metadata", "NAK", "Prompt", "Keep Alive", "File Data"]

# functions that take an octet string first but are not decoders (not subject to C09/C10)
NOT_DECODERS = {
    "cfdp.conf.set_entity_ids": "stores two ID octet strings in a module table",
    "util.get_bin_data_string": "formats octets for printing", "util.get_dec_data_string": "formats octets for printing",
    "ecss.tc.generate_crc": "appends a CRC to given octets (encoder helper)", "ecss.tc.generate_packet_crc": "rewrites the CRC of a given packet (encoder helper)",
    "cfdp.tlv.tlv.FileStoreRequestBase._common_unpacker": "private helper, analysed through the two filestore TLV decoders",
    "uslp.header.PrimaryHeaderBase._unpack_raw_header_base_fields": "private helper, analysed through both USLP header decoders",
    "ccsds.spacepacket.__handle_packet_id_match": "private helper of parse_space_packets (analysed inline through the scan part of the parser)",
}


def all_tasks(tier):
    return [("group", g) for g in GROUPS] + [("pdu", k, i) for k in PDU_KINDS for i in range(len(PD.config_cases(tier)))]


def runs_for(P, tier, task):
    if task[0] == "group":
        return GROUPS[task[1]](P, tier)
    return g_pdu(P, tier, task[1], task[2])


def discover(P):
    """public decode-like functions by signature: first non-cls parameter annotated bytes/bytearray"""
    it = new_interp(P)
    out = []
    for fq, f in sorted(P.funcs.items()):
        if f.kind not in ("classmethod", "staticmethod", "function"):
            continue
        args = f.node.args.args
        if f.kind == "classmethod":
            args = args[1:]
        if not args:
            continue
        if it.ann_type(f.module, args[0].annotation) != "bytes":
            continue
        if f.short.split(".")[-1].startswith("_"):
            continue        # private helper: not an entry point; it is analysed inline wherever a public decoder calls it
        out.append(f.short)
    return out
