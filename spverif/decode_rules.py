"""Extent / escape rules over the read and raise logs of the GTI.

X-BUF   every index / closed slice / struct.unpack on a byte buffer is inside the buffer (facts entail it)
X-DECL  every read of the entry buffer ends at or before the declared length N
E-ESC   every exception that can leave a decoder is in its documented set
X-IND   the decoded object does not depend on len(buffer) or on an open-ended slice of it
"""
from __future__ import annotations

import struct

from .bits import buffer_pos
from .linear import entails, linearize, Lin, MAX_CASES
from .terms import T, C, sym, show, binop, un, truthy, is_const, length, NONE, subterms, TRUE, FALSE


# ---------------------------------------------------------------------------- slice-length axioms
_SLA_CACHE = {}
_FA_CACHE = {}


def _direct_slice_lens(t):
    r = _SLA_CACHE.get(t)
    if r is None:
        r = tuple(s for s in subterms(t) if s.k == "un" and s.a[0] == "len" and s.a[1].k == "slice")
        if len(_SLA_CACHE) > 200000:
            _SLA_CACHE.clear()
        _SLA_CACHE[t] = r
    return r


def _slice_len_atoms(terms):
    out = []
    seen = set()
    work = list(terms)
    while work:
        t = work.pop()
        for s in _direct_slice_lens(t):
            if s not in seen:
                seen.add(s)
                out.append(s)
                sl = s.a[1]
                work.append(length(sl.a[0]))
                work.append(sl.a[1])
                work.append(sl.a[2])
    return out


def slice_axiom(s):
    """boolean term describing S = len(b[lo:hi]) exactly (Python clamping), for non-negative lo"""
    sl = s.a[1]
    b, lo, hi = sl.a
    L = length(b)
    ge, lt, le, gt, eq = (lambda x, y: binop(">=", x, y)), (lambda x, y: binop("<", x, y)), \
        (lambda x, y: binop("<=", x, y)), (lambda x, y: binop(">", x, y)), (lambda x, y: binop("==", x, y))
    AND = lambda *xs: _conj(xs)
    OR = lambda *xs: _disj(xs)
    if lo.k == "const" and isinstance(lo.a[0], int) and lo.a[0] < 0:
        k = -lo.a[0]
        if is_const(hi, None):
            return OR(AND(ge(L, C(k)), eq(s, C(k))), AND(lt(L, C(k)), eq(s, L)))
        return ge(s, C(0))
    if is_const(hi, None):
        return OR(AND(ge(L, lo), eq(s, binop("-", L, lo))), AND(lt(L, lo), eq(s, C(0))))
    if hi.k == "const" and isinstance(hi.a[0], int) and hi.a[0] < 0:
        eff = binop("-", L, C(-hi.a[0]))
        return OR(AND(ge(eff, lo), eq(s, binop("-", eff, lo))), AND(lt(eff, lo), eq(s, C(0))))
    return OR(AND(le(hi, L), ge(hi, lo), eq(s, binop("-", hi, lo))),
              AND(le(hi, L), lt(hi, lo), eq(s, C(0))),
              AND(gt(hi, L), ge(L, lo), eq(s, binop("-", L, lo))),
              AND(gt(hi, L), lt(L, lo), eq(s, C(0))))


def _octet_leaves(t):
    """(set of (root, index) octet atoms, has_other_leaf) of a term"""
    octs, other = set(), False
    stack = [t]
    while stack:
        x = stack.pop()
        if not isinstance(x, T):
            if isinstance(x, tuple):
                stack.extend(x)
            continue
        if x.k == "idx" and x.a[0].k == "sym" and x.a[1].k == "const" and isinstance(x.a[1].a[0], int) and x.a[1].a[0] >= 0:
            octs.add((x.a[0].a[0], x.a[1].a[0]))
            continue
        if x.k in ("sym", "obj", "call", "unpacked", "slice", "bcat", "crc16v") or (x.k == "un" and x.a[0] == "len"):
            other = True
            continue
        if x.k == "const":
            continue
        stack.extend(a for a in x.a if isinstance(a, (T, tuple)))
    return octs, other


def _canon_octet_terms(t, _memo=None):
    """rewrite every integer sub-term whose bits all come from ONE input octet (whatever route they took: a wider
    struct.unpack word, shifts, masks, divmod) into an expression over that octet, so that differently spelled tests of
    the same bits meet in the single-octet enumeration"""
    from .bits import norm_bits, BitCtx
    from .terms import mapterm
    if _memo is None:
        _memo = {}

    def f(x):
        if not isinstance(x, T) or x.ty == "bool" or x.k not in ("op", "unpacked", "un") or (x.k == "op" and x.a[0] not in (">>", "<<", "&", "|")):
            return x
        if x in _memo:
            return _memo[x]
        r = x
        try:
            bv = norm_bits(x, BitCtx())
        except Exception:
            bv = None
        if bv is not None and bv.ext == 0 and len(bv.bits) <= 64:
            src = {(b[1], b[2]) for b in bv.bits if isinstance(b, tuple) and b[0] == "d"}
            plain = all(b in (0, 1) or (isinstance(b, tuple) and b[0] == "d" and isinstance(b[2], int)) for b in bv.bits)
            if plain and len(src) == 1:
                (root, k), = src
                oct_ = T("idx", sym(root, ty="bytes"), C(k), ty="int")
                acc = C(0)
                for i, b in enumerate(bv.bits):
                    if b == 1:
                        acc = binop("|", acc, C(1 << i))
                    elif isinstance(b, tuple):
                        acc = binop("|", acc, binop("<<", binop("&", binop(">>", oct_, C(b[3])), C(1)), C(i)))
                r = acc
        _memo[x] = r
        return r
    return mapterm(f, t)


def single_octet_entails(facts, goal):
    """Bit-level entailment by enumeration: when the goal speaks about one octet of the input only, it is decided over
    all 256 values of that octet against the facts that speak about that octet only (dropping the other facts is sound
    for proving).  Covers equivalent spellings of a mask/shift/divmod test that the linear procedure sees as
    unrelated atoms."""
    from .terms import evaluate, EvalError
    memo = {}
    goal = _canon_octet_terms(goal, memo)
    go, other = _octet_leaves(goal)
    if other or len(go) != 1:
        return False
    (root, k), = go
    sel = []
    for f in facts:
        f = _canon_octet_terms(f, memo)
        fo, oth = _octet_leaves(f)
        if not oth and fo == go:
            sel.append(f)
    if not sel:
        return False
    for v in range(256):
        env = {root: bytes(k) + bytes([v])}
        try:
            if all(bool(evaluate(f, env)) for f in sel) and not bool(evaluate(goal, env)):
                return False
        except EvalError:
            return False
        except Exception:
            return False
    return True


def single_octet_failures(facts, goal):
    """[(octet value, octet atom)] for which the facts about that octet hold and the single-octet goal fails"""
    from .terms import evaluate
    go, other = _octet_leaves(goal)
    if other or len(go) != 1:
        return []
    (root, k), = go
    sel = [f for f in facts if _octet_leaves(f) == (go, False)]
    atom = T("idx", sym(root, ty="bytes"), C(k), ty="int")
    out = []
    for v in range(256):
        env = {root: bytes(k) + bytes([v])}
        try:
            if all(bool(evaluate(f, env)) for f in sel) and not bool(evaluate(goal, env)):
                out.append((v, atom))
        except Exception:
            return []
    return out


def mod_axioms(facts):
    """(A % c) == 0 with a positive constant c: A is a multiple of c, so A <= 0 or A >= c (the only consequence the
    linear procedure can use; it is what makes `remaining % record_size == 0` and `remaining > 0` give one whole record)"""
    out = []
    for f in facts:
        if f.k == "op" and f.a[0] == "==":
            for a, b in ((f.a[1], f.a[2]), (f.a[2], f.a[1])):
                if is_const(b, 0) and a.k == "op" and a.a[0] == "%" and a.a[2].k == "const" and isinstance(a.a[2].a[0], int) and a.a[2].a[0] > 0:
                    ax = binop("or", binop("<=", a.a[1], C(0)), binop(">=", a.a[1], a.a[2]))
                    if ax not in facts and ax not in out:
                        out.append(ax)
                # the same guard after `% 2^k` has been normalised to `& (2^k - 1)`
                if is_const(b, 0) and a.k == "op" and a.a[0] == "&" and a.a[2].k == "const" and isinstance(a.a[2].a[0], int) and a.a[2].a[0] > 0 \
                        and ((a.a[2].a[0] + 1) & a.a[2].a[0]) == 0:
                    ax = binop("or", binop("<=", a.a[1], C(0)), binop(">=", a.a[1], C(a.a[2].a[0] + 1)))
                    if ax not in facts and ax not in out:
                        out.append(ax)
    return out


def _conj(xs):
    r = None
    for x in xs:
        r = x if r is None else T("op", "and", r, x, ty="bool")
    return r


def _disj(xs):
    r = None
    for x in xs:
        r = x if r is None else T("op", "or", r, x, ty="bool")
    return r


# ---------------------------------------------------------------------------- relevance filter
def fact_atoms(t):
    """atoms of the linear literals of a boolean term"""
    r = _FA_CACHE.get(t)
    if r is None:
        r = frozenset(_fact_atoms(t))
        if len(_FA_CACHE) > 200000:
            _FA_CACHE.clear()
        _FA_CACHE[t] = r
    return r


def _fact_atoms(t):
    t = truthy(t)
    out = set()
    stack = [t]
    while stack:
        x = stack.pop()
        if x.k == "op" and x.a[0] in ("and", "or"):
            stack += [x.a[1], x.a[2]]
        elif x.k == "un" and x.a[0] in ("not", "bool"):
            stack.append(x.a[1])
        elif x.k == "gamma":
            stack += list(x.a)
        elif x.k == "op" and x.a[0] in ("==", "!=", "<", "<=", ">", ">=", "in", "notin"):
            for side in (x.a[1], x.a[2]):
                if side.k in ("tuple", "list"):
                    for i in side.a[0]:
                        out |= linearize(i).atoms()
                else:
                    out |= linearize(side).atoms()
        elif x.k != "const":
            out.add(x)
    # slice-length atoms are tied to their bounds and to the length of their base by the slice axioms
    work = list(out)
    while work:
        a = work.pop()
        if a.k == "un" and a.a[0] == "len" and a.a[1].k == "slice":
            sl = a.a[1]
            more = set()
            for part in (sl.a[1], sl.a[2]):
                if not is_const(part, None):
                    more |= linearize(part).atoms()
            more |= linearize(length(sl.a[0])).atoms()
            for m in more:
                if m not in out:
                    out.add(m)
                    work.append(m)
        elif a.k == "gamma" and a.ty == "int":
            # a gated integer (max()/min()/conditional expression) is tied to the atoms of its gate and alternatives
            more = set(_fact_atoms(a.a[0])) | linearize(a.a[1]).atoms() | linearize(a.a[2]).atoms()
            for m in more:
                if m not in out and m is not a:
                    out.add(m)
                    work.append(m)
    return out


def relevant(facts, goal, max_rounds=6):
    """facts connected to the goal through shared atoms (dropping facts is sound for proving)"""
    atoms = set(fact_atoms(goal))
    fa = [(f, fact_atoms(f)) for f in facts]
    chosen = [False] * len(fa)
    for _ in range(max_rounds):
        changed = False
        for i, (f, a) in enumerate(fa):
            if not chosen[i] and (a & atoms):
                chosen[i] = True
                atoms |= a
                changed = True
        if not changed:
            break
    return [f for (f, _a), c in zip(fa, chosen) if c]


_IN_SIMPLIFY = [0]


def _needs_simplify(goal):
    for s_ in subterms(goal):
        if s_.k == "slice" and s_.a[0].k == "slice":
            return True
        if s_.k == "gamma" and s_.a[0].k == "un" and s_.a[0].a[0] == "bool":
            return True
    return False


def contradictory(facts):
    """syntactic check: some fact and its negation are both present (dead path)"""
    fs = set(facts)
    for f in facts:
        if un("not", f) in fs:
            return True
        if f.k == "op" and f.a[0] == "and":
            # a conjunction whose conjunct's negation is a fact
            stack = [f]
            while stack:
                x = stack.pop()
                if x.k == "op" and x.a[0] == "and":
                    stack += [x.a[1], x.a[2]]
                elif un("not", x) in fs:
                    return True
    return False


def in_loop(r):
    """does a read / raise record depend on a loop-summary symbol (its index is a havocked loop variable)?"""
    def has(t):
        return any(s.k == "sym" and isinstance(s.a[0], str) and s.a[0].startswith(("loop(", "after(", "elem(", "try(", "pop", "popleft"))
                   for s in subterms(t))
    for key in ("buf", "lo", "hi"):
        v = r.get(key)
        if isinstance(v, T) and has(v):
            return True
    return False


def prove(facts, goal, max_cases=None, _lazy=False, _depth=0, _fsplit=0, _universe=None):
    """entailment with slice-length axioms and relevance filtering.
    -> ('proved'|'refutable'|'unknown', model-or-reason)"""
    if max_cases is not None:
        from . import linear as _lin
        old = _lin.MAX_CASES
        _lin.MAX_CASES = max_cases
        try:
            return prove(facts, goal, _lazy=_lazy, _depth=_depth, _fsplit=_fsplit, _universe=_universe)
        finally:
            _lin.MAX_CASES = old
    facts = [truthy(f) for f in facts]
    if _universe is None:
        _universe = facts       # a concrete witness has to satisfy all of these, whatever subset a sub-proof works with
        if _depth == 0 and _fsplit == 0 and single_octet_entails(facts, goal):
            return "proved", None
    if contradictory(facts):
        return "proved", None
    if _depth == 0 and _fsplit == 0 and not _lazy:
        # first on the terms as they are: a goal that shares its atoms literally with the facts (len(X) != 0 |- 0 < len(X),
        # whatever X looks like inside) needs no case split and no normalisation, and those can only lose the literal match
        try:
            rel0 = relevant(facts, goal, max_rounds=2)
            if rel0 and len(rel0) <= 12:
                st0, _m0 = entails(rel0, goal)
                if st0 == "proved":
                    return "proved", None
        except Exception as e_:  # noqa: BLE001 - the ordinary route decides
            from .linear import ProofBudgetExceeded as _PBE
            if isinstance(e_, _PBE):
                raise
    if _depth < 5:
        # case split on a gated sub-term of the goal: under its condition the gate is its first alternative,
        # under the negation its second (also inside the facts); removes opaque gamma atoms from the linear problem
        gm = None
        for s_ in subterms(goal):
            if s_.k == "gamma" and s_ is not goal:
                gm = s_
                break
        if gm is not None:
            from .terms import substitute
            res = []
            for cond, alt in ((gm.a[0], gm.a[1]), (un("not", gm.a[0]), gm.a[2])):
                m_ = {gm: alt}
                f2 = [truthy(substitute(f, m_)) if any(x is gm or x == gm for x in subterms(f)) else f for f in facts] + [truthy(cond)]
                if any(f.k == "const" and not f.a[0] for f in f2):
                    res.append(("proved", None))
                    continue
                f2 = [f for f in f2 if f.k != "const"]
                res.append(prove(f2, substitute(goal, m_), _lazy=False, _depth=_depth + 1, _fsplit=_fsplit))
            if all(r[0] == "proved" for r in res):
                return "proved", None
            for r in res:
                if r[0] == "refutable":
                    return r
            return [r for r in res if r[0] != "proved"][0]
    if not _IN_SIMPLIFY[0] and not _lazy and (_needs_simplify(goal) or any(_needs_simplify(f) for f in facts)):
        # first try with the goal normalised only; normalise the facts as well only if that does not prove it
        cache = {}
        _IN_SIMPLIFY[0] += 1
        try:
            g2 = simplify(simplify(goal, facts, cache), facts, cache) if _needs_simplify(goal) else goal
        finally:
            _IN_SIMPLIFY[0] -= 1
        if g2.k == "const":
            return ("proved", None) if g2.a[0] else ("unknown", "goal simplifies to False")
        st, m = prove(facts, g2, _lazy=True, _depth=9, _fsplit=_fsplit, _universe=_universe)
        if st == "proved" or not any(_needs_simplify(f) for f in facts):
            return st, m
        _IN_SIMPLIFY[0] += 1
        try:
            f2 = []
            for f in relevant(facts, g2, max_rounds=3):
                if _needs_simplify(f):
                    f = truthy(simplify(simplify(f, facts, cache), facts, cache))
                    if f.k == "const":
                        if not f.a[0]:
                            return "proved", None
                        continue
                f2.append(f)
        finally:
            _IN_SIMPLIFY[0] -= 1
        return prove(f2, g2, _lazy=True, _depth=9, _fsplit=_fsplit, _universe=_universe)
    maxs = mod_axioms(facts)
    if maxs:
        facts = facts + maxs
    rel = relevant(facts, goal)
    ax = [slice_axiom(s) for s in _slice_len_atoms(rel + [goal])]
    # axioms may connect further facts
    rel2 = relevant(facts, _conj([goal] + ax) if ax else goal)
    if goal.k == "const" and not goal.a[0]:
        rel2 = list(facts)      # a feasibility question: every fact is relevant
    ax = [slice_axiom(s) for s in _slice_len_atoms(rel2 + [goal])]
    st, m = entails(rel2 + ax, goal)
    if st != "proved" and _fsplit < 3:
        # an integer gate inside a relevant fact (max()/min()/conditional expression) is an opaque atom for the
        # linear problem: split on its condition as for a gate in the goal
        gm = None
        for f in rel2:
            for s_ in subterms(f):
                if s_.k == "gamma" and s_ is not f and s_.ty == "int" and not (s_.a[0].k == "un" and s_.a[0].a[0] == "bool"):
                    gm = s_
                    break
            if gm is not None:
                break
        if gm is not None:
            from .terms import substitute
            res = []
            for cond, alt in ((gm.a[0], gm.a[1]), (un("not", gm.a[0]), gm.a[2])):
                m_ = {gm: alt}
                f2 = [truthy(substitute(f, m_)) if any(x is gm or x == gm for x in subterms(f)) else f for f in facts] + [truthy(cond)]
                if any(f.k == "const" and not f.a[0] for f in f2):
                    res.append(("proved", None))
                    continue
                f2 = [f for f in f2 if f.k != "const"]
                res.append(prove(f2, goal, _lazy=True, _depth=9, _fsplit=_fsplit + 1))
            if all(r[0] == "proved" for r in res):
                return "proved", None
            for r in res:
                if r[0] == "refutable":
                    return r
            return [r for r in res if r[0] != "proved"][0]
    if st == "refutable" and len(rel2) != len(facts):
        # confirm against the full fact set when that is affordable; the dropped facts share no atom
        st2, m2 = entails(facts + ax, goal)
        if st2 == "proved":
            return st2, m2
        if st2 == "refutable":
            m = m2
        else:
            # the full set holds literals the linear abstraction cannot express; a model of the expressible ones
            # still gives the realiser values for the symbols the goal does not mention
            from .linear import to_dnf, DROPPED, TooManyCases
            lin = []
            for f in facts:
                DROPPED[0] = 0
                try:
                    to_dnf(f)
                except TooManyCases:
                    continue
                except Exception:
                    continue
                if not DROPPED[0]:
                    lin.append(f)
            DROPPED[0] = 0
            if len(lin) > len(rel2):
                st3, m3 = entails(lin + ax, goal)
                if st3 == "proved":
                    return st3, m3
                if st3 == "refutable":
                    m = m3
    if st == "refutable" and any(s_.k == "sym" and isinstance(s_.a[0], str) and s_.a[0].startswith(("loop(", "after(", "elem(", "try(", "pop", "caught"))
                                for t_ in [goal] + list(rel2) for s_ in subterms(t_)):
        # a summarised loop variable is not an input: no witness can be built from it
        return "unknown", "counter-model involves a summarised loop variable (no inductive invariant inferred)"
    if st == "refutable":
        # a REFUTED verdict needs a concrete input: every evaluable fact true, goal false
        uni = _universe if len(_universe) >= len(facts) else facts
        env = realise(uni, goal, m)
        if env is None:
            # a goal about one octet: try the octet values that falsify it under the octet's own facts
            for v_, atom_ in single_octet_failures(uni, goal)[:8]:
                m2 = dict(m or {})
                m2[atom_] = v_
                env = realise(uni, goal, m2)
                if env is not None:
                    break
        if env is None:
            return "unknown", "counter-model of the linear abstraction could not be realised by a concrete input: " + \
                   ", ".join(f"{show(k)[:30]}={v}" for k, v in list(m.items())[:5])
        return "refutable", {sym(k): (v.hex() if isinstance(v, (bytes, bytearray)) else v) for k, v in env.items()}
    return st, m


def feasible(facts):
    """can all facts hold together?  -> False only if proven contradictory"""
    st, _m = prove(facts, FALSE)
    return st != "proved"


# ---------------------------------------------------------------------------- reads
def read_root(r):
    """-> (root sym, absolute lo Lin, absolute hi Lin or None) of a logged read, or None"""
    buf = r["buf"]
    kind = r["kind"]
    if kind == "idx":
        p = buffer_pos(buf, linearize(r["lo"]))
        if p is None:
            return None
        return p[0], p[1], p[1] + Lin({}, 1)
    if kind == "slice":
        p = buffer_pos(buf, linearize(r["lo"]))
        if p is None:
            return None
        hi = r["hi"]
        if is_const(hi, None):
            return p[0], p[1], None
        q = buffer_pos(buf, linearize(hi))
        return p[0], p[1], q[1]
    if kind == "unpack":
        p = buffer_pos(buf, Lin({}, 0))
        if p is None:
            return None
        n = r["hi"].a[0]
        return p[0], p[1], p[1] + Lin({}, n)
    return None


def enclosing_bounds(r):
    """absolute end positions of the closed slices a read goes through (outermost last)"""
    out = []
    q = r["buf"]
    while q.k == "bcat" and len(q.a[0]) == 1 and q.a[0][0].k == "bytes":
        q = q.a[0][0].a[0]
    while q.k == "slice":
        if not is_const(q.a[2], None):
            p = buffer_pos(q.a[0], linearize(q.a[2]))
            if p is not None:
                out.append(p[1])
        q = q.a[0]
    return out


def lin_term(l: Lin):
    t = C(l.c)
    for a, v in sorted(l.co.items(), key=lambda kv: show(kv[0])):
        t = binop("+", t, a if v == 1 else binop("*", C(v), a))
    return t


def is_bytes_buffer(buf):
    if buf.k == "slice":
        return True
    if buf.k == "sym" and buf.ty in ("bytes", "bytearray"):
        return True
    return buffer_pos(buf, Lin({}, 0)) is not None and buf.ty in ("bytes", "bytearray", None) and buf.k != "sym"


def xbuf_goal(r):
    """the in-bounds requirement of one read as a boolean term (None = nothing to prove)"""
    buf, kind = r["buf"], r["kind"]
    L = length(buf)
    if kind == "idx":
        i = r["lo"]
        if i.k == "const" and isinstance(i.a[0], int) and i.a[0] < 0:
            return binop(">=", L, C(-i.a[0]))
        return binop("and", binop(">=", i, C(0)), binop("<", i, L))
    if kind == "slice":
        hi = r["hi"]
        if is_const(hi, None):
            return None
        if hi.k == "const" and isinstance(hi.a[0], int) and hi.a[0] < 0:
            return None
        return binop("<=", hi, L)
    if kind == "unpack":
        return binop("==", L, r["hi"])
    return None


import os as _os
# wall-clock budget of one entailment search; the thorough tier searches longer (set by the CLI through the environment,
# so that worker processes see it too)
PROOF_BUDGET_S = float(_os.environ.get("SPVERIF_PROOF_BUDGET", "4") or 4)


# work units (constraint rows given to the elimination procedure) that correspond to one second of search on the
# machine the budgets were chosen on; the budget itself is counted in these units so that verdicts do not depend on load
OPS_PER_BUDGET_SECOND = int(_os.environ.get("SPVERIF_OPS_PER_SECOND", "60000") or 60000)


def budgeted_prove(facts, goal, max_cases=None, budget=None):
    """prove() under a deterministic work budget; -> ('budget', reason) when exceeded"""
    from . import linear as _lin
    from .linear import ProofBudgetExceeded
    old = _lin.OPS_LEFT[0]
    units = int((budget or PROOF_BUDGET_S) * OPS_PER_BUDGET_SECOND)
    _lin.OPS_LEFT[0] = units if old is None else min(old, units)
    start = _lin.OPS_DONE[0]
    try:
        return prove(facts, goal, max_cases=max_cases)
    except ProofBudgetExceeded:
        _IN_SIMPLIFY[0] = 0
        return "budget", f"proof search exceeded its budget of {units} work units"
    finally:
        if old is not None:
            old -= _lin.OPS_DONE[0] - start
        _lin.OPS_LEFT[0] = old


def check_xbuf(ck, it, func, rule="X-BUF", roots=None, skip_funcs=(), strict_slices=False, only_funcs=None):
    """every index / struct.unpack on a byte buffer is proven in bounds (IndexError / struct.error cannot
    occur).  A slice never raises - Python clamps it - so plain slices are only checked when strict_slices is
    set; what a clamped slice would mean for the decoded value is the business of the extent rules
    (W-UNPACK extents, X-DECL, X-IND).  Returns number of reads checked."""
    n = 0
    seen = set()
    for r in it.reads:
        if not is_bytes_buffer(r["buf"]):
            continue
        if r["kind"] == "slice" and not strict_slices:
            continue
        if roots is not None:
            rr = read_root(r)
            if rr is None or rr[0].a[0] not in roots:
                continue
        if r["func"].split(".")[-1] in skip_funcs:
            continue
        if only_funcs is not None and r["func"].split(".")[-1] not in only_funcs:
            continue
        g = xbuf_goal(r)
        if g is None:
            continue
        key = (r["func"], r["text"], show(g))
        if key in seen:
            continue
        seen.add(key)
        n += 1
        exc = "struct.error" if r["kind"] == "unpack" else ("IndexError" if r["kind"] == "idx" else "silent truncation")
        cons = f"read `{r['text'][:70]}` in {r['func']} stays inside the buffer"
        st, m = budgeted_prove(r["facts"], g, max_cases=12 if in_loop(r) else None)
        if st == "budget":
            ck.assume(rule, func, cons, str(m))
            continue
        if st == "proved":
            ck.proved(rule, func, cons, f"guards entail {show(g)[:120]}")
        elif st == "refutable":
            ck.refuted(rule, func, cons, f"{exc}: guards {[show(f)[:50] for f in relevant(r['facts'], g)][-4:]} admit "
                       f"{{{', '.join(f'{show(k)[:40]}={v}' for k, v in list(m.items())[:6])}}} which violates {show(g)[:100]} "
                       f"(call path {'>'.join(r['stack'][-3:])})", witness=m)
        elif in_loop(r):
            ck.assume(rule, func, cons, f"read inside a summarised loop; no inductive invariant is inferred for its index ({str(m)[:80]})")
        else:
            ck.unknown(rule, func, cons, f"cannot decide {show(g)[:100]}: {m}")
    return n


def check_xdecl(ck, it, func, root, N, rule="X-DECL", extra_facts=(), skip=lambda r: False):
    """every read of the entry buffer `root` ends at or before N (a term).  Open slices are not reads."""
    n = 0
    seen = set()
    for r in it.reads:
        rr = read_root(r)
        if rr is None or rr[0].a[0] != root:
            continue
        if rr[2] is None or skip(r):
            continue
        hi = lin_term(rr[2])
        g = binop("<=", hi, N)
        key = (r["func"], r["text"], show(g))
        if key in seen:
            continue
        seen.add(key)
        n += 1
        cons = f"read `{r['text'][:70]}` in {r['func']} ends inside the declared length"
        fs = list(r["facts"]) + list(extra_facts)
        # a read through a closed slice cannot reach beyond that slice: it is enough that one enclosing closed slice
        # ends inside the declared length (cheap, and independent of any loop index)
        st, m = "unknown", None
        for bound in enclosing_bounds(r):
            st2, m2 = budgeted_prove(fs, binop("<=", lin_term(bound), N), max_cases=12 if in_loop(r) else None)
            if st2 == "proved":
                st, m, hi = st2, m2, lin_term(bound)
                break
        if st != "proved":
            st, m = budgeted_prove(fs, g, max_cases=12 if in_loop(r) else None)
            if st == "budget":
                ck.assume(rule, func, cons, str(m))
                continue
        if st == "proved":
            ck.proved(rule, func, cons, f"{show(hi)[:80]} <= {show(N)[:60]}")
        elif st == "refutable":
            ck.refuted(rule, func, cons, f"octets up to {show(hi)[:80]} are read although the unit declares {show(N)[:60]} "
                       f"(model {{{', '.join(f'{show(k)[:40]}={v}' for k, v in list(m.items())[:6])}}})", witness=m)
        elif in_loop(r):
            ck.assume(rule, func, cons, f"read inside a summarised loop; no inductive invariant is inferred for its index ({str(m)[:80]})")
        else:
            ck.unknown(rule, func, cons, f"cannot decide {show(g)[:120]}: {m}")
    return n


# ---------------------------------------------------------------------------- escape set
DEFAULT_OK = ("ValueError",)


def check_escape(ck, it, func, allowed=DEFAULT_OK, rule="E-ESC", ignore_kinds=()):
    """every uncaught raise that is feasible must be an allowed class"""
    n = 0
    seen = set()
    for r in it.raises:
        if r["caught"] or r["kind"] in ignore_kinds:
            continue
        exc = r["exc"]
        key = (r["func"], r["text"], exc)
        if key in seen:
            continue
        seen.add(key)
        n += 1
        short = exc.split(".")[-1] if exc in it.P.classes else exc
        cons = f"`{r['text'][:70]}` in {r['func']} raises a documented class"
        if it.exc_matches(exc, allowed):
            ck.proved(rule, func, cons, f"{short} is in the documented set", nontrivial=False)
            continue
        st_, m_ = budgeted_prove(r["facts"], FALSE)
        if st_ == "proved":
            ck.proved(rule, func, cons, f"{short} unreachable: path condition contradictory")
            continue
        if r["kind"] in ("attr", "key") and st_ != "refutable":
            # a modelled may-raise operation (attribute of a possibly-None value, dictionary lookup) on a path that is
            # neither proven dead nor shown alive by a concrete input: undecided, not a violation
            ck.unknown(rule, func, cons, f"{short} (kind {r['kind']}) on a path whose feasibility is not decided: {str(m_)[:120]}")
            continue
        wit = f" (input {{{', '.join(f'{show(k)[:30]}={v}' for k, v in list(m_.items())[:5])}}})" if st_ == "refutable" and isinstance(m_, dict) else ""
        ck.refuted(rule, func, cons, f"{short} can escape (kind {r['kind']}, call path {'>'.join(r['stack'][-3:])}){wit}; "
                   f"documented: {', '.join(a.split('.')[-1] for a in allowed)}", witness=m_ if st_ == "refutable" and isinstance(m_, dict) else None)
    return n


# ---------------------------------------------------------------------------- independence from len(buffer)
def mentions_len_or_open(t, root):
    """sub-terms of t that make it depend on the length of the entry buffer"""
    bad = []

    def unbounded_view(p):
        """is p the entry buffer itself or a chain of open slices of it?"""
        q = p
        while q.k == "slice":
            if not is_const(q.a[2], None):
                return False     # a closed slice bounds everything inside it
            q = q.a[0]
        if q.k == "bcat" and len(q.a[0]) == 1 and q.a[0][0].k == "bytes":
            return unbounded_view(q.a[0][0].a[0])
        return q.k == "sym" and q.a[0] == root

    def walk(x, consumed):
        if not isinstance(x, T):
            if isinstance(x, (tuple, list)):
                for y in x:
                    walk(y, False)
            return
        if x.k == "un" and x.a[0] == "len":
            if unbounded_view(x.a[1]):
                bad.append(x)
                return
            walk(x.a[1], True)
            return
        if x.k == "idx":
            walk(x.a[0], True)
            walk(x.a[1], False)
            return
        if x.k == "slice":
            closed = not is_const(x.a[2], None)
            if not closed and not consumed and unbounded_view(x):
                bad.append(x)
                return
            walk(x.a[0], True)
            walk(x.a[1], False)
            walk(x.a[2], False)
            return
        if x.k == "unpacked":
            walk(x.a[1], True)
            return
        if x.k == "sym":
            if x.a[0] == root and not consumed:
                bad.append(x)
            return
        for y in x.a:
            walk(y, False)

    walk(t, False)
    return bad


def reachable_cells(it, env, obj, limit=400):
    """(path, term) for every heap cell reachable from obj"""
    out = []
    seen = set()
    work = [("", obj)]
    while work and len(out) < limit:
        path, v = work.pop()
        if not isinstance(v, T):
            continue
        if v.k == "obj":
            if v.a[0] in seen:
                continue
            seen.add(v.a[0])
            for (oid, attr), val in list(env.heap.items()):
                if oid == v.a[0]:
                    work.append((f"{path}.{attr}", val))
        elif v.k == "gamma":
            out.append((path + "?", v.a[0]))
            work.append((path, v.a[1]))
            work.append((path, v.a[2]))
        elif v.k in ("tuple", "list"):
            for i, x in enumerate(v.a[0]):
                work.append((f"{path}[{i}]", x))
        else:
            out.append((path, v))
    return out


def check_independent(ck, it, env, result, root, func, rule="X-IND", allow=lambda path, t: False):
    """no reachable cell of the decoded object mentions len(root) or an open slice of root"""
    cells = reachable_cells(it, env, result)
    probs = []
    for path, t in cells:
        bad = mentions_len_or_open(t, root)
        if bad and not allow(path, t):
            probs.append(f"{path.lstrip('.')} = {show(t)[:100]} depends on {show(bad[0])[:60]}")
    cons = f"decoded object is a function of the declared octets only (no len({root}), no open slice of {root})"
    if probs:
        ck.refuted(rule, func, cons, "; ".join(probs[:3]))
    else:
        ck.proved(rule, func, cons, f"{len(cells)} reachable cells inspected")
    return len(cells)


# ---------------------------------------------------------------------------- CRC verification (P-MUST)
def _crc_extent(t, root):
    """t = crc16v(slice(root, lo, hi)) -> (lo Lin, hi Lin or None) else None"""
    if t.k != "crc16v":
        return None
    a = t.a[0]
    while a.k == "bcat" and len(a.a[0]) == 1 and a.a[0][0].k == "bytes":
        a = a.a[0][0].a[0]
    if a.k == "sym" and a.a[0] == root:
        return Lin({}, 0), None
    if a.k == "slice" and a.a[0].k == "sym" and a.a[0].a[0] == root:
        return linearize(a.a[1]), (None if is_const(a.a[2], None) else linearize(a.a[2]))
    return None


def crc_facts(facts, root, positive=True):
    """extents [lo,hi) for which `crc16(root[lo:hi]) == 0` (positive) / `!= 0` (negative) is among the facts"""
    out = []
    for f in facts:
        f = truthy(f)
        if f.k == "op" and f.a[0] in ("==", "!="):
            for p, q in ((f.a[1], f.a[2]), (f.a[2], f.a[1])):
                if is_const(q, 0) or is_const(q, False):
                    e = _crc_extent(p, root)
                    if e is not None and (f.a[0] == "==") == positive:
                        out.append(e)
                    continue
                # crc16(root[lo:mid]) == (big-endian word at root[mid:mid+2]): for a CRC without final XOR this is the
                # same condition as crc16(root[lo:mid+2]) == 0 (the register after the two trailer octets is a bijective
                # linear image of crc XOR trailer)
                e = _crc_extent(p, root)
                if e is None or e[1] is None:
                    continue
                lq = linearize(q)
                if not (lq.c == 0 and len(lq.co) == 1 and next(iter(lq.co)).k == "unpacked"):
                    # octets of the trailer seen through a slice: the octets of the buffer, then one big-endian word
                    try:
                        lq = linearize(simplify(simplify(q, facts), facts))
                    except Exception:  # noqa: BLE001
                        pass
                if lq.c == 0 and len(lq.co) == 1:
                    (at_, cf_), = lq.co.items()
                    if cf_ == 1 and at_.k == "unpacked" and at_.a[0].lstrip("!>") == "H" and at_.a[1].k == "slice" and at_.a[1].a[0].k == "sym" \
                            and at_.a[1].a[0].a[0] == root and not is_const(at_.a[1].a[2], None):
                        wlo, whi = linearize(at_.a[1].a[1]), linearize(at_.a[1].a[2])
                        if wlo.key() == e[1].key() and (whi - wlo).key() == Lin({}, 2).key() and (f.a[0] == "==") == positive:
                            out.append((e[0], whi))
        elif f.k == "un" and f.a[0] in ("bool", "not") and f.a[1].k == "crc16v":
            e = _crc_extent(f.a[1], root)
            # bool(crc) true = non-zero ; not(crc) = zero
            if e is not None and (f.a[0] == "not") == positive:
                out.append(e)
    return out


def check_crc_verified(ck, it, env, func, root, lo: Lin, hi: Lin, exc_qual, rule="P-MUST", cond=None):
    """every normal return knows crc16(root[lo:hi]) == 0, and the failing branch raises exc_qual"""
    cons = f"normal return implies CRC16({root}[{lo!r}:{hi!r}]) == 0"
    got = crc_facts(env.facts, root, True)
    ok = any(l.key() == lo.key() and h is not None and h.key() == hi.key() for l, h in got)
    if ok:
        ck.proved(rule, func, cons, "fact established on every path to the return")
    elif got:
        ck.refuted(rule, func, cons, f"the CRC is verified over {[(repr(l), repr(h) if h is not None else 'end') for l, h in got]} instead")
    else:
        ck.refuted(rule, func, cons, "no CRC verification dominates the normal return")
    short = exc_qual.split(".")[-1]
    cons2 = f"CRC mismatch over [{lo!r}:{hi!r}] raises {short}"
    hit = None
    for r in it.raises:
        if r["caught"] or r["kind"] != "explicit":
            continue
        neg = crc_facts(r["facts"], root, False)
        if any(l.key() == lo.key() and h is not None and h.key() == hi.key() for l, h in neg):
            hit = r
            break
    if hit is None:
        ck.refuted(rule, func, cons2, "no raise under a failed CRC comparison over that extent")
    elif it.exc_matches(hit["exc"], (P_qual(it, exc_qual),)):
        ck.proved(rule, func, cons2, f"`{hit['text'][:60]}`")
    else:
        ck.refuted(rule, func, cons2, f"raises {hit['exc']} instead")


def P_qual(it, short):
    from . import PKG
    return short if short.startswith(PKG + ".") or "." not in short else f"{PKG}.{short}"


# ---------------------------------------------------------------------------- simplification under facts
def simplify(t, facts, _cache=None):
    """Rewrite a decoded term using the guard facts:
       len(b[lo:hi])      -> hi - lo        when 0 <= lo <= hi <= len(b) is entailed
       b[a:b2][c:d]       -> b[a+c : a+d]   when the inner slice is proven unclamped and d <= b2 - a
       γ(bool(x), A, B)   -> A              when x is a byte string and A[len(x):=0] == B   (bool(x) <=> len(x) > 0)
    Sound rewrites only; anything not provable is left alone."""
    from .terms import mapterm, gamma, substitute
    cache = {} if _cache is None else _cache

    def proved(goal):
        k = show(goal)
        if k not in cache:
            cache[k] = prove(facts, goal)[0] == "proved"
        return cache[k]

    def proved_under(c, goal):
        k = ("under", show(c), show(goal))
        if k not in cache:
            cache[k] = prove(list(facts) + [truthy(c)], goal)[0] == "proved"
        return cache[k]

    def unclamped(sl):
        b, lo, hi = sl.a
        if is_const(hi, None):
            return False
        return proved(binop("and", binop("and", binop(">=", lo, C(0)), binop(">=", hi, lo)), binop("<=", hi, length(b))))

    def f(x):
        if x.k == "idx" and x.a[0].k in ("slice", "bcat"):
            # canonical form of an octet seen through slices: the octet of the root buffer (value-preserving
            # wherever the index is valid, which X-BUF decides separately)
            p = buffer_pos(x.a[0], linearize(x.a[1]))
            if p is not None and p[1].is_const() and p[1].c >= 0:
                return T("idx", p[0], C(p[1].c), ty="int")
            if p is not None and not p[1].is_const() and p[0].k == "sym":
                return T("idx", p[0], lin_term(p[1]), ty="int")
            return x
        if x.k == "slice" and not is_const(x.a[2], None) and linearize(x.a[1]).key() == linearize(x.a[2]).key():
            return C(b"")      # b[k:k] is empty whatever b is
        if x.k == "un" and x.a[0] == "bool" and x.a[1].k == "const":
            return C(bool(x.a[1].a[0]))
        if x.k == "un" and x.a[0] == "len" and x.a[1].k == "slice":
            sl = x.a[1]
            if unclamped(sl):
                return lin_term(linearize(sl.a[2]) - linearize(sl.a[1]))
            if is_const(sl.a[2], None) and proved(binop("and", binop(">=", sl.a[1], C(0)), binop("<=", sl.a[1], length(sl.a[0])))):
                return lin_term(linearize(length(sl.a[0])) - linearize(sl.a[1]))
            return x
        if x.k == "slice" and x.a[0].k == "slice":
            inner = x.a[0]
            a = inner.a[1]
            c, d = x.a[1], x.a[2]
            # negative bounds count from the end of the inner slice: exact when the inner slice is not clamped and the
            # bound does not reach before its start
            neg = [q for q in (c, d) if q.k == "const" and isinstance(q.a[0], int) and q.a[0] < 0]
            if neg and not is_const(inner.a[2], None) and unclamped(inner):
                ilen_l = linearize(inner.a[2]) - linearize(a)
                def fix(q):
                    if q.k == "const" and isinstance(q.a[0], int) and q.a[0] < 0:
                        nq = lin_term(ilen_l + Lin({}, q.a[0]))
                        return nq if proved(binop(">=", nq, C(0))) else None
                    return q
                c2, d2 = fix(c), fix(d)
                if c2 is not None and d2 is not None:
                    if is_const(d2, None):
                        return f(T("slice", inner, c2, lin_term(ilen_l), ty="bytes"))
                    return f(T("slice", inner, c2, d2, ty="bytes"))
            if is_const(inner.a[2], None):
                # open inner slice: positions simply shift (a <= len(b) needed for exactness of an open outer end)
                if not is_const(d, None):
                    return T("slice", inner.a[0], lin_term(linearize(a) + linearize(c)), lin_term(linearize(a) + linearize(d)), ty="bytes")
                return x
            if unclamped(inner) and not is_const(d, None):
                ilen = lin_term(linearize(inner.a[2]) - linearize(a))
                if proved(binop("and", binop(">=", c, C(0)), binop("<=", d, ilen))):
                    return T("slice", inner.a[0], lin_term(linearize(a) + linearize(c)), lin_term(linearize(a) + linearize(d)), ty="bytes")
            if unclamped(inner) and not is_const(d, None):
                ilen = lin_term(linearize(inner.a[2]) - linearize(a))
                if proved(binop("and", binop(">=", c, C(0)), binop(">=", d, ilen))):
                    # the outer end lies at or beyond the inner end: Python clamps it there
                    return T("slice", inner.a[0], lin_term(linearize(a) + linearize(c)), inner.a[2], ty="bytes")
            if unclamped(inner) and is_const(d, None) and proved(binop(">=", c, C(0))):
                # b[a:e][c:] == b[a+c:e] for an exact inner slice (both empty when a+c > e)
                return T("slice", inner.a[0], lin_term(linearize(a) + linearize(c)), inner.a[2], ty="bytes")
            return x
        if x.k == "gamma" and x.a[2].k == "const" and x.a[2].a[0] == 0 and x.a[2].a[0] is not False:
            # γ(v ? v : 0) and γ(v != 0 ? v : 0) are v
            g_ = x.a[0]
            v_ = g_.a[1] if (g_.k == "un" and g_.a[0] == "bool") else (g_.a[1] if (g_.k == "op" and g_.a[0] == "!=" and is_const(g_.a[2], 0)) else None)
            if v_ is not None and v_ == x.a[1]:
                return x.a[1]
        if x.k == "gamma" and x.ty == "int" and not (x.a[0].k == "un" and x.a[0].a[0] == "bool"):
            # integer alternatives that coincide wherever the gate holds: γ(c ? A : B) == B if c entails A == B
            # (an LV's packet length γ(L == 0 ? 1 : L + 1) is L + 1).  Inner gates equal to c are resolved first.
            from .terms import mapterm as _mt
            c = x.a[0]
            pick = lambda side: _mt(lambda y: (y.a[1] if side else y.a[2]) if (y.k == "gamma" and y.a[0] == c) else y, x.a[1] if side else x.a[2])
            A, B = pick(True), pick(False)
            if all(s_.k != "undef" for s_ in subterms(A)) and all(s_.k != "undef" for s_ in subterms(B)):
                la, lb = linearize(A), linearize(B)
                if la.key() == lb.key():
                    return B
                if proved_under(c, binop("==", A, B)):
                    return B
                if proved_under(un("not", c), binop("==", A, B)):
                    return A
                if A is not x.a[1] or B is not x.a[2]:
                    from .terms import gamma as _g
                    return _g(c, A, B)
            return x
        if x.k == "gamma" and x.a[0].k == "un" and x.a[0].a[0] == "bool":
            v = x.a[0].a[1]
            if v.k in ("slice", "bcat") or v.ty in ("bytes", "bytearray"):
                lv = f(length(v)) if length(v).k == "un" else length(v)
                A0 = linearize(x.a[1])
                if lv in A0.co or any(a == lv for a in A0.co):
                    zero = Lin({k2: c2 for k2, c2 in A0.co.items() if k2 != lv}, A0.c)
                    if zero.key() == linearize(x.a[2]).key():
                        return x.a[1]
                else:
                    # len(v) already rewritten to a linear form: substitute is not possible; compare under len == 0
                    lvl = linearize(lv)
                    if len(lvl.co) == 1 and lvl.c == 0:
                        (atom, coef), = lvl.co.items()
                        if coef == 1 and atom in A0.co:
                            zero = Lin({k2: c2 for k2, c2 in A0.co.items() if k2 != atom}, A0.c)
                            if zero.key() == linearize(x.a[2]).key():
                                return x.a[1]
            return x
        return x

    memo = cache.setdefault("#memo", {})

    def g(x):
        r = memo.get(x)
        if r is None:
            r = f(x)
            memo[x] = r
        return r

    def walk(x):
        """memoised bottom-up rebuild (terms are DAGs: shared sub-terms are rewritten once)"""
        if not isinstance(x, T):
            if isinstance(x, tuple):
                return tuple(walk(y) for y in x)
            return x
        r = memo.get(("w", x))
        if r is not None:
            return r
        if x.k in ("const", "sym", "class", "func", "builtin", "exc", "lit"):
            r = g(x)
        else:
            r = mapterm_shallow(x, walk)
            r = g(r)
        memo[("w", x)] = r
        return r

    return walk(t)


def mapterm_shallow(t, rec):
    """rebuild one node from recursively rewritten children, with the smart constructors"""
    from .terms import gamma, bcat
    a = tuple(rec(x) for x in t.a)
    k = t.k
    if k == "op":
        return binop(a[0], a[1], a[2])
    if k == "un":
        return un(a[0], a[1])
    if k == "gamma":
        return gamma(a[0], a[1], a[2])
    if k == "bcat":
        items = []
        for it_ in a[0]:
            if it_.k == "bytes" and it_.a[0].k == "bcat":
                items.extend(it_.a[0].a[0])
            elif it_.k == "bytes" and it_.a[0].k == "const" and isinstance(it_.a[0].a[0], (bytes, bytearray)):
                if len(it_.a[0].a[0]):
                    items.append(T("lit", bytes(it_.a[0].a[0])))
            else:
                items.append(it_)
        return bcat(items)
    return T(k, *a, ty=t.ty)


# ---------------------------------------------------------------------------- concrete realisation of FM counter-models
def _eval_bool(t, env):
    from .terms import evaluate, EvalError
    try:
        return bool(evaluate(t, env))
    except EvalError:
        return None
    except Exception:
        return None


def realise(facts, goal, model, tries=400, seed=0):
    """Turn an atom-level counter-model into a concrete input assignment (python values for every
    free symbol) under which every evaluable fact holds and the goal is false.  Facts that cannot be
    evaluated (CRC values, opaque calls) are skipped.  -> dict or None"""
    import random
    from .terms import free_syms, evaluate, EvalError
    rng = random.Random(seed)
    terms = list(facts) + [goal]
    syms = {}
    for t in terms:
        for s in subterms(t):
            if s.k == "sym":
                syms[s.a[0]] = s
    # which symbols are byte buffers?
    bufs = {n for n, s in syms.items() if s.ty in ("bytes", "bytearray")}
    for t in terms:
        for s in subterms(t):
            if s.k in ("idx", "slice") and s.a[0].k == "sym":
                bufs.add(s.a[0].a[0])
            if s.k == "un" and s.a[0] == "len" and s.a[1].k == "sym":
                bufs.add(s.a[1].a[0])
    base = {}
    blen = {}
    fixed = {}
    for a, v in (model or {}).items():
        if a.k == "sym" and a.a[0] not in bufs:
            base[a.a[0]] = v
        elif a.k == "un" and a.a[0] == "len" and a.a[1].k == "sym":
            blen[a.a[1].a[0]] = max(int(v), 0)
    # derived scalar atoms with an obvious pre-image: (x // c) = v -> x = v*c ; (x * c) = v -> x = v // c ; (x >> k) = v -> x = v << k
    for a, v in (model or {}).items():
        if a.k == "op" and a.a[1].k == "sym" and a.a[2].k == "const" and isinstance(a.a[2].a[0], int) and a.a[1].a[0] not in bufs \
                and a.a[1].a[0] not in base:
            o, c = a.a[0], a.a[2].a[0]
            if o == "//" and c > 0:
                base[a.a[1].a[0]] = int(v) * c
            elif o == "*" and c != 0:
                base[a.a[1].a[0]] = int(v) // c
            elif o == ">>" and c >= 0:
                base[a.a[1].a[0]] = int(v) << c
    # buffers whose length the model does not fix: candidate lengths are taken from the integer constants of the facts
    free_len = {n for n in bufs if n not in blen}
    consts = set()
    for t in terms:
        for s_ in subterms(t):
            if s_.k == "const" and isinstance(s_.a[0], int) and not isinstance(s_.a[0], bool) and 0 <= s_.a[0] <= 70000:
                consts.add(s_.a[0])
    len_cands = sorted({c + d for c in consts for d in (0, 1, -1, 2) if c + d >= 0})[:80] or [0]
    for n in bufs:
        blen.setdefault(n, 0)
    # atoms that are bit-exact functions of buffer octets (masks, shifts, multi-octet fields): assign those bits
    from .bits import norm_bits, BitCtx
    for a, v in (model or {}).items():
        if a.k in ("op",) and isinstance(v, int) and v >= 0:
            bv = norm_bits(a, BitCtx())
            if bv is None or bv.ext != 0:
                continue
            if all(b in (0, 1) or (isinstance(b, tuple) and b[0] == "d" and isinstance(b[2], int)) for b in bv.bits):
                for i, b in enumerate(bv.bits):
                    if isinstance(b, tuple):
                        key = (b[1], b[2])
                        cur = fixed.get(key, 0)
                        bit = (int(v) >> i) & 1
                        fixed[key] = (cur & ~(1 << b[3])) | (bit << b[3])
    for a, v in (model or {}).items():
        if a.k == "idx" and a.a[0].k == "sym" and a.a[1].k == "const" and isinstance(a.a[1].a[0], int):
            fixed[(a.a[0].a[0], a.a[1].a[0])] = int(v) & 0xFF
        elif a.k == "unpacked" and a.a[1].k == "slice" and a.a[1].a[0].k == "sym" and a.a[1].a[1].k == "const":
            try:
                raw = struct.pack(a.a[0], int(v))
            except (struct.error, ValueError):
                continue
            for i, b in enumerate(raw):
                fixed[(a.a[1].a[0].a[0], a.a[1].a[1].a[0] + i)] = b
    # a propositional atom `buf[lo:hi] == literal` that the model makes true: those octets are the literal's
    for a, v in (model or {}).items():
        if a.k == "boolatom" and isinstance(v, int) and v >= 1 and a.a[0].k == "op" and a.a[0].a[0] == "==":
            x_, y_ = a.a[0].a[1], a.a[0].a[2]
            if y_.k == "const" and isinstance(y_.a[0], (bytes, bytearray)) and x_.k == "slice" and x_.a[0].k == "sym" and x_.a[1].k == "const" \
                    and isinstance(x_.a[1].a[0], int) and x_.a[1].a[0] >= 0:
                for i, b in enumerate(y_.a[0]):
                    fixed[(x_.a[0].a[0], x_.a[1].a[0] + i)] = b
    palette = [0, 0, 0, 1, 2, 3, 4, 7, 8, 0x0F, 0x10, 0x11, 0x20, 0x21, 0x24, 0x40, 0x7F, 0x80, 0xC0, 0xF0, 0xFF]

    def attempt(k):
        env = {}
        for n, s in syms.items():
            if n in bufs:
                continue
            if n in base:
                env[n] = base[n]
            elif s.ty == "bool":
                env[n] = False if k == 0 else rng.random() < 0.5
            else:
                env[n] = 0 if k == 0 else rng.choice([0, 0, 1, 2, 3, 4, 7, 8, 255, 256, 65535])
        for n in bufs:
            ln = blen.get(n, 0)
            if n in free_len and k > 0:
                ln = len_cands[(k - 1) % len(len_cands)]
            elif k > tries // 2:
                ln = max(0, ln + rng.choice([0, 0, 1, 2, -1]))
            bs = bytearray(ln)
            if k > 0:
                for i in range(ln):
                    bs[i] = rng.choice(palette) if rng.random() < 0.8 else rng.randrange(256)
            if k <= (tries * 3) // 4:
                for (bn, pos), val in fixed.items():
                    if bn == n and 0 <= pos < ln:
                        bs[pos] = val
            env[n] = bytes(bs)
        return env

    for k in range(tries):
        env = attempt(k)
        g = _eval_bool(goal, env)
        if g is None:
            # not evaluable under this assignment (e.g. an index beyond a buffer that is still too short); a goal that is
            # never evaluable simply yields no witness
            continue
        if g:
            continue
        ok = True
        for f in facts:
            v = _eval_bool(f, env)
            if v is False:
                ok = False
                break
        if ok:
            return env
    return None


# ---------------------------------------------------------------------------- refusals are justified
def check_short_refusals_justified(ck, it, func, root, need, what, rule="G-REFUSE", exc_suffix=("BytesTooShortError",), r0=0, only_func=None,
                                   also=None, skip_funcs=()):
    """The converse of the length refusals: every explicit, uncaught too-short error is raised only when the buffer really
    is shorter than `need` (the number of octets a well-formed unit of this kind occupies); otherwise well-formed input
    is refused.  -> number of refusal sites examined"""
    buf = sym(root, ty="bytes")
    n = 0
    for x in it.raises[r0:]:
        if x["caught"] or x["kind"] != "explicit" or not x["exc"].endswith(tuple(exc_suffix)):
            continue
        if only_func is not None and not x["func"].endswith(only_func):
            continue
        if any(x["func"].endswith(sf) or any(sf in str(fr) for fr in x["stack"]) for sf in skip_funcs):
            continue
        if not feasible(x["facts"]):
            continue
        n += 1
        cons = f"`{x['text'][:50]}` in {x['func'].split('.')[-1]} refuses only input shorter than {what}"
        goal = binop("<", length(buf), need)
        if also is not None:
            goal = binop("or", goal, also)      # a second legitimate reason (e.g. the declared length itself is too small)
        st, m = budgeted_prove(x["facts"], goal)
        if st == "proved":
            ck.proved(rule, func, cons, f"path condition implies len({root}) < {show(need)[:60]}")
        elif st == "refutable":
            ck.refuted(rule, func, cons, f"well-formed input is refused as too short: {{{', '.join(f'{show(k)[:40]}={v}' for k, v in list(m.items())[:6])}}}", witness=m)
        else:
            ck.unknown(rule, func, cons, str(m)[:200])
    return n


# ---------------------------------------------------------------------------- no state shared between calls
def check_no_shared_writes(ck, it, func, rule="A-ALIAS", s0=0):
    """nothing is stored into an object that was created at module level: such an object is shared by all calls, so one
    decoded (or constructed) object would change under the next call"""
    bad = [st for st in it.stores[s0:] if st["oid"] in it.module_oids]
    cons = "no store reaches a module-level (shared) object"
    if bad:
        b = bad[0]
        ck.refuted(rule, func, cons, f"`{b['text'][:60]}` in {b['func']} stores into .{b['attr']} of an object created at module import; every later call sees and "
                   "overwrites it", witness={"store": b["where"]})
    else:
        ck.proved(rule, func, cons, f"{len(it.stores) - s0} stores, none into a module-level object", nontrivial=False)
