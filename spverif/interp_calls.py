"""GTI part 2: attribute access, stores, calls, constructors, modelled builtins."""
from __future__ import annotations

import ast
import struct

from .index import Program, Func
from .interp import Env, Unsupported, _txt
from .terms import (T, C, NONE, TRUE, FALSE, sym, gamma, un, binop, truthy, bcat, as_bcat, bcat_concat,
                    length, is_const, show, conj, item_len)

EXC_BUILTINS = {"ValueError", "TypeError", "IndexError", "OverflowError", "KeyError", "FileNotFoundError",
                "NotImplementedError", "AssertionError", "Exception", "struct.error", "RuntimeError",
                "StopIteration", "AttributeError"}
FILE_METHODS = {"open", "read", "readline", "readlines", "read_text", "read_bytes", "write", "writelines", "write_text", "write_bytes",
                "seek", "truncate", "close", "flush", "exists", "is_file", "unlink", "touch"}
OPAQUE_PREFIXES = ("datetime", "time.", "time", "math.", "pathlib", "logging", "importlib", "os.", "sys.",
                   "deprecation", "dataclasses", "abc.", "typing", "enum.", "collections", "crcmod")
LIST_MUTATORS = {"append", "extend", "clear", "insert", "pop", "popleft", "remove", "update", "appendleft", "setdefault"}


class CallsMixin:
    # ------------------------------------------------------------------ attribute read
    def getattr(self, base, attr, env, node=None, fn=None):
        P = self.P
        k = base.k
        if k == "gamma":
            # each alternative is read knowing its own gate (a property body then sees the object it really belongs to)
            vals = []
            for cond, side in ((base.a[0], base.a[1]), (un("not", base.a[0]), base.a[2])):
                sub = env.clone()
                sub.add_fact(cond)
                if sub.dead:
                    vals.append(None)
                    continue
                sub.pc.append(cond)
                v_ = self._getattr_or_none(side, attr, sub, node, fn, cond)
                env.heap = sub.heap
                vals.append(None if sub.dead else v_)
            if vals[0] is None and vals[1] is None:
                env.dead = True
                return NONE
            if vals[0] is None:
                return vals[1]
            if vals[1] is None:
                return vals[0]
            return gamma(base.a[0], vals[0], vals[1])
        if k == "structobj":
            if attr == "size":
                return C(struct.calcsize(base.a[0]))
            if attr == "format":
                return C(base.a[0])
            return T("bound?", attr, base)
        if k == "builtin":
            return T("builtin", base.a[0] + "." + attr)
        if k == "crcobj" and attr == "crcValue":
            return T("crc16v", base.a[1] if len(base.a) > 1 else bcat(), ty="int")
        if k == "class":
            return self.class_attr(base.a[0], attr, env, node, fn)
        if k == "const":
            v = base.a[0]
            if v is None:
                self.log_raise("AttributeError", env, node, kind="attr")
                env.dead = True
                return NONE
            if isinstance(base.ty, str) and base.ty in P.classes and P.is_enum(base.ty):
                if attr == "value":
                    return C(v)
                if attr == "name":
                    return T("call", "enumname", (base,), ty="str")
            return T("bound?", attr, base)
        if k == "obj":
            ty = base.ty
            oid = base.a[0]
            mattr = self.mangled(attr, fn)
            if (oid, mattr) in env.heap:
                v_ = env.heap[(oid, mattr)]
                # a cell that was joined from several paths: the alternative the facts in force select
                while v_.k == "gamma" and env.facts:
                    if v_.a[0] in env.facts:
                        v_ = v_.a[1]
                    elif un("not", v_.a[0]) in env.facts:
                        v_ = v_.a[2]
                    else:
                        break
                return v_
            if isinstance(ty, str) and ty in P.classes:
                r = self.lookup_member(ty, attr, fn)
                if r:
                    if r[0] == "prop":
                        return self.call_func(r[1], [base], {}, env, node)
                    if r[0] == "method":
                        return T("bound", r[1].qual, base)
                    if r[0] == "const" and not self.is_instance_attr(ty, mattr):
                        return self.class_attr(ty, attr, env, node, fn)
                info = self.obj_info.get(oid, {})
                if info.get("symbolic"):
                    v = self.symbolic_attr(base, mattr, env)
                    env.heap[(oid, mattr)] = v
                    return v
                if info.get("copy_of") is not None:
                    return self.getattr(info["copy_of"], attr, env, node, fn)
                if r and r[0] == "const":
                    return self.class_attr(ty, attr, env, node, fn)
                self.log_raise("AttributeError", env, node, kind="attr", extra=f"{ty}.{attr}")
                return T("call", "undefattr", (base, C(attr)))
            if ty == "dict":
                return T("bound?", attr, base)
        if k == "sym" and isinstance(base.ty, str) and base.ty in P.classes and P.is_enum(base.ty):
            if attr == "value":
                return base
        return T("bound?", attr, base)

    def _getattr_or_none(self, side, attr, env, node, fn, cond=None):
        if is_const(side, None):
            # the None alternative is taken exactly under `cond`; the raise record carries it so that
            # feasibility can be decided against the guards in force
            self.log_raise("AttributeError", env, node, kind="attr", cond=cond)
            return NONE
        return self.getattr(side, attr, env, node, fn)

    def lookup_member(self, clsq, attr, fn):
        P = self.P
        if attr.startswith("__") and not attr.endswith("__") and fn is not None and fn.cls:
            c = P.classes[fn.cls]
            if attr in c.methods:
                return ("method", c.methods[attr])
            if attr in c.props:
                return ("prop", c.props[attr])
            return None
        return P.lookup(clsq, attr)

    def symbolic_attr(self, base, attr, env):
        info = self.obj_info[base.a[0]]
        ty = self.attr_type(base.ty, attr)
        path = f"{info['path']}.{attr}"
        if isinstance(ty, str) and ty in self.P.classes and not self.P.is_enum(ty):
            # nested objects of a shallow copy are shared with the original
            o = self.new_object(ty, symbolic=True, root=info["root"] or info.get("nested_root"), path=path)
            return o
        return sym(path, ty=ty)

    def class_attr(self, cq, attr, env, node, fn):
        P = self.P
        if cq not in P.classes:
            self.unsupported(f"class {cq}", node)
        r = self.lookup_member(cq, attr, fn)
        if r is None:
            if attr == "__name__":
                return C(P.classes[cq].name)
            self.unsupported(f"class attr {cq}.{attr}", node)
        if r[0] == "const":
            for k in P.mro(cq):
                ns = self.class_namespace(k)
                if attr in P.classes[k].consts and attr in ns:
                    return ns[attr]
            c, expr = r[1]
            return self.module_const(c.module, expr)
        if r[0] == "method":
            return T("bound", r[1].qual, T("class", cq))
        if r[0] == "prop":
            return T("propobj", r[1].qual)
        self.unsupported(f"class attr kind {r[0]}", node)

    # ------------------------------------------------------------------ stores
    def setattr(self, base, attr, val, env, node, fn):
        P = self.P
        if base.k == "gamma":
            c = base.a[0]
            for side, cond in ((base.a[1], c), (base.a[2], un("not", c))):
                if side.k == "obj":
                    old = self.getattr(side, attr, env, node, fn)
                    self.setattr(side, attr, gamma(cond, val, old), env, node, fn)
            return
        if base.k != "obj":
            if is_const(base, None):
                self.log_raise("AttributeError", env, node, kind="attr")
                env.dead = True
                return
            self.unsupported(f"store to {show(base)[:60]}.{attr}", node)
        ty = base.ty
        oid = base.a[0]
        if isinstance(ty, str) and ty in P.classes:
            st = P.lookup_setter(ty, attr)
            if st is not None and not (attr.startswith("__") and not attr.endswith("__")):
                self.call_func(st, [base, val], {}, env, node)
                return
        mattr = self.mangled(attr, fn)
        info = self.obj_info.get(oid, {})
        if not self.quiet:
            old = env.heap.get((oid, mattr))
            self.stores.append({"oid": oid, "cls": ty, "attr": mattr, "val": val, "old": old,
                                "root": info.get("root"), "path": info.get("path"),
                                "symbolic": info.get("symbolic", False), "where": self.loc(node),
                                "func": self.cur_func(), "stack": tuple(self.where), "text": _txt(node),
                                "facts": list(env.facts), "seq": next(self.evc), "pc": list(env.pc),
                                "finally_for": getattr(self, "_finally_for", None)})
        env.heap[(oid, mattr)] = val

    def assign(self, tgt, val, env, mod, fn):
        if isinstance(tgt, ast.Name):
            env.vars[tgt.id] = val
        elif isinstance(tgt, (ast.Tuple, ast.List)):
            n = len(tgt.elts)

            def item_of(v, i):
                """element i of a (possibly gated, possibly nested) tuple value; None if some alternative is not a tuple of n"""
                if v.k in ("tuple", "list"):
                    return v.a[0][i] if len(v.a[0]) == n else None
                if v.k == "gamma":
                    x, y = item_of(v.a[1], i), item_of(v.a[2], i)
                    if x is None or y is None:
                        if is_const(v.a[1], None) or v.a[1].k == "undef":
                            return y
                        if is_const(v.a[2], None) or v.a[2].k == "undef":
                            return x
                        return None
                    return gamma(v.a[0], x, y)
                return None
            nt_ = self.namedtuple_items(val, env, tgt)
            if nt_ is not None:
                val = T("tuple", tuple(nt_))
            gated = [item_of(val, i) for i in range(n)] if val.k == "gamma" else None
            if gated is not None and all(g is not None for g in gated):
                items = gated
            elif val.k == "gamma" and val.a[1].k == "tuple" and val.a[2].k == "tuple":
                items = [gamma(val.a[0], x, y) for x, y in zip(val.a[1].a[0], val.a[2].a[0])]
            elif val.k in ("tuple", "list"):
                items = list(val.a[0])
            else:
                tys = val.ty[1] if isinstance(val.ty, tuple) and val.ty[0] == "tuple" and val.ty[1] else [None] * n
                items = [T("idx", val, C(i), ty=tys[i] if i < len(tys) else None) for i in range(n)]
            if len(items) != n:
                self.unsupported("tuple arity", tgt)
            for t, v in zip(tgt.elts, items):
                self.assign(t, v, env, mod, fn)
        elif isinstance(tgt, ast.Attribute):
            base = self.ev(tgt.value, env, mod, fn)
            self.setattr(base, tgt.attr, val, env, tgt, fn)
        elif isinstance(tgt, ast.Subscript):
            base = self.ev(tgt.value, env, mod, fn)
            idx = None if isinstance(tgt.slice, ast.Slice) else self.ev(tgt.slice, env, mod, fn)
            if not self.quiet:
                self.notes.append({"kind": "substore", "base": base, "idx": idx, "val": val, "facts": list(env.facts),
                                   "where": self.loc(tgt), "func": self.cur_func(), "text": _txt(tgt)})
            if base.k == "dictlit" and isinstance(tgt.value, (ast.Name, ast.Attribute)) and idx is not None:
                self.assign(tgt.value, T("dictlit", tuple((k, v) for k, v in base.a[0] if k != idx) + ((idx, val),), ty="dict"), env, mod, fn)
            elif base.k == "bcat" or (base.k in ("list", "tuple") and idx is not None):
                # a store into a byte string / list under construction changes the value every later read sees:
                # modelled for constant positions, reported as unmodelled otherwise (never dropped)
                if not isinstance(tgt.value, (ast.Name, ast.Attribute)):
                    self.unsupported("store into a temporary sequence", tgt)
                if base.k in ("list", "tuple"):
                    if idx.k == "const" and isinstance(idx.a[0], int) and -len(base.a[0]) <= idx.a[0] < len(base.a[0]):
                        items = list(base.a[0])
                        items[idx.a[0]] = val
                        self.assign(tgt.value, T(base.k, tuple(items), ty=base.ty), env, mod, fn)
                        return
                    self.unsupported("store into a list at a non-constant position", tgt)
                has_zeros = any(it_.k == "zeros" for it_ in base.a[0])
                if idx is not None:
                    lo, n, new = idx, 1, (T("u8", val),)
                    if has_zeros or not (lo.k == "const"):
                        out = self._bcat_splice_lin(base, lo, binop("+", lo, C(1)), new, tgt)
                        if out is None:
                            self.unsupported("store into a byte string at a position the layout does not determine", tgt)
                        self.assign(tgt.value, out, env, mod, fn)
                        return
                else:
                    sl = tgt.slice
                    if sl.step is not None:
                        self.unsupported("extended slice store", tgt)
                    lo = self.ev(sl.lower, env, mod, fn) if sl.lower is not None else C(0)
                    hi = self.ev(sl.upper, env, mod, fn) if sl.upper is not None else None
                    nb = as_bcat(val)
                    from .terms import bcat_len
                    from .linear import linearize as _lz
                    if hi is None and nb.k == "bcat" and _lz(lo).key() == _lz(bcat_len(base)).key():
                        # buf[len(buf):] = more: a slice store at the end appends
                        self.assign(tgt.value, bcat_concat(base, nb), env, mod, fn)
                        return
                    ln = bcat_len(nb) if nb.k == "bcat" else None
                    if hi is None or ln is None or has_zeros or not (lo.k == "const" and hi.k == "const" and ln.k == "const" and isinstance(lo.a[0], int)
                                                                     and isinstance(hi.a[0], int) and 0 <= lo.a[0] <= hi.a[0] and hi.a[0] - lo.a[0] == ln.a[0]):
                        out = self._bcat_splice_lin(base, lo, hi, nb.a[0], tgt) if nb.k == "bcat" else None
                        if out is None:
                            self.unsupported("slice store that is not a same-length replacement at positions the layout determines", tgt)
                        self.assign(tgt.value, out, env, mod, fn)
                        return
                    n, new = ln.a[0], nb.a[0]
                if not (lo.k == "const" and isinstance(lo.a[0], int) and lo.a[0] >= 0):
                    self.unsupported("store into a byte string at a non-constant position", tgt)
                out = self._bcat_splice(base, lo.a[0], n, new, tgt)
                if out is None:
                    self.log_raise("IndexError", env, tgt, kind="index")
                    env.dead = True
                    return
                self.assign(tgt.value, out, env, mod, fn)
        else:
            self.unsupported("assignment target", tgt)

    def _bcat_splice_lin(self, buf, lo, hi, new_items, node):
        """buf with the octets [lo, hi) replaced by new_items, for positions that are linear forms (hi None: to the end).
        Only a run of not-yet-written zero octets (bytearray(n)) can be split at a symbolic position, and only when the
        pieces before and behind the range have lengths that are constants or differ from the run's length by constants;
        the new items must have exactly the length of the range.  -> bcat or None (shape not decidable)"""
        from .linear import linearize, Lin
        from .terms import bcat_len

        def lt(l):
            t_ = C(l.c)
            for a_, v_ in sorted(l.co.items(), key=lambda kv: show(kv[0])):
                t_ = binop("+", t_, a_ if v_ == 1 else binop("*", C(v_), a_))
            return t_
        items = list(buf.a[0])
        total = linearize(bcat_len(buf))
        lo_l = linearize(lo)
        hi_l = total if hi is None else linearize(hi)
        new_len = linearize(bcat_len(bcat(tuple(new_items))))
        if (hi_l - lo_l).key() != new_len.key():
            return None
        pos = Lin({}, 0)
        out = []
        done = False
        for idx_, it_ in enumerate(items):
            ln = linearize(item_len(it_))
            if not done and it_.k == "zeros":
                before, after = lo_l - pos, (pos + ln) - hi_l
                ok_b = before.is_const() and before.c >= 0
                ok_a = (after.is_const() and after.c >= 0) or (not after.is_const() and all(v_ > 0 for v_ in after.co.values()) and after.c >= 0)
                if ok_b and ok_a:
                    if before.c > 0:
                        out.append(T("lit", bytes(before.c)))
                    out += list(new_items)
                    if not (after.is_const() and after.c == 0):
                        out.append(T("lit", bytes(after.c)) if after.is_const() else T("zeros", lt(after)))
                    done = True
                    pos = pos + ln
                    continue
            if not done and (lo_l - pos).is_const() and (lo_l - pos).c == 0 and (hi_l - pos - ln).is_const() and (hi_l - pos - ln).c == 0:
                out += list(new_items)      # exactly one whole item is replaced
                done = True
                pos = pos + ln
                continue
            out.append(it_)
            pos = pos + ln
        return bcat(tuple(out)) if done else None

    def _bcat_splice(self, buf, off, n, new_items, node):
        """buf with the n octets at constant offset `off` replaced by new_items (n == 0: nothing to do); None if the
        range does not lie inside buf; unsupported when buf's layout is not known octet by octet around the range"""
        items = []
        for it_ in buf.a[0]:
            if it_.k == "lit":
                items += [(T("u8", C(v_)), 1) for v_ in it_.a[0]]
            else:
                ln_ = item_len(it_)
                if ln_.k != "const":
                    self.unsupported("store into a byte string of unknown layout", node)
                items.append((it_, ln_.a[0]))
        total = sum(l_ for _i, l_ in items)
        if off + n > total:
            return None
        if n == 0:
            return buf
        pos, out, i_, done = 0, [], 0, False
        while i_ < len(items):
            it_, ln_ = items[i_]
            if pos == off and not done:
                covered = 0
                while i_ < len(items) and covered < n:
                    covered += items[i_][1]
                    i_ += 1
                if covered != n:
                    self.unsupported("store over part of a wider packed item", node)
                out += list(new_items)
                pos += n
                done = True
                continue
            if pos < off < pos + ln_:
                self.unsupported("store into the middle of a wider packed item", node)
            out.append(it_)
            pos += ln_
            i_ += 1
        return bcat(tuple(out)) if done else None

    # ------------------------------------------------------------------ calls
    def eval_call(self, e, env, mod, fn):
        f = e.func
        # super().method(...)
        if isinstance(f, ast.Attribute) and isinstance(f.value, ast.Call) and isinstance(f.value.func, ast.Name) \
                and f.value.func.id == "super":
            return self.call_super(e, env, mod, fn)
        # in-place mutation of a local / attribute holding a byte string or list
        if isinstance(f, ast.Attribute) and f.attr in LIST_MUTATORS and isinstance(f.value, (ast.Name, ast.Attribute)):
            recv = self.ev(f.value, env, mod, fn)
            if recv.k in ("bcat", "list", "listext", "dictlit", "crcobj") or recv.ty in ("bytes", "bytearray") \
                    or (isinstance(recv.ty, tuple) and recv.ty[0] == "list") or recv.ty in ("deque", "dict"):
                args = [self.ev(a, env, mod, fn) for a in e.args]
                new, ret = self.mutate(recv, f.attr, args, env, e)
                if new is not None:
                    self.assign(f.value, new, env, mod, fn)
                return ret
        callee = self.ev(f, env, mod, fn)
        args = []
        for a in e.args:
            if isinstance(a, ast.Starred):
                v = self.ev(a.value, env, mod, fn)
                if v.k in ("tuple", "list"):
                    args.extend(v.a[0])
                else:
                    self.unsupported("star-arg", a)
            else:
                args.append(self.ev(a, env, mod, fn))
        kw = {}
        for k in e.keywords:
            if k.arg is None:
                self.unsupported("**kwargs", e)
            kw[k.arg] = self.ev(k.value, env, mod, fn)
        if env.dead:
            # an argument expression always raises: the call itself is never made
            return NONE
        return self.call(callee, args, kw, env, e, fn)

    def mutate(self, recv, meth, args, env, node):
        """-> (new value of the container or None, return value)"""
        if recv.k == "crcobj":
            if meth == "update":
                sofar = recv.a[1] if len(recv.a) > 1 else bcat()
                return T("crcobj", recv.a[0], bcat_concat(sofar, as_bcat(args[0]))), NONE
            return None, T("call", "." + meth, (recv,) + tuple(args))
        if recv.k == "bcat" or recv.ty in ("bytes", "bytearray"):
            cur = as_bcat(recv)
            if meth == "append":
                return bcat(cur.a[0] + (T("u8", args[0]),)), NONE
            if meth == "extend" and args[0].k == "optlist":
                for c_, x_ in args[0].a[0]:
                    cur = bcat_concat(cur, as_bcat(gamma(c_, bcat((T("u8", x_),)), bcat())))
                return cur, NONE
            if meth == "extend" and args[0].k in ("list", "tuple"):
                return bcat(cur.a[0] + tuple(T("u8", x_) for x_ in args[0].a[0])), NONE
            if meth == "extend":
                return bcat_concat(cur, as_bcat(args[0])), NONE
            if meth == "clear":
                return bcat(), NONE
        if recv.k == "list":
            if meth == "append":
                return T("list", recv.a[0] + (args[0],), ty=recv.ty), NONE
            if meth == "extend" and args[0].k in ("list", "tuple"):
                return T("list", recv.a[0] + args[0].a[0], ty=recv.ty), NONE
            if meth == "extend" and args[0].k == "optlist":
                return T("optlist", tuple((TRUE, x) for x in recv.a[0]) + args[0].a[0], ty=recv.ty), NONE
        if recv.k == "optlist":
            if meth == "append":
                return T("optlist", recv.a[0] + ((TRUE, args[0]),), ty=recv.ty), NONE
            if meth == "extend" and args[0].k in ("list", "tuple", "optlist"):
                more = args[0].a[0] if args[0].k == "optlist" else tuple((TRUE, x) for x in args[0].a[0])
                return T("optlist", recv.a[0] + more, ty=recv.ty), NONE
            if meth == "clear":
                return T("list", (), ty=recv.ty), NONE
        if meth in ("append", "extend", "insert", "appendleft"):
            return T("listext", recv, meth, tuple(args), ty=recv.ty), NONE
        if meth == "clear":
            return T("list", (), ty=recv.ty), NONE
        if meth in ("pop", "popleft", "remove"):
            ety = recv.ty[1] if isinstance(recv.ty, tuple) else None
            return self.fresh_sym(f"{meth}", ty=recv.ty), T("call", "." + meth, (recv,) + tuple(args), ty=ety)
        if meth == "update":
            return T("listext", recv, meth, tuple(args), ty=recv.ty), NONE
        if meth == "setdefault" and recv.k == "dictlit" and len(args) == 2:
            # d.setdefault(k, v): the stored value if k is a key, otherwise v is stored and returned
            for k_, v_ in recv.a[0]:
                if k_ == args[0]:
                    return None, v_
            return T("dictlit", recv.a[0] + ((args[0], args[1]),), ty="dict"), args[1]
        if meth == "setdefault":
            self.unsupported("setdefault on a dictionary of unknown content", node)
        return None, T("call", "." + meth, (recv,) + tuple(args))

    def call_super(self, e, env, mod, fn):
        P = self.P
        name = e.func.attr
        selfv = env.vars.get("self") or env.vars.get("cls")
        if selfv is None or fn is None or fn.cls is None:
            self.unsupported("super() outside method", e)
        dyn = selfv.ty if selfv.k == "obj" else (selfv.a[0] if selfv.k == "class" else fn.cls)
        r = P.lookup_after(dyn if dyn in P.classes else fn.cls, fn.cls, name)
        args = [self.ev(a, env, mod, fn) for a in e.args]
        kw = {k.arg: self.ev(k.value, env, mod, fn) for k in e.keywords}
        if r and r[0] == "method":
            return self.call_func(r[1], [selfv] + args, kw, env, e)
        if name == "__init__":
            # dataclass-generated __init__ of a base class, or object.__init__ / Exception.__init__
            mro = P.mro(dyn if dyn in P.classes else fn.cls)
            after = mro[mro.index(fn.cls) + 1:] if fn.cls in mro else []
            for k in after:
                if P.classes[k].is_dataclass:
                    self.dataclass_init(selfv, k, args, kw, env, e)
                    return NONE
            return NONE
        self.unsupported(f"super().{name}", e)

    def call(self, f, args, kw, env, node, fn=None):
        k = f.k
        if k == "builtin":
            return self.call_builtin(f.a[0], args, kw, env, node)
        if k == "func":
            return self.call_func(self.P.funcs[f.a[0]], args, kw, env, node)
        if k == "class":
            return self.construct(f.a[0], args, kw, env, node)
        if k == "bound":
            fobj = self.P.funcs[f.a[0]]
            recv = f.a[1]
            if fobj.kind == "staticmethod":
                return self.call_func(fobj, args, kw, env, node)
            if fobj.kind == "classmethod":
                clsq = recv.a[0] if recv.k == "class" else recv.ty
                return self.call_func(fobj, [T("class", clsq)] + args, kw, env, node)
            if recv.k == "class":
                return self.call_func(fobj, args, kw, env, node)
            return self.call_func(fobj, [recv] + args, kw, env, node)
        if k == "gamma":
            # a gated callee (a handler picked from a table): each alternative is called under its gate, and what the
            # calls do to the heap is joined under the same gate
            from .interp_stmt import join_envs
            sides, subs = [], []
            for side, cond in ((f.a[1], f.a[0]), (f.a[2], un("not", f.a[0]))):
                sub = env.clone()
                sub.add_fact(cond)
                if side.k == "const" or sub.dead:
                    sides.append(NONE)
                    subs.append(sub)
                    continue
                sides.append(self.call(side, args, kw, sub, node, fn))
                subs.append(sub)
            live = [(s_, c_) for s_, c_ in zip(subs, (f.a[0], un("not", f.a[0]))) if not s_.dead]
            if not live:
                env.dead = True
                return NONE
            if len(live) == 1:
                env.heap = live[0][0].heap
                return sides[0] if live[0][0] is subs[0] else sides[1]
            j = join_envs([subs[0], subs[1]], [f.a[0], un("not", f.a[0])])
            env.heap = j.heap
            return gamma(f.a[0], sides[0], sides[1])
        if k == "bound?":
            return self.call_method_untyped(f.a[0], f.a[1], args, kw, env, node)
        if k == "lambda":
            lam, lmod = f.a
            sub = Env()
            sub.heap = env.heap
            for p, a in zip(lam.args.args, args):
                sub.vars[p.arg] = a
            return self.ev(lam.body, sub, lmod, None)
        if k == "crcfun":
            prev = args[1] if len(args) > 1 else kw.get("crc")
            if prev is not None and not is_const(prev, 0xFFFF):
                # crc_fun(more, crc_so_far): the checksum of the octets so far followed by `more`
                if prev.k == "crc16v":
                    sofar = prev.a[0] if prev.a[0].k == "bcat" else as_bcat(prev.a[0])
                    return T("crc16v", bcat_concat(sofar, as_bcat(args[0])), ty="int")
                self.unsupported("CRC function continued from a value that is not a CRC of known octets", node)
            return T("crc16v", as_bcat(args[0]) if args[0].k == "bcat" else args[0], ty="int")
        self.unsupported(f"call of {show(f)[:80]}", node)

    def call_method_untyped(self, name, recv, args, kw, env, node):
        if recv.k == "structobj":
            fmt = C(recv.a[0])
            if name == "pack":
                return self.call_builtin("struct.pack", [fmt] + list(args), {}, env, node)
            if name == "unpack" and len(args) == 1:
                return self.call_builtin("struct.unpack", [fmt, args[0]], {}, env, node)
            if name == "unpack_from" and args:
                off = args[1] if len(args) > 1 else kw.get("offset", C(0))
                return self.call_builtin("struct.unpack_from", [fmt, args[0], off], {}, env, node)
            if name == "pack_into" and len(args) >= 3:
                old_pos = getattr(self, "_pack_into_target_pos", 1)
                self._pack_into_target_pos = 0
                try:
                    return self.call_builtin("struct.pack_into", [fmt] + list(args), {}, env, node)
                finally:
                    self._pack_into_target_pos = old_pos
            self.unsupported(f"struct.Struct.{name}", node)
        if name == "decode":
            self.log_raise("UnicodeDecodeError", env, node, kind="decode")
            if recv.k == "call" and recv.a[0] == "encode":
                return recv.a[1][0]
            return T("call", "decode", (recv,), ty="str")
        if name == "encode":
            if recv.k == "const" and isinstance(recv.a[0], str):
                return C(recv.a[0].encode())
            if recv.k == "call" and recv.a[0] == "decode":
                return recv.a[1][0]
            return T("call", "encode", (recv,), ty="bytes")
        if name == "hex":
            return T("call", "hex", (recv,), ty="str")
        if name == "rstrip" or name == "strip":
            return T("call", name, (recv,), ty="str")
        if name == "isdigit":
            return T("call", "isdigit", (recv,), ty="bool")
        if name == "get" and recv.k == "dictlit":
            for k_, v_ in recv.a[0]:
                if k_ == args[0] or (k_.k == "const" and args[0].k == "const" and k_.a[0] == args[0].a[0] and type(k_.a[0]) is type(args[0].a[0])):
                    return v_       # constant keys compare by value (an IntEnum member equals its integer)
            dflt = args[1] if len(args) > 1 else NONE
            if args[0].k != "const" and recv.a[0] and all(k_.k == "const" for k_, _v in recv.a[0]) and len(recv.a[0]) <= 32:
                # a symbolic key against constant keys: the entry whose key it equals, else the default
                out_ = dflt
                for k_, v_ in reversed(recv.a[0]):
                    out_ = gamma(binop("==", args[0], C(k_.a[0])), v_, out_)
                return out_
            return dflt
        if name == "index" and recv.k in ("tuple", "list") and len(args) == 1 and args[0].k == "const" and all(x_.k == "const" for x_ in recv.a[0]):
            vals_ = [x_.a[0] for x_ in recv.a[0]]
            if args[0].a[0] in vals_:
                return C(vals_.index(args[0].a[0]))
            self.log_raise("ValueError", env, node, kind="index")
            env.dead = True
            return NONE
        if name == "index" and recv.k in ("tuple", "list") and len(args) == 1 and args[0].k != "const" and recv.a[0] and len(recv.a[0]) <= 16 \
                and all(x_.k == "const" for x_ in recv.a[0]):
            # position of a symbolic value in a constant table: ValueError unless it equals one of the entries
            hit = FALSE
            for x_ in recv.a[0]:
                hit = binop("or", hit, binop("==", args[0], x_))
            self.log_raise("ValueError", env, node, kind="index", cond=un("not", hit))
            env.add_fact(hit)
            out_ = C(len(recv.a[0]) - 1)
            for i_ in range(len(recv.a[0]) - 2, -1, -1):
                out_ = gamma(binop("==", args[0], recv.a[0][i_]), C(i_), out_)
            return out_
        if name in ("get",) and recv.ty == "dict":
            return T("call", "dictget", (recv, args[0]))
        if name in ("startswith", "endswith") and len(args) == 1 and args[0].k == "const" and isinstance(args[0].a[0], (bytes, bytearray)) \
                and (recv.k in ("bcat", "slice") or recv.ty in ("bytes", "bytearray")):
            # x.startswith(lit) <=> x[:n] == lit (a shorter x gives a shorter slice, which differs from lit)
            n_ = len(args[0].a[0])
            if n_ == 0:
                return TRUE
            if recv.k == "bcat":
                octs = []
                items = recv.a[0] if name == "startswith" else tuple(reversed(recv.a[0]))
                for it_ in items:
                    o_ = self._item_octets(it_)
                    if o_ is None:
                        break
                    octs += o_ if name == "startswith" else list(reversed(o_))
                    if len(octs) >= n_:
                        break
                if len(octs) >= n_ and all(o_.k == "const" for o_ in octs[:n_]):
                    got = bytes(o_.a[0] for o_ in octs[:n_])
                    want = bytes(args[0].a[0]) if name == "startswith" else bytes(reversed(args[0].a[0]))
                    return C(got == want)
            if name == "startswith":
                return binop("==", self.do_slice(recv, C(0), C(n_), env, node), C(bytes(args[0].a[0])))
        if name == "items":
            return T("call", "items", (recv,), ty=("list", None))
        if name == "__hash__":
            return T("call", "hash", (recv,), ty="int")
        if name == "update" and recv.k == "crcobj":
            return NONE
        if name == "digest" and recv.k == "crcobj" and not args:
            # the two checksum octets, big-endian: what struct.pack("!H", crc.crcValue) gives
            return bcat((T("packed", "!H", T("crc16v", recv.a[1] if len(recv.a) > 1 else bcat(), ty="int")),))
        if name == "join" and ((recv.k == "const" and recv.a[0] in (b"", bytearray())) or (recv.k == "bcat" and not recv.a[0])) and args \
                and args[0].k in ("tuple", "list", "optlist"):
            # b"".join(parts): the concatenation of the parts (a part present under a condition contributes nothing otherwise)
            out = bcat()
            for part in args[0].a[0]:
                if args[0].k == "optlist":
                    part = part[1] if is_const(part[0], True) else gamma(part[0], as_bcat(part[1]), bcat())
                out = bcat_concat(out, as_bcat(part))
            return out
        if name == "to_bytes" and recv.ty not in ("bytes", "bytearray", "str"):
            # int.to_bytes(length, 'big'): the octets struct.pack of the unsigned format of that width gives (the two differ
            # only in the class raised for a value that does not fit: OverflowError instead of struct.error)
            ln = args[0] if args else kw.get("length", C(1))
            order = args[1] if len(args) > 1 else kw.get("byteorder", C("big"))
            signed = kw.get("signed")
            if ln.k == "const" and isinstance(ln.a[0], int) and order.k == "const" and order.a[0] == "big" and (signed is None or is_const(signed, False)):
                n = ln.a[0]
                if n in (1, 2, 4, 8):
                    return self.call_builtin("struct.pack", [C({1: "!B", 2: "!H", 4: "!I", 8: "!Q"}[n]), recv], {}, env, node)
                if 0 < n <= 16:
                    return bcat(tuple(T("u8", binop("&", binop(">>", recv, C(8 * (n - 1 - i))), C(0xFF))) for i in range(n)))
                if n == 0:
                    return bcat()
        if name in FILE_METHODS:
            self.log_fileop(name, recv, args, kw, env, node)
        return T("call", "." + name, (recv,) + tuple(args))

    def log_fileop(self, op, recv, args, kw, env, node):
        """file-system effects in program order (open / read* / write* / seek / truncate / close / exists / leaving a
        with-block), for the rules that speak about what is stored in a file"""
        if self.quiet:
            return
        self.fileops.append({"op": op, "recv": recv, "args": tuple(args), "kw": dict(kw or {}), "seq": next(self.evc), "pc": list(env.pc),
                             "facts": list(env.facts), "func": self.cur_func(), "stack": tuple(self.where), "where": self.loc(node) if node is not None else "",
                             "withs": tuple(self.with_stack)})

    # ------------------------------------------------------------------ user functions
    def bind_args(self, f: Func, args, kw, env, node):
        a = f.node.args
        names = [x.arg for x in a.posonlyargs + a.args]
        anns = {x.arg: x.annotation for x in a.posonlyargs + a.args + a.kwonlyargs}
        defaults = dict(zip(names[len(names) - len(a.defaults):], a.defaults))
        out = {}
        kw = dict(kw)
        if len(args) > len(names) and a.vararg is None:
            self.unsupported(f"too many args for {f.qual}", node)
        for i, n in enumerate(names):
            if i < len(args):
                out[n] = args[i]
            elif n in kw:
                out[n] = kw.pop(n)
            elif n in defaults:
                out[n] = self.default_value(defaults[n], f, env)
            else:
                self.unsupported(f"missing arg {n} for {f.qual}", node)
        for x, d in zip(a.kwonlyargs, a.kw_defaults):
            if x.arg in kw:
                out[x.arg] = kw.pop(x.arg)
            elif d is not None:
                out[x.arg] = self.default_value(d, f, env)
            else:
                self.unsupported(f"missing kwonly {x.arg}", node)
        if a.vararg is not None:
            out[a.vararg.arg] = T("tuple", tuple(args[len(names):]))
        if kw and a.kwarg is None:
            self.unsupported(f"unexpected kwargs {list(kw)} for {f.qual}", node)
        return out, anns

    def default_value(self, expr, f, env=None):
        """default argument expression; objects it constructs live in the caller's heap"""
        self.quiet += 1
        try:
            e = Env()
            if env is not None:
                e.heap = env.heap
            v = self.ev(expr, e, f.module, f)
            if env is not None:
                env.heap = e.heap
            return v
        finally:
            self.quiet -= 1

    def call_func(self, f: Func, args, kw, env, node=None):
        if self.depth >= self.max_depth:
            self.unsupported(f"inlining depth at {f.qual}", node)
        if f.qual in self.fn_stack and self.fn_stack.count(f.qual) >= 2:
            self.unsupported(f"recursion at {f.qual}", node)
        if f.kind == "classmethod" and f.cls:
            names_ = [x.arg for x in f.node.args.posonlyargs + f.node.args.args]
            if names_ and names_[0] not in kw and len(args) + len([k_ for k_ in kw if k_ in names_]) == len(names_) - 1 \
                    and not (args and args[0].k == "class"):
                args = [T("class", f.cls)] + list(args)
        bound, anns = self.bind_args(f, args, kw, env, node)
        if not self.quiet:
            self.calls.append((self.cur_func(), f.short))
        cenv = Env()
        cenv.heap = env.heap
        cenv.facts = list(env.facts)
        cenv.pc = []
        cenv.vars = bound
        # Arguments are passed by reference: a parameter the callee never rebinds still names the caller's object at
        # every exit, so a value that changed (x.append(..), x.clear(), ..) is the caller's object mutated.  The
        # value at each exit travels in the heap under a reserved key and is joined like any other heap cell.
        self.call_seq += 1
        call_id = self.call_seq
        byref = self._byref_params(f, bound, node, len(args))
        passed = {p_: bound[p_] for p_ in byref}
        self.byref_stack.append((call_id, tuple(byref)))
        self.depth += 1
        self.where.append(f.short)
        self.fn_stack.append(f.qual)
        exits = []
        try:
            self.block(f.node.body, cenv, f.module, f, exits)
            if not cenv.dead:
                exits.append((list(cenv.pc), NONE, self.heap_with_byref(cenv), list(cenv.facts)))
        finally:
            self.depth -= 1
            self.where.pop()
            self.fn_stack.pop()
            self.byref_stack.pop()
        if not exits:
            env.dead = True
            env.heap = cenv.heap
            return NONE
        val = self.merge_exits(exits, env)
        if byref:
            env.heap = dict(env.heap)
            for p_, expr in byref.items():
                nv = env.heap.pop(("$byref", call_id, p_), None)
                if nv is None or nv == passed[p_] or nv.k == "undef":
                    continue
                if isinstance(expr, ast.Name):
                    env.vars[expr.id] = nv
                else:
                    self.unsupported(f"argument `{ast.unparse(expr)[:40]}` is mutated by {f.short}", node)
        return val

    def _byref_params(self, f, bound, node, nargs):
        """{parameter: caller's argument expression} for parameters the callee never rebinds and whose argument is an
        lvalue of the caller (a plain name is written back; anything else that gets mutated is reported as unmodelled)"""
        if node is None or not isinstance(node, ast.Call):
            return {}
        cache = self.__dict__.setdefault("_rebound_cache", {})
        if f.qual not in cache:
            cache[f.qual] = {n_.id for n_ in ast.walk(f.node) if isinstance(n_, ast.Name) and isinstance(n_.ctx, (ast.Store, ast.Del))}
        rebound = cache[f.qual]
        if any(isinstance(a_, ast.Starred) for a_ in node.args) or any(k_.arg is None for k_ in node.keywords):
            return {}
        a = f.node.args
        names = [x.arg for x in a.posonlyargs + a.args]
        off = nargs - len(node.args)         # bound receiver (self / cls) ahead of the written arguments
        out = {}
        if off in (0, 1):
            for i, expr in enumerate(node.args):
                if i + off < len(names):
                    out[names[i + off]] = expr
        for k_ in node.keywords:
            out[k_.arg] = k_.value
        return {p_: e_ for p_, e_ in out.items() if p_ in bound and p_ not in rebound and isinstance(e_, (ast.Name, ast.Attribute, ast.Subscript))}

    def heap_with_byref(self, env):
        if not self.byref_stack or not self.byref_stack[-1][1]:
            return env.heap
        call_id, names = self.byref_stack[-1]
        h = dict(env.heap)
        for p_ in names:
            if p_ in env.vars:
                h[("$byref", call_id, p_)] = env.vars[p_]
        return h

    def merge_exits(self, exits, env):
        """join the states of all normal exits of an inlined callee into the caller's env"""
        if len(exits) == 1:
            pc, val, heap, facts = exits[0]
            env.heap = heap
            for x in facts:
                env.add_fact(x)
            return val
        conds = [conj(pc) for pc, _v, _h, _f in exits]
        # the unconditional exit (if any) is the default of the gamma chain
        for i, c in enumerate(conds[:-1]):
            if is_const(c, True):
                exits = exits[:i] + exits[i + 1:] + [exits[i]]
                conds = conds[:i] + conds[i + 1:] + [conds[i]]
                break
        val = exits[-1][1]
        for (pc, v, h, fcts), c in zip(reversed(exits[:-1]), reversed(conds[:-1])):
            val = gamma(c, v, val)
        keys = set()
        for _pc, _v, h, _f in exits:
            keys.update(h.keys())
        newheap = {}
        for key in keys:
            vals = [h.get(key) for _pc, _v, h, _f in exits]
            first = vals[0]
            if all(v is not None and v == first for v in vals):
                newheap[key] = first
                continue
            cur = vals[-1] if vals[-1] is not None else T("undef", key[0], key[1])
            for v, c in zip(reversed(vals[:-1]), reversed(conds[:-1])):
                cur = gamma(c, v if v is not None else T("undef", key[0], key[1]), cur)
            newheap[key] = cur
        env.heap = newheap
        common = [x for x in exits[0][3] if all(x in e[3] for e in exits[1:])]
        for x in common:
            env.add_fact(x)
        # a disjunction of the exit path conditions is also known
        return val

    # ------------------------------------------------------------------ constructors
    def construct(self, clsq, args, kw, env, node):
        P = self.P
        if clsq not in P.classes:
            self.unsupported(f"construct {clsq}", node)
        if P.is_enum(clsq):
            return self.enum_cast(clsq, args[0] if args else kw.get("value"), env, node)
        if P.is_exception(clsq):
            return T("exc", clsq)
        obj = self.new_object(clsq)
        r = P.lookup(clsq, "__init__")
        if r is None or r[0] != "method":
            if P.is_dataclass(clsq):
                self.dataclass_init(obj, clsq, args, kw, env, node)
            return obj
        self.call_func(r[1], [obj] + args, kw, env, node)
        return obj

    def dataclass_init(self, obj, clsq, args, kw, env, node):
        fields = self.P.dataclass_fields(clsq)
        kw = dict(kw)
        for i, (fname, ann, default, fmod) in enumerate(fields):
            if i < len(args):
                v = args[i]
            elif fname in kw:
                v = kw.pop(fname)
            elif default is not None:
                v = self.dataclass_default(default, fmod)
            else:
                self.unsupported(f"dataclass arg {fname} of {clsq}", node)
            self.setattr(obj, fname, v, env, node, None)
        if kw:
            self.unsupported(f"unexpected dataclass kwargs {list(kw)}", node)

    def dataclass_default(self, default, mod):
        if isinstance(default, ast.Call) and ast.unparse(default.func).split(".")[-1] == "field":
            for k in default.keywords:
                if k.arg == "default_factory":
                    fac = self.ev(k.value, Env(), mod, None)
                    return self.call(fac, [], {}, Env(), default)
                if k.arg == "default":
                    return self.ev(k.value, Env(), mod, None)
            return NONE
        self.quiet += 1
        try:
            return self.ev(default, Env(), mod, None)
        finally:
            self.quiet -= 1

    def enum_cast(self, clsq, v, env, node):
        if v is None:
            self.unsupported("enum() without value", node)
        vals = self.enum_values(clsq)
        if v.k == "const":
            if v.a[0] in vals:
                return T("const", v.a[0], ty=clsq)
            if self.log_raise("ValueError", env, node, kind="enum"):
                pass
            env.dead = True
            return NONE
        if v.k == "gamma":
            return gamma(v.a[0], self.enum_cast(clsq, v.a[1], env, node), self.enum_cast(clsq, v.a[2], env, node))
        if v.ty == clsq:
            return v
        member = binop("in", v, T("tuple", tuple(C(x) for x in sorted(vals))))
        self.log_raise("ValueError", env, node, kind="enum", cond=un("not", member), extra=clsq)
        env.add_fact(member)
        return T("enumcast", clsq, v, ty=clsq)

    # ------------------------------------------------------------------ builtins
    def call_builtin(self, name, args, kw, env, node):
        short = name.split(".")[-1]
        if name == "len":
            a = args[0]
            if a.k == "obj" and isinstance(a.ty, str) and a.ty in self.P.classes:
                r = self.P.lookup(a.ty, "__len__")
                if r and r[0] == "method":
                    return self.call_func(r[1], [a], {}, env, node)
            return length(a)
        if name == "pow":
            if len(args) == 2:
                return binop("**", args[0], args[1])
            self.unsupported("pow/3", node)
        if name == "int":
            if not args:
                return C(0)
            a = args[0]
            if a.k == "obj" and isinstance(a.ty, str) and a.ty in self.P.classes:
                r = self.P.lookup(a.ty, "__int__")
                if r and r[0] == "method":
                    return self.call_func(r[1], [a], {}, env, node)
            if a.ty == "str" or (a.k == "call" and a.a[0] in ("rstrip", "strip", ".readline")):
                return T("call", "int", (a,), ty="int")
            return un("int", a)
        if name == "int.from_bytes":
            # value of a whole byte string: exact only for a slice of constant extent, otherwise opaque (and it
            # then depends on the full extent of its argument, which the independence rule inspects)
            buf = args[0]
            order = args[1] if len(args) > 1 else kw.get("byteorder", C("big"))
            if buf.k == "slice" and buf.a[1].k == "const" and buf.a[2].k == "const" and isinstance(buf.a[2].a[0], int) \
                    and order.k == "const" and order.a[0] == "big":
                n = buf.a[2].a[0] - buf.a[1].a[0]
                val = C(0)
                for i in range(max(n, 0)):
                    val = binop("|", val, binop("<<", self.do_index(buf, C(i), env, node), C(8 * (n - 1 - i))))
                return val
            if buf.k == "slice" and order.k == "const" and order.a[0] == "big" and not is_const(buf.a[2], None) \
                    and not (kw.get("signed") is not None and not is_const(kw.get("signed"), False)):
                # a slice of constant extent at a symbolic position: the same value term struct.unpack of the unsigned
                # format gives (for a slice that Python has clamped the value would be that of fewer octets; whether a
                # short buffer can get here at all is decided by the length-refusal rules, not by this term)
                from .linear import linearize
                ext = linearize(buf.a[2]) - linearize(buf.a[1])
                if ext.is_const() and ext.c in (1, 2, 4, 8):
                    return T("unpacked", {1: "!B", 2: "!H", 4: "!I", 8: "!Q"}[ext.c], buf, ty="int")
                if ext.is_const() and 0 < ext.c <= 16:
                    val = C(0)
                    for i in range(ext.c):
                        val = binop("|", val, binop("<<", self.do_index(buf, C(i), env, node), C(8 * (ext.c - 1 - i))))
                    return val
            return T("call", "int.from_bytes", (buf,), ty="int")
        if name == "bool":
            return truthy(args[0]) if args else FALSE
        if name == "float":
            return T("call", "float", tuple(args), ty="float")
        if name == "abs":
            return un("abs", args[0])
        if name in ("bytearray", "bytes"):
            if not args:
                return bcat()
            a = args[0]
            if a.k in ("tuple", "list"):
                return bcat(tuple(T("u8", x) for x in a.a[0]))
            if a.k == "const" and isinstance(a.a[0], int):
                return bcat((T("lit", bytes(a.a[0])),)) if a.a[0] else bcat()
            if a.ty == "int" or (a.k == "op" and a.a[0] in ("+", "-", "*")) or (a.k == "un" and a.a[0] == "len"):
                return bcat((T("zeros", a),))       # bytearray(n): a buffer of n zero octets to be filled in
            return as_bcat(a)
        if name == "struct.pack":
            fmt = args[0]
            if fmt.k == "gamma":
                return gamma(fmt.a[0], self.call_builtin(name, [fmt.a[1]] + args[1:], kw, env, node),
                             self.call_builtin(name, [fmt.a[2]] + args[1:], kw, env, node))
            if fmt.k == "const" and isinstance(fmt.a[0], str) and len(args) > 2:
                # several fields in one format: the concatenation of the single-field packings (big-endian / no alignment)
                parts = _split_struct_format(fmt.a[0])
                if parts is None or len(parts) != len(args) - 1:
                    self.unsupported("struct.pack with an unsupported multi-field format", node)
                out = bcat()
                from .terms import bcat_concat
                for f_, v_ in zip(parts, args[1:]):
                    out = bcat_concat(out, self.call_builtin(name, [C(f_), v_], kw, env, node))
                return out
            if fmt.k != "const" or len(args) != 2:
                self.unsupported("struct.pack with non-constant or multi-field format", node)
            if not self.quiet:
                self.notes.append({"kind": "struct.pack", "fmt": fmt.a[0], "val": args[1], "facts": list(env.facts),
                                   "where": self.loc(node), "func": self.cur_func(), "stack": tuple(self.where),
                                   "text": _txt(node)})
            return bcat((T("packed", fmt.a[0], args[1]),))
        if name == "struct.pack_into" and len(args) >= 4:
            # struct.pack_into(fmt, buf, offset, v...): the octets struct.pack gives, written over buf[offset:offset+n]
            fmt, buf, off = args[0], args[1], args[2]
            tpos = getattr(self, "_pack_into_target_pos", 1)
            target = node.args[tpos] if isinstance(node, ast.Call) and len(node.args) > tpos else None
            if not (fmt.k == "const" and isinstance(fmt.a[0], str) and off.k == "const" and isinstance(off.a[0], int) and off.a[0] >= 0
                    and buf.k == "bcat" and isinstance(target, ast.Name) and env.vars.get(target.id) is buf):
                self.unsupported("struct.pack_into with a non-constant format / offset or a buffer that is not a local byte string", node)
            new = self.call_builtin("struct.pack", [fmt] + list(args[3:]), {}, env, node)
            n = struct.calcsize(fmt.a[0])
            spliced = self._bcat_splice(buf, off.a[0], n, tuple(new.a[0]), node)
            if spliced is None:
                self.log_raise("struct.error", env, node, kind="struct")
                env.dead = True
                return NONE
            env.vars[target.id] = spliced
            return NONE
        if name in ("getattr", "setattr") and len(args) >= 2 and args[1].k == "const" and isinstance(args[1].a[0], str):
            if name == "getattr" and len(args) == 2:
                return self.getattr(args[0], args[1].a[0], env, node)
            if name == "setattr" and len(args) == 3:
                self.setattr(args[0], args[1].a[0], args[2], env, node, None)
                return NONE
        if name in ("itertools.chain", "chain") and args and all(a_.k in ("list", "tuple") for a_ in args):
            out_ = ()
            for a_ in args:
                out_ += tuple(a_.a[0])
            return T("list", out_, ty=("list", None))
        if name == "struct.unpack":
            fmt, buf = args[0], args[1]
            if fmt.k == "gamma":
                # each alternative of the format is used exactly under its own condition (the read log needs it)
                e1, e2 = env.clone(), env.clone()
                e1.add_fact(fmt.a[0])
                e2.add_fact(un("not", fmt.a[0]))
                r1 = self.call_builtin(name, [fmt.a[1], buf], kw, e1, node) if not e1.dead and not is_const(fmt.a[1], None) else None
                r2 = self.call_builtin(name, [fmt.a[2], buf], kw, e2, node) if not e2.dead and not is_const(fmt.a[2], None) else None
                if r1 is None:
                    return r2 if r2 is not None else T("tuple", (NONE,))
                if r2 is None:
                    return r1
                return gamma(fmt.a[0], r1, r2)
            if fmt.k != "const":
                self.unsupported("struct.unpack with non-constant format", node)
            n = struct.calcsize(fmt.a[0])
            self.log_read("unpack", buf, C(0), C(n), env, node, extra=fmt.a[0])
            parts = _split_struct_format(fmt.a[0])
            if parts is not None and len(parts) > 1:
                # several fields: each is the single-field decoding of its own sub-slice (the exact-length requirement of
                # the whole call has been logged above)
                vals, off = [], 0
                for f_ in parts:
                    w_ = struct.calcsize(f_)
                    if f_[1] == "B":
                        vals.append(self.do_index(buf, C(off), env, node))       # an unsigned octet is the octet itself
                    else:
                        vals.append(T("unpacked", f_, self.do_slice(buf, C(off), C(off + w_), env, node), ty="int"))
                    off += w_
                return T("tuple", tuple(vals))
            if fmt.a[0] in ("!B", ">B", "<B", "B") and not (buf.k == "sym"):
                return T("tuple", (self.do_index(buf, C(0), env, node),))
            return T("tuple", (T("unpacked", fmt.a[0], buf, ty="int"),))
        if name == "struct.unpack_from":
            # unpack_from(fmt, buffer, offset=0): reads exactly calcsize(fmt) octets at offset, the buffer may be longer
            fmt, buf = args[0], args[1]
            off = args[2] if len(args) > 2 else kw.get("offset", C(0))
            if fmt.k != "const" or not isinstance(fmt.a[0], str):
                self.unsupported("struct.unpack_from with non-constant format", node)
            n = struct.calcsize(fmt.a[0])
            sl = self.do_slice(buf, off, binop("+", off, C(n)), env, node) if hasattr(self, "do_slice") else T("slice", buf, off, binop("+", off, C(n)), ty="bytes")
            return self.call_builtin("struct.unpack", [fmt, sl], {}, env, node)
        if name == "struct.Struct" and len(args) == 1 and args[0].k == "const" and isinstance(args[0].a[0], str):
            # a compiled format: its methods are the module functions with the format fixed
            return T("structobj", args[0].a[0])
        if name == "struct.calcsize" and args[0].k == "const":
            return C(struct.calcsize(args[0].a[0]))
        if name == "isinstance":
            return self.do_isinstance(args[0], args[1], env, node)
        if name == "divmod" and len(args) == 2:
            return T("tuple", (binop("//", args[0], args[1]), binop("%", args[0], args[1])))
        if name == "sum" and len(args) >= 1 and args[0].k in ("tuple", "list", "optlist"):
            tot = args[1] if len(args) > 1 else C(0)
            for x_ in args[0].a[0]:
                if args[0].k == "optlist":
                    x_ = gamma(x_[0], x_[1], C(0))
                tot = binop("+", tot, x_)
            return tot
        if name in ("max", "min"):
            if len(args) == 2:
                c = binop(">=" if name == "max" else "<=", args[0], args[1])
                return gamma(c, args[0], args[1])
            return T("call", name, tuple(args), ty="int")
        if name == "round":
            if len(args) == 1 and args[0].k == "const" and isinstance(args[0].a[0], (int, float)):
                return C(round(args[0].a[0]))
            return T("call", "round", tuple(args), ty="int" if len(args) == 1 else "float")
        if name == "math.floor":
            return T("call", "floor", tuple(args), ty="int")
        if name == "range":
            return T("range", tuple(args), ty=("list", "int"))
        if name in ("copy.copy", "copy.deepcopy", "dataclasses.replace"):
            return self.do_copy(args[0], env, node, deep=name != "copy.copy")
        if name in ("typing.cast", "cast"):
            return args[1]
        if name == "hash":
            a = args[0]
            if a.k == "obj" and isinstance(a.ty, str) and a.ty in self.P.classes:
                r = self.P.lookup(a.ty, "__hash__")
                if r and r[0] == "method":
                    return self.call_func(r[1], [a], {}, env, node)
            return T("call", "hash", tuple(args), ty="int")
        if name in ("str", "repr", "hex", "print", "id", "sorted", "enumerate", "zip", "any", "all", "sum",
                    "divmod", "type", "iter", "next", "open", "set", "tuple"):
            if name == "tuple" and args and args[0].k in ("tuple", "list"):
                return T("tuple", args[0].a[0])
            ty = {"str": "str", "repr": "str", "hex": "str", "open": "file"}.get(name)
            if name == "open":
                self.log_fileop("open", None, args, kw, env, node)
            return T("call", name, tuple(args), ty=ty)
        if name == "slice" and 1 <= len(args) <= 2:
            lo_, hi_ = (C(0), args[0]) if len(args) == 1 else (args[0] if not is_const(args[0], None) else C(0), args[1])
            return T("sliceobj", lo_, hi_)
        if name == "frozenset" and len(args) == 1:
            return args[0]          # only membership and iteration are observed; both are those of the argument
        if name == "map" and len(args) == 2 and args[1].k in ("tuple", "list"):
            return T("list", tuple(self.call(args[0], [x_], {}, env, node, None) for x_ in args[1].a[0]), ty=("list", None))
        if name == "dict":
            return T("dictlit", (), ty="dict")
        if name == "list":
            if not args:
                return T("list", (), ty=("list", None))
            return args[0]
        if name in EXC_BUILTINS or short in EXC_BUILTINS:
            return T("exc", name)
        if name.endswith("mkPredefinedCrcFun"):
            return T("crcfun", kw.get("crc_name", args[0] if args else NONE))
        if name.endswith("PredefinedCrc"):
            return T("crcobj", kw.get("crc_name", args[0] if args else NONE))
        if short == "field" and name.startswith(("dataclasses", "field")):
            return T("call", "dcfield", ())
        if name.startswith(OPAQUE_PREFIXES) or short in ("Path",):
            ty = None
            if name.startswith("datetime"):
                ty = "datetime"
            # keyword arguments keep their names: timedelta(milliseconds=1) is not timedelta(1)
            return T("call", name, tuple(args) + tuple(T("kw", k_, v_) for k_, v_ in kw.items()), ty=ty)
        if name == "super":
            return T("super")
        self.unsupported(f"builtin {name}", node)

    def do_isinstance(self, x, cls, env, node):
        names = []
        items = cls.a[0] if cls.k == "tuple" else (cls,)
        for c in items:
            if c.k == "class":
                names.append(c.a[0])
            elif c.k == "builtin":
                names.append("py:" + c.a[0])
            else:
                return T("call", "isinstance", (x, cls), ty="bool")
        if x.k == "gamma":
            return gamma(x.a[0], self.do_isinstance(x.a[1], cls, env, node), self.do_isinstance(x.a[2], cls, env, node))
        if x.k == "obj" and isinstance(x.ty, str) and x.ty in self.P.classes:
            mro = self.P.mro(x.ty)
            return C(any(n in mro for n in names))
        if x.k == "const":
            v = x.a[0]
            pyt = {"py:int": int, "py:bytes": bytes, "py:bytearray": bytearray, "py:str": str, "py:bool": bool,
                   "py:float": float}
            res = False
            for n in names:
                if n in pyt and isinstance(v, pyt[n]):
                    res = True
                if n in self.P.classes and x.ty == n:
                    res = True
            return C(res)
        if x.k == "bcat":
            return C(any(n in ("py:bytes", "py:bytearray") for n in names))
        tymap = {"int": {"py:int"}, "bool": {"py:int", "py:bool"}, "bytes": {"py:bytes", "py:bytearray"},
                 "str": {"py:str"}, "float": {"py:float"}}
        if x.ty in tymap:
            if x.ty == "bytes":
                # a bytes-annotated input may be bytes or bytearray at run time
                if {"py:bytes", "py:bytearray"} <= set(names):
                    return TRUE
                if not ({"py:bytes", "py:bytearray"} & set(names)):
                    return FALSE
                return T("call", "isinstance", (x, cls), ty="bool")
            return C(bool(tymap[x.ty] & set(names)))
        if isinstance(x.ty, str) and x.ty in self.P.classes:
            mro = self.P.mro(x.ty)
            if any(n in mro for n in names):
                return TRUE
        return T("call", "isinstance", (x, cls), ty="bool")

    def do_copy(self, x, env, node, deep=False):
        if x.k == "obj":
            o = self.new_object(x.ty)
            info = self.obj_info[o.a[0]]
            src = self.obj_info.get(x.a[0], {})
            info["copy_of"] = x
            info["fresh"] = True
            # snapshot of the attributes known now; unknown ones of a symbolic source are read lazily
            for (oid, attr), v in list(env.heap.items()):
                if oid == x.a[0]:
                    env.heap[(o.a[0], attr)] = v
            if src.get("symbolic"):
                info["symbolic"] = True
                info["root"] = None
                info["nested_root"] = src.get("root") or src.get("nested_root")
                info["path"] = src.get("path")
            return o
        if x.k == "gamma":
            return gamma(x.a[0], self.do_copy(x.a[1], env, node, deep), self.do_copy(x.a[2], env, node, deep))
        return x


def _split_struct_format(fmt):
    """'!BBHh' -> ['!B', '!B', '!H', '!h'] for network/big-endian formats without repeat counts of strings;
    None if the format is not of that simple kind"""
    if not fmt or fmt[0] not in "!>":
        return None
    out, num = [], ""
    for ch in fmt[1:]:
        if ch.isdigit():
            num += ch
            continue
        if ch not in "bBhHiIlLqQ":
            return None
        out += [fmt[0] + ch] * (int(num) if num else 1)
        num = ""
    return out if not num else None
