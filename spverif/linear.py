"""Linear forms over term atoms, constraint extraction from boolean terms, and an in-house
Fourier-Motzkin entailment test (the entailment operator of a small polyhedral domain).

No external solver.  Everything is over integers; FM is run on the rational relaxation, which is
sound for proving (rationally infeasible => integer infeasible).  Counter-models are integer
assignments to atoms found by back-substitution and re-checked against every constraint.
"""
from __future__ import annotations

import struct
from fractions import Fraction
from itertools import product

from .terms import T, C, is_const, show, un, binop, gamma, truthy, subterms, length, bcat_len

MAX_CASES = 256


class Lin:
    """c0 + sum ci * atom_i ; atoms are terms"""
    __slots__ = ("co", "c")

    def __init__(self, co=None, c=0):
        self.co = {k: v for k, v in (co or {}).items() if v != 0}
        self.c = c

    def __add__(self, o):
        co = dict(self.co)
        for k, v in o.co.items():
            co[k] = co.get(k, 0) + v
        return Lin(co, self.c + o.c)

    def __sub__(self, o):
        return self + o.scale(-1)

    def scale(self, k):
        return Lin({a: v * k for a, v in self.co.items()}, self.c * k)

    def is_const(self):
        return not self.co

    def atoms(self):
        return set(self.co)

    def key(self):
        return (tuple(sorted((show(a), v) for a, v in self.co.items())), self.c)

    def __eq__(self, o):
        return isinstance(o, Lin) and self.co == o.co and self.c == o.c

    def __hash__(self):
        return hash(self.key())

    def __repr__(self):
        parts = []
        for a, v in sorted(self.co.items(), key=lambda kv: show(kv[0])):
            parts.append(f"{'' if v == 1 else ('-' if v == -1 else str(v) + '*')}{show(a)}")
        if self.c or not parts:
            parts.append(str(self.c))
        return " + ".join(parts).replace("+ -", "- ")

    def subst(self, mapping):
        """mapping: atom -> Lin"""
        r = Lin({}, self.c)
        for a, v in self.co.items():
            r = r + (mapping[a].scale(v) if a in mapping else Lin({a: v}))
        return r


def linearize(t, depth=0):
    """term -> Lin (non-linear sub-terms become atoms).  Never fails; returns a Lin."""
    k = t.k
    if k == "const":
        v = t.a[0]
        if isinstance(v, bool):
            return Lin({}, int(v))
        if isinstance(v, int):
            return Lin({}, v)
        return Lin({t: 1})
    if k == "op":
        o, a, b = t.a
        if o == "+":
            return linearize(a) + linearize(b)
        if o == "-":
            return linearize(a) - linearize(b)
        if o == "*":
            la, lb = linearize(a), linearize(b)
            if la.is_const():
                return lb.scale(la.c)
            if lb.is_const():
                return la.scale(lb.c)
        if o == "<<" and b.k == "const" and isinstance(b.a[0], int) and 0 <= b.a[0] < 64:
            return Lin({t: 1})
        if o == "//" and b.k == "const" and isinstance(b.a[0], int) and not isinstance(b.a[0], bool) and b.a[0] > 1:
            # floor division by a positive constant: summands that are multiples of it leave the quotient exactly
            # ((c*k*X + R) // c == k*X + R // c for integers)
            c_ = b.a[0]
            la = linearize(a)
            whole = {k_: v_ // c_ for k_, v_ in la.co.items() if v_ % c_ == 0}
            rest = {k_: v_ for k_, v_ in la.co.items() if v_ % c_ != 0}
            if whole and all((x_.ty == "int" or x_.k in ("idx", "unpacked") or (x_.k == "un" and x_.a[0] in ("len", "int"))
                              or (x_.k == "bound?" and x_.a[0] in ("days", "seconds", "microseconds"))) for x_ in whole):
                if not rest:
                    return Lin(whole, la.c // c_)
                rt = C(la.c)
                for a_, v_ in sorted(rest.items(), key=lambda kv: show(kv[0])):
                    rt = binop("+", rt, a_ if v_ == 1 else binop("*", C(v_), a_))
                return Lin(whole, 0) + Lin({binop("//", rt, b): 1})
            return Lin({t: 1})
        if o == "|":
            f_ = _be_field(t)
            if f_ is not None:
                return Lin({f_: 1})
        return Lin({t: 1})
    if k == "un":
        o, a = t.a
        if o == "-":
            return linearize(a).scale(-1)
        if o == "+":
            return linearize(a)
        if o == "int" and a.k != "op":
            return linearize(a)
        if o == "len":
            # len(slice) with proven-in-range bounds is handled by the caller through substitution
            if a.k == "bcat":
                return linearize(bcat_len(a))
            return Lin({t: 1})
        return Lin({t: 1})
    if k == "enumcast":
        return linearize(t.a[1])
    if k == "gamma":
        c, a, b = t.a
        la, lb = linearize(a), linearize(b)
        if la.key() == lb.key():
            return la
        # lemma: γ(x > 0 ? x : 0) == x for x >= 0 (lengths), and the mirrored forms
        if c.k == "op" and c.a[0] in (">", "!=") and is_const(c.a[2], 0) and lb.is_const() and lb.c == 0:
            lc = linearize(c.a[1])
            if lc.key() == la.key() and term_range(c.a[1])[0] == 0:
                return la
        if c.k == "op" and c.a[0] == "==" and is_const(c.a[2], 0) and la.is_const() and la.c == 0:
            lc = linearize(c.a[1])
            if lc.key() == lb.key() and term_range(c.a[1])[0] == 0:
                return lb
    return Lin({t: 1})


def _be_field(t):
    """(b[k] << 8(n-1)) | ... | b[k+n-1] for n in {2, 4, 8} consecutive octets of one buffer symbol is the big-endian
    unsigned field struct.unpack reads there: one canonical atom for both spellings"""
    parts, stack = [], [t]
    while stack:
        x = stack.pop()
        if x.k == "op" and x.a[0] == "|":
            stack += [x.a[1], x.a[2]]
        else:
            parts.append(x)
    got = {}
    root = None
    for p_ in parts:
        sh = 0
        if p_.k == "op" and p_.a[0] == "<<" and p_.a[2].k == "const" and isinstance(p_.a[2].a[0], int):
            sh, p_ = p_.a[2].a[0], p_.a[1]
        if not (p_.k == "idx" and p_.a[0].k == "sym" and sh % 8 == 0):
            return None
        if root is None:
            root = p_.a[0]
        elif root != p_.a[0]:
            return None
        if sh in got:
            return None
        got[sh] = linearize(p_.a[1]) if not (p_.a[1].k == "const" and isinstance(p_.a[1].a[0], int)) else Lin({}, p_.a[1].a[0])
    n = len(got)
    if n not in (2, 4, 8) or sorted(got) != [8 * i for i in range(n)]:
        return None
    k0 = got[8 * (n - 1)]
    if any((got[8 * (n - 1 - i)] - k0).key() != Lin({}, i).key() for i in range(n)) or (k0.is_const() and k0.c < 0):
        return None

    def lt(l):
        # same canonical spelling of a position as decode_rules.lin_term
        t_ = C(l.c)
        for a_, v_ in sorted(l.co.items(), key=lambda kv: show(kv[0])):
            t_ = binop("+", t_, a_ if v_ == 1 else binop("*", C(v_), a_))
        return t_
    return T("unpacked", {2: "!H", 4: "!I", 8: "!Q"}[n], T("slice", root, lt(k0), lt(k0 + Lin({}, n)), ty="bytes"), ty="int")


# ---------------------------------------------------------------------------- atom ranges
FMT_RANGE = {"B": (0, 2 ** 8 - 1), "H": (0, 2 ** 16 - 1), "I": (0, 2 ** 32 - 1), "Q": (0, 2 ** 64 - 1),
             "b": (-2 ** 7, 2 ** 7 - 1), "h": (-2 ** 15, 2 ** 15 - 1), "i": (-2 ** 31, 2 ** 31 - 1),
             "q": (-2 ** 63, 2 ** 63 - 1), "L": (0, 2 ** 32 - 1), "l": (-2 ** 31, 2 ** 31 - 1)}


def atom_range(a):
    """(lo, hi) with None = unbounded; derived from the atom's own shape only"""
    k = a.k
    if k == "idx":
        return (0, 255)
    if k == "boolatom":
        return (0, 1)
    if k == "unpacked":
        f = a.a[0].lstrip("!<>=@")
        return FMT_RANGE.get(f, (None, None))
    if k == "un" and a.a[0] == "len":
        return (0, None)
    if k == "un" and a.a[0] in ("bool", "not"):
        return (0, 1)
    if k == "un" and a.a[0] == "int":
        return (0, 1) if a.a[1].k == "op" else (None, None)
    if k == "sum":
        return (0, None)
    if k == "op":
        o, x, y = a.a
        if o == "&":
            for p, q in ((x, y), (y, x)):
                if q.k == "const" and isinstance(q.a[0], int) and q.a[0] >= 0:
                    return (0, q.a[0])
            return (None, None)
        if o == ">>" and y.k == "const":
            lo, hi = term_range(x)
            if lo is not None and lo >= 0 and hi is not None:
                return (lo >> y.a[0], hi >> y.a[0])
            return (0 if lo is not None and lo >= 0 else None, None)
        if o == "<<" and y.k == "const":
            lo, hi = term_range(x)
            if lo is not None and lo >= 0:
                return (lo << y.a[0], None if hi is None else hi << y.a[0])
        if o == "|":
            r1, r2 = term_range(x), term_range(y)
            if None not in r1 and None not in r2 and r1[0] >= 0 and r2[0] >= 0:
                bits = max(r1[1].bit_length(), r2[1].bit_length())
                return (max(r1[0], r2[0]), (1 << bits) - 1)
        if o == "%" and y.k == "const" and isinstance(y.a[0], int) and y.a[0] > 0:
            return (0, y.a[0] - 1)
        if o in ("==", "!=", "<", "<=", ">", ">=", "and", "or", "in", "notin", "is", "isnot"):
            return (0, 1)
        if o == "**" and x.k == "const" and isinstance(x.a[0], int) and x.a[0] >= 1:
            return (1, None)
        if o == "*":
            r1, r2 = term_range(x), term_range(y)
            if r1[0] is not None and r2[0] is not None and r1[0] >= 0 and r2[0] >= 0:
                hi = None if r1[1] is None or r2[1] is None else r1[1] * r2[1]
                return (r1[0] * r2[0], hi)
        if o == "//" and y.k == "const" and isinstance(y.a[0], int) and y.a[0] > 0:
            lo, hi = term_range(x)
            return (None if lo is None else lo // y.a[0], None if hi is None else hi // y.a[0])
    if k == "gamma":
        r1, r2 = term_range(a.a[1]), term_range(a.a[2])
        lo = None if r1[0] is None or r2[0] is None else min(r1[0], r2[0])
        hi = None if r1[1] is None or r2[1] is None else max(r1[1], r2[1])
        return (lo, hi)
    if k == "sym" and a.ty == "bool":
        return (0, 1)
    return (None, None)


def term_range(t):
    l = linearize(t)
    lo, hi = l.c, l.c
    for a, v in l.co.items():
        alo, ahi = atom_range(a)
        if v < 0:
            alo, ahi = ahi, alo
        lo = None if lo is None or alo is None else lo + v * alo
        hi = None if hi is None or ahi is None else hi + v * ahi
    return (lo, hi)


# ---------------------------------------------------------------------------- boolean term -> DNF of Lin >= 0
class TooManyCases(Exception):
    pass


DROPPED = [0]   # number of literals weakened to `true` by to_dnf since the last reset


def _drop():
    DROPPED[0] += 1
    return [[]]


def _cmp_to_cons(o, a, b):
    """list of alternative conjunctions; each conjunction is a list of Lin (meaning Lin >= 0)"""
    la, lb = linearize(a), linearize(b)
    d = la - lb
    if o == ">=":
        return [[d]]
    if o == ">":
        return [[d + Lin({}, -1)]]
    if o == "<=":
        return [[d.scale(-1)]]
    if o == "<":
        return [[d.scale(-1) + Lin({}, -1)]]
    if o == "==":
        return [[d, d.scale(-1)]]
    if o == "!=":
        return [[d + Lin({}, -1)], [d.scale(-1) + Lin({}, -1)]]
    return None


def to_dnf(t, positive=True):
    """boolean term -> list of conjunctions (each a list of Lin>=0).  Unknown literals are dropped
    when they occur positively in facts (weakening: sound for facts only!)."""
    t = truthy(t)
    if t.k == "const":
        return [[]] if bool(t.a[0]) == positive else []
    if t.k == "un" and t.a[0] == "not":
        return to_dnf(t.a[1], not positive)
    if t.k == "op":
        o, a, b = t.a
        if o in ("and", "or"):
            conj_like = (o == "and") == positive
            da, db = to_dnf(a, positive), to_dnf(b, positive)
            if conj_like:
                out = [x + y for x in da for y in db]
            else:
                out = da + db
            if len(out) > MAX_CASES:
                raise TooManyCases()
            return out
        if o in (">=", ">", "<=", "<", "==", "!="):
            from .terms import NEG
            oo = o if positive else NEG[o]
            if _numeric(a) and _numeric(b):
                r = _cmp_to_cons(oo, a, b)
                if r is not None:
                    return r
            if o in ("==", "!=") and ((a.k == "const" and isinstance(a.a[0], (bytes, bytearray, str))) or (b.k == "const" and isinstance(b.a[0], (bytes, bytearray, str)))):
                # equality of a byte string / text with a literal: an uninterpreted proposition (same test, same atom)
                x_, y_ = (a, b) if b.k == "const" else (b, a)
                p = T("boolatom", T("op", "==", x_, y_, ty="bool"), ty="int")
                holds = (o == "==") == positive
                return [[Lin({p: 1}, -1)]] if holds else [[Lin({p: -1}, 0)]]
            return _drop()
        if o in ("in", "notin") and b.k in ("tuple", "list"):
            inn = (o == "in") == positive
            alts = []
            if inn:
                for item in b.a[0]:
                    alts += _cmp_to_cons("==", a, item)
                return alts
            conj = [[]]
            for item in b.a[0]:
                alt = _cmp_to_cons("!=", a, item)
                conj = [x + y for x in conj for y in alt]
                if len(conj) > MAX_CASES:
                    raise TooManyCases()
            return conj
        if o in ("in", "notin"):
            # membership in a table that is not a literal: an uninterpreted proposition.  The same test is the same
            # 0/1 atom wherever it occurs (facts and goal), which is all propositional reasoning needs.
            p = T("boolatom", T("op", "in", a, b, ty="bool"), ty="int")
            holds = (o == "in") == positive
            return [[Lin({p: 1}, -1)]] if holds else [[Lin({p: -1}, 0)]]
        return _drop()
    if t.k == "un" and t.a[0] == "bool":
        x = t.a[1]
        if _numeric(x):
            return _cmp_to_cons("!=" if positive else "==", x, C(0))
        return _drop()
    if t.k == "gamma":
        c, a, b = t.a
        out = []
        for cc in to_dnf(c, True):
            for aa in to_dnf(a, positive):
                out.append(cc + aa)
        for cc in to_dnf(c, False):
            for bb in to_dnf(b, positive):
                out.append(cc + bb)
        return out
    if t.k in ("sym", "idx", "unpacked") and (t.ty in ("bool", "int") or t.k != "sym"):
        return _cmp_to_cons("!=" if positive else "==", t, C(0))
    return _drop()


def _numeric(t):
    if t.k == "const":
        return isinstance(t.a[0], (int, bool))
    if t.ty in ("bytes", "str", "float") or t.k in ("bcat", "slice", "obj", "tuple", "list", "class"):
        return False
    if t.k == "call" and t.ty != "int":
        return False
    return True


# ---------------------------------------------------------------------------- Fourier-Motzkin
def _norm(con):
    """con: (dict atom->int coeff, const) meaning sum + const >= 0; divide by gcd"""
    co, c = con
    from math import gcd
    g = 0
    for v in co.values():
        g = gcd(g, abs(v))
    if g > 1:
        co = {k: v // g for k, v in co.items()}
        c = c // g  # floor: valid tightening for integers
    return (co, c)


class ProofBudgetExceeded(Exception):
    pass


DEADLINE = [None]        # kept for callers that still set a wall-clock deadline (unused by the rules)
OPS_LEFT = [None]        # deterministic work budget of the current entailment search (None = unlimited)
OPS_DONE = [0]


def fm_feasible(cons, want_model=False, limit=4000):
    # The budget counts work (constraint rows handed to the elimination), not seconds: the same search gives the same
    # verdict whatever else the machine is doing.
    w = 1 + len(cons)
    OPS_DONE[0] += w
    if OPS_LEFT[0] is not None:
        OPS_LEFT[0] -= w
        if OPS_LEFT[0] < 0:
            raise ProofBudgetExceeded()
    return _fm_feasible(cons, want_model, limit)


def _fm_feasible(cons, want_model=False, limit=4000):
    """cons: list of Lin (>=0).  Returns (feasible?, model or None).  Rational relaxation with integer
    tightening of constants; complete enough for the unit-coefficient systems that arise here."""
    rows = []
    seen = set()
    for l in cons:
        co = dict(l.co)
        row = _norm((co, l.c))
        key = (tuple(sorted((show(a), v) for a, v in row[0].items())), row[1])
        if key in seen:
            continue
        seen.add(key)
        rows.append(row)
    order = []
    atoms = set()
    for co, c in rows:
        atoms.update(co)
    atoms = sorted(atoms, key=show)
    history = []
    cur = rows
    remaining = list(atoms)
    work = 0
    while remaining:
        # greedy elimination order: the atom producing the fewest combinations first
        npos, nneg = {}, {}
        for co_, _c in cur:
            for k_, v_ in co_.items():
                if v_ > 0:
                    npos[k_] = npos.get(k_, 0) + 1
                elif v_ < 0:
                    nneg[k_] = nneg.get(k_, 0) + 1
        best = None
        for cand in remaining:
            cost = npos.get(cand, 0) * nneg.get(cand, 0)
            if best is None or cost < best[0]:
                best = (cost, cand)
                if cost == 0:
                    break
        a = best[1]
        remaining.remove(a)
        work += best[0]
        if best[0] > 20000 or work > 120000:
            return (True, None)  # give up: treat as possibly feasible
        pos = [r for r in cur if r[0].get(a, 0) > 0]
        neg = [r for r in cur if r[0].get(a, 0) < 0]
        rest = [r for r in cur if r[0].get(a, 0) == 0]
        history.append((a, pos, neg))
        new = list(rest)
        seen = set()
        for p in pos:
            for n in neg:
                cp, cn = p[0][a], -n[0][a]
                co = {}
                for k2, v in p[0].items():
                    if k2 is not a and k2 != a:
                        co[k2] = co.get(k2, 0) + v * cn
                for k2, v in n[0].items():
                    if k2 is not a and k2 != a:
                        co[k2] = co.get(k2, 0) + v * cp
                co = {k2: v for k2, v in co.items() if v != 0}
                row = _norm((co, p[1] * cn + n[1] * cp))
                if not row[0] and row[1] < 0:
                    return (False, None)
                key = (tuple(sorted((show(x), v) for x, v in row[0].items())), row[1])
                if key not in seen:
                    seen.add(key)
                    new.append(row)
        if len(new) > limit:
            return (True, None)  # give up: treat as possibly feasible
        cur = new
    for co, c in cur:
        if not co and c < 0:
            return (False, None)
    if not want_model:
        return (True, None)
    # back-substitution: choose integer values from the last eliminated atom to the first
    model = {}
    for a, pos, neg in reversed(history):
        lo, hi = None, None
        for co, c in pos:   # k*a + rest + c >= 0  -> a >= -(rest+c)/k
            k = co[a]
            rest = c + sum(v * model.get(x, 0) for x, v in co.items() if x != a)
            b = Fraction(-rest, k)
            b = -((-b.numerator) // b.denominator) if b.denominator != 1 else int(b)  # ceil
            lo = b if lo is None else max(lo, b)
        for co, c in neg:
            k = -co[a]
            rest = c + sum(v * model.get(x, 0) for x, v in co.items() if x != a)
            b = Fraction(rest, k)
            b = b.numerator // b.denominator  # floor
            hi = b if hi is None else min(hi, b)
        if lo is None and hi is None:
            v = 0
        elif lo is None:
            v = min(hi, 0)
        elif hi is None:
            v = max(lo, 0)
        else:
            if lo > hi:
                return (True, None)
            v = lo if lo >= 0 else (0 if hi >= 0 else hi)
        model[a] = v
    for l in cons:
        if l.c + sum(v * model.get(a, 0) for a, v in l.co.items()) < 0:
            return (True, None)
    return (True, model)


def range_axioms(atoms):
    out = []
    for a in atoms:
        lo, hi = atom_range(a)
        if lo is not None:
            out.append(Lin({a: 1}, -lo))
        if hi is not None:
            out.append(Lin({a: -1}, hi))
    return out


def entails(facts, goal, extra_axioms=(), want_model=False):
    """facts: list of boolean terms known true; goal: boolean term.
    -> ('proved', None) | ('refutable', model) | ('unknown', reason)
    'refutable' means: a rational-feasible, integer-checked assignment of the ATOMS satisfies all
    (linear parts of the) facts and violates the goal.  Whether the atoms are independent inputs is
    the caller's business."""
    DROPPED[0] = 0
    try:
        fact_cases = [[]]
        dnfs = []
        for f in facts:
            d = to_dnf(f, True)
            if not d:
                return ("proved", None)  # contradictory facts: dead code
            dnfs.append(d)
        # single-alternative facts first, then disjunctive ones with pruning of infeasible partial cases
        base = []
        for d in dnfs:
            if len(d) == 1:
                base += d[0]
        fact_cases = [base]
        for d in sorted((d for d in dnfs if len(d) > 1), key=len):
            new = []
            for x in fact_cases:
                for y in d:
                    c = x + y
                    atoms = set()
                    for l in c:
                        atoms |= l.atoms()
                    if not fm_feasible(c + range_axioms(atoms))[0]:
                        continue
                    new.append(c)
            fact_cases = new
            if not fact_cases:
                return ("proved", None)
            if len(fact_cases) > MAX_CASES:
                raise TooManyCases()
        neg_goal = to_dnf(goal, False)
    except TooManyCases:
        return ("unknown", "too many cases")
    if not neg_goal:
        return ("proved", None)
    model = None
    for fc in fact_cases:
        for ng in neg_goal:
            cons = fc + ng + list(extra_axioms)
            atoms = set()
            for l in cons:
                atoms |= l.atoms()
            cons = cons + range_axioms(atoms)
            feas, m = fm_feasible(cons, want_model=True)
            if feas:
                if m is None:
                    return ("unknown", "feasible but no integer model found")
                if model is None:
                    model = m
    if model is None:
        return ("proved", None)
    if DROPPED[0]:
        return ("unknown", "non-linear literal weakened; counter-model not trustworthy")
    return ("refutable", model)


# ---------------------------------------------------------------------------- gamma lemma (installed into terms.gamma)
def _gamma_len_lemma(c, a, b):
    """γ(bool(x), A, B) == A when x is a byte string and A - B == len(x): bool(x) is false exactly when
    len(x) == 0, in which case A == B.  (PusTmSecondaryHeader.header_size and similar `if self.x:` idioms.)"""
    x = c.a[1]
    if not (x.k in ("slice", "bcat") or x.ty in ("bytes", "bytearray")):
        return None
    if not (_numeric(a) and _numeric(b)):
        return None
    try:
        d = linearize(a) - linearize(b)
        if d.key() == linearize(length(x)).key():
            return a
    except Exception:
        return None
    return None


from . import terms as _terms
_terms.GAMMA_HOOK[0] = _gamma_len_lemma


def lower_bound(t, depth=0):
    """syntactic lower bound of an integer term (None = unknown); gated alternatives take the minimum"""
    if depth > 60:
        return None
    k = t.k
    if k == "const":
        v = t.a[0]
        return int(v) if isinstance(v, (int, bool)) else None
    if k == "gamma":
        # an `undef` alternative is a merge artefact: the attribute of an object that exists only on the other
        # exit path of an inlined callee; that combination is unreachable
        if t.a[1].k == "undef":
            return lower_bound(t.a[2], depth + 1)
        if t.a[2].k == "undef":
            return lower_bound(t.a[1], depth + 1)
        a, b = lower_bound(t.a[1], depth + 1), lower_bound(t.a[2], depth + 1)
        return None if a is None or b is None else min(a, b)
    if k == "op" and t.a[0] == "+":
        a, b = lower_bound(t.a[1], depth + 1), lower_bound(t.a[2], depth + 1)
        return None if a is None or b is None else a + b
    if k == "op" and t.a[0] == "*" and t.a[2].k == "const" and isinstance(t.a[2].a[0], int) and t.a[2].a[0] >= 0:
        a = lower_bound(t.a[1], depth + 1)
        return None if a is None else a * t.a[2].a[0]
    if k == "un" and t.a[0] == "len":
        return 0
    if k in ("idx", "sum"):
        return 0
    if k == "enumcast":
        return lower_bound(t.a[1], depth + 1)
    lo, _hi = term_range(t)
    return lo


def delta_lower_bound(nxt, cur):
    """syntactic lower bound of nxt - cur, distributing over gated alternatives (None = unknown)"""
    if nxt.k == "gamma":
        a, b = delta_lower_bound(nxt.a[1], cur), delta_lower_bound(nxt.a[2], cur)
        return None if a is None or b is None else min(a, b)
    d = linearize(nxt) - linearize(cur)
    lo = d.c
    for atom, coef in d.co.items():
        if atom.k == "gamma":
            alo, ahi = lower_bound(atom), None
        else:
            alo, ahi = term_range(atom)
        bound = alo if coef > 0 else ahi
        if bound is None:
            return None
        lo += coef * bound
    return lo
