"""Shared drivers for the CFDP property modules (C04-C07, C09-C12): configuration cases, header
reference layout, decoder case analysis over the structure-determining octets 0 and 3."""
from __future__ import annotations

from .gti import new_interp, call_method, construct, read_path, Env, Unsupported
from .terms import T, C, sym, show, binop, length, NONE
from .layout import F, K, A, B, CRC
from .linear import Lin, linearize
from . import rules as R

DEFS = "cfdp.defs"
WIDTH_CLASS = {1: "util.ByteFieldU8", 2: "util.ByteFieldU16", 4: "util.ByteFieldU32", 8: "util.ByteFieldU64"}
ALL_WIDTHS = (1, 2, 4, 8)
QUICK_WIDTH_PAIRS = ((1, 1), (2, 4), (8, 2), (4, 8))


def width_pairs(tier):
    if tier == "thorough":
        return [(e, s) for e in ALL_WIDTHS for s in ALL_WIDTHS]
    return list(QUICK_WIDTH_PAIRS)


def enumc(P, q, v):
    return T("const", v, ty=P.cls(q).qual)


def esym(P, name, q):
    return sym(name, ty=P.cls(q).qual)


def make_conf(it, env, P, E, S, crc=None, large=None, prefix="", direction=None):
    """a PduConfig with concrete ID widths; flags symbolic unless given (0/1)"""
    n = lambda x: prefix + x
    src = construct(it, env, WIDTH_CLASS[E], dict(val=sym(n("source_entity_id"), ty="int")))
    dst = construct(it, env, WIDTH_CLASS[E], dict(val=sym(n("dest_entity_id"), ty="int")))
    seq = construct(it, env, WIDTH_CLASS[S], dict(val=sym(n("transaction_seq_num"), ty="int")))
    kw = dict(source_entity_id=src, dest_entity_id=dst, transaction_seq_num=seq,
              trans_mode=esym(P, n("trans_mode"), f"{DEFS}.TransmissionMode"),
              file_flag=esym(P, n("file_flag"), f"{DEFS}.LargeFileFlag") if large is None else enumc(P, f"{DEFS}.LargeFileFlag", int(large)),
              crc_flag=esym(P, n("crc_flag"), f"{DEFS}.CrcFlag") if crc is None else enumc(P, f"{DEFS}.CrcFlag", int(crc)),
              direction=esym(P, n("direction"), f"{DEFS}.Direction") if direction is None else enumc(P, f"{DEFS}.Direction", int(direction)),
              seg_ctrl=esym(P, n("seg_ctrl"), f"{DEFS}.SegmentationControl"))
    return construct(it, env, "cfdp.conf.PduConfig", kw)


def bitf(name, width, const=None):
    return K(width, const) if const is not None else F(name, width)


def header_spec(E, S, len_cell, pdu_type=None, direction=None, crc=None, large=None, seg_meta=None, seg_ctrl=None, prefix=""):
    """reference layout of the fixed PDU header (CCSDS 727.0-B-5 5.1, table 5-1)"""
    n = lambda x: prefix + x
    return [K(3, 1), bitf(n("pdu_type"), 1, pdu_type), bitf(n("direction"), 1, direction), F(n("trans_mode"), 1),
            bitf(n("crc_flag"), 1, crc), bitf(n("file_flag"), 1, large), len_cell,
            bitf(n("seg_ctrl"), 1, seg_ctrl), K(3, E - 1), bitf(n("segment_metadata_flag"), 1, seg_meta), K(3, S - 1),
            F(n("source_entity_id"), 8 * E), F(n("transaction_seq_num"), 8 * S), F(n("dest_entity_id"), 8 * E)]


def header_widths(E, S, prefix=""):
    n = lambda x: prefix + x
    return {n("source_entity_id"): 8 * E, n("dest_entity_id"): 8 * E, n("transaction_seq_num"): 8 * S, n("pdu_data_field_len"): 16}


def header_len(E, S):
    return 4 + 2 * E + S


def octet0(pdu_type=0, direction=0, mode=0, crc=0, large=0, version=1):
    return (version << 5) | (pdu_type << 4) | (direction << 3) | (mode << 2) | (crc << 1) | large


def octet3(E, S, seg_ctrl=0, seg_meta=0):
    return (seg_ctrl << 7) | ((E - 1) << 4) | (seg_meta << 3) | (S - 1)


def decode_interp(P, data_name="data", b0=None, b3=None):
    """interpreter with the structure-determining octets of the entry buffer made concrete"""
    it = new_interp(P)
    if b0 is not None:
        it.concrete_bytes[(data_name, 0)] = b0
    if b3 is not None:
        it.concrete_bytes[(data_name, 3)] = b3
    return it


def data_field_len_term(data):
    return binop("|", binop("<<", T("idx", data, C(1), ty="int"), C(8)), T("idx", data, C(2), ty="int"))
