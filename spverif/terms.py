"""Terms of the gated-term abstract interpreter: constructors, light simplification, printing,
substitution and evaluation of *extracted* terms (never of program code).

A term is T(kind, *args, ty=...).  Kinds:

  const v                      Python constant (int/bool/None/str/bytes/float)
  sym name                     symbolic input / storage path
  op o a b                     binary / comparison / boolean operator
  un o a                       unary: not - ~ + bool int len abs
  gamma c a b                  gated value  (c ? a : b)
  idx buf i                    buf[i]
  slice buf lo hi              buf[lo:hi]   (hi may be const None = open)
  unpacked fmt buf             struct.unpack(fmt, buf)[0]
  bcat items                   byte string being built; items (tuple):
        u8 t | packed fmt t | bytes t | lit b'..' | alt c bcatA bcatB | rep list bcat elem | crc16 bcat-or-term
  tuple items / list items
  obj oid                      heap object (class in .ty)
  class q / func q / bound fq recv / builtin name / exc name
  enumcast E t                 E(t)  (value-transparent; may raise ValueError)
  call name args               opaque call (structural)
  sum list term elem           Σ_{elem∈list} term
"""
from __future__ import annotations

import operator
import struct


class T:
    __slots__ = ("k", "a", "ty", "_key", "_hash", "_show")

    def __init__(self, k, *a, ty=None):
        self.k = k
        self.a = a
        self.ty = ty
        self._key = None
        self._hash = None
        self._show = None

    def key(self):
        if self._key is None:
            self._key = (self.k,) + tuple(_key(x) for x in self.a)
        return self._key

    def __eq__(self, o):
        return isinstance(o, T) and (self is o or self.key() == o.key())

    def __ne__(self, o):
        return not self.__eq__(o)

    def __hash__(self):
        if self._hash is None:
            self._hash = hash(self.key())
        return self._hash

    def __repr__(self):
        return show(self)


def _key(x):
    if isinstance(x, T):
        return x.key()
    if isinstance(x, (tuple, list)):
        return tuple(_key(y) for y in x)
    if isinstance(x, bool):
        return ("b", x)
    if isinstance(x, bytearray):
        return bytes(x)
    return x


def C(v, ty=None):
    if isinstance(v, bytearray):
        v = bytes(v)
    return T("const", v, ty=ty)


NONE = C(None)
TRUE = C(True)
FALSE = C(False)


def sym(name, ty=None):
    return T("sym", name, ty=ty)


def is_const(t, v=...):
    if not isinstance(t, T) or t.k != "const":
        return False
    if v is ...:
        return True
    return t.a[0] == v and type(t.a[0]) is type(v)


def show(t, depth=0):
    if not isinstance(t, T):
        if isinstance(t, (tuple, list)):
            return "(" + ", ".join(show(x) for x in t) + ")"
        return repr(t)
    if depth > 40:
        return "…"
    if depth == 0:
        if t._show is None:
            t._show = _show(t, 0)
        return t._show
    if t._show is not None and depth < 20:
        return t._show
    return _show(t, depth)


def _show(t, depth):
    k = t.k
    d = depth + 1
    if k == "const":
        v = t.a[0]
        if isinstance(v, int) and not isinstance(v, bool) and v > 9:
            return hex(v)
        return repr(v)
    if k == "sym":
        return str(t.a[0])
    if k == "op":
        return "(" + show(t.a[1], d) + " " + t.a[0] + " " + show(t.a[2], d) + ")"
    if k == "un":
        return f"{t.a[0]}({show(t.a[1], d)})"
    if k == "gamma":
        return f"γ({show(t.a[0], d)} ? {show(t.a[1], d)} : {show(t.a[2], d)})"
    if k == "idx":
        return f"{show(t.a[0], d)}[{show(t.a[1], d)}]"
    if k == "slice":
        hi = "" if is_const(t.a[2], None) else show(t.a[2], d)
        lo = "" if is_const(t.a[1], 0) else show(t.a[1], d)
        return f"{show(t.a[0], d)}[{lo}:{hi}]"
    if k == "unpacked":
        return f"unpack({t.a[0]!r}, {show(t.a[1], d)})"
    if k == "bcat":
        return "⟨" + " ‖ ".join(show(x, d) for x in t.a[0]) + "⟩"
    if k in ("u8", "bytes", "crc16"):
        return f"{k}({show(t.a[0], d)})"
    if k == "packed":
        return f"packed({t.a[0]!r}, {show(t.a[1], d)})"
    if k == "lit":
        return repr(t.a[0])
    if k == "alt":
        return f"alt({show(t.a[0], d)} ? {show(t.a[1], d)} : {show(t.a[2], d)})"
    if k == "rep":
        return f"rep({show(t.a[0], d)}: {show(t.a[1], d)})"
    if k == "call":
        return f"{t.a[0]}(" + ", ".join(show(x, d) for x in t.a[1]) + ")"
    if k == "obj":
        return f"<{str(t.ty).split('.')[-1] if t.ty else 'obj'}#{t.a[0]}>"
    if k in ("tuple", "list"):
        br = "()" if k == "tuple" else "[]"
        return br[0] + ", ".join(show(x, d) for x in t.a[0]) + br[1]
    if k == "enumcast":
        return f"{str(t.a[0]).split('.')[-1]}({show(t.a[1], d)})"
    if k == "sum":
        return f"Σ[{show(t.a[0], d)}]({show(t.a[1], d)})"
    return f"{k}{tuple(t.a)!r}"


# ---------------------------------------------------------------------------- constructors
_BIN = {
    "+": operator.add, "-": operator.sub, "*": operator.mul, "/": operator.truediv,
    "//": operator.floordiv, "%": operator.mod, "<<": operator.lshift, ">>": operator.rshift,
    "|": operator.or_, "&": operator.and_, "^": operator.xor, "**": operator.pow,
    "==": operator.eq, "!=": operator.ne, "<": operator.lt, "<=": operator.le,
    ">": operator.gt, ">=": operator.ge,
    "and": lambda p, q: p and q, "or": lambda p, q: p or q,
    "is": lambda p, q: p is q or (p == q and type(p) is type(q) and isinstance(p, (int, bool, type(None)))),
    "isnot": lambda p, q: not (p is q or (p == q and type(p) is type(q) and isinstance(p, (int, bool, type(None))))),
    "in": lambda p, q: p in q, "notin": lambda p, q: p not in q,
}
NEG = {"==": "!=", "!=": "==", "<": ">=", ">=": "<", ">": "<=", "<=": ">", "is": "isnot", "isnot": "is",
       "in": "notin", "notin": "in"}
CMP = set(NEG)
BOOLY = CMP | {"and", "or"}


def is_bool_term(t):
    if t.k == "const":
        return isinstance(t.a[0], bool)
    if t.k == "op":
        return t.a[0] in BOOLY
    if t.k == "un":
        return t.a[0] in ("not", "bool")
    if t.k == "gamma":
        return is_bool_term(t.a[1]) and is_bool_term(t.a[2])
    return t.ty == "bool"


GAMMA_HOOK = [None]     # installed by linear.py: algebraic lemmas that need linear forms


def gamma(c, a, b):
    if c.k == "const":
        return a if c.a[0] else b
    if a == b:
        return a
    if GAMMA_HOOK[0] is not None and c.k == "un" and c.a[0] == "bool":
        r = GAMMA_HOOK[0](c, a, b)
        if r is not None:
            return r
    if c.k == "un" and c.a[0] == "not":
        return gamma(c.a[1], b, a)
    # the same gate nested: the inner alternative that contradicts the outer choice is unreachable
    if a.k == "gamma" and a.a[0] == c:
        return gamma(c, a.a[1], b)
    if b.k == "gamma" and b.a[0] == c:
        return gamma(c, a, b.a[2])
    if a.k == "bcat" and b.k == "bcat":
        xa, xb = a.a[0], b.a[0]
        n = 0
        while n < len(xa) and n < len(xb) and xa[n] == xb[n]:
            n += 1
        return T("bcat", tuple(xa[:n]) + (T("alt", c, T("bcat", tuple(xa[n:]), ty="bytes"),
                                             T("bcat", tuple(xb[n:]), ty="bytes")),), ty="bytes")
    if is_const(a, True) and is_const(b, False):
        return truthy(c)
    if is_const(a, False) and is_const(b, True):
        return un("not", c)
    return T("gamma", c, a, b, ty=a.ty if a.ty is not None else b.ty)


def truthy(t):
    """boolean view of a term"""
    if t.k == "const":
        return C(bool(t.a[0]))
    if is_bool_term(t):
        return t
    if t.k == "obj":
        return TRUE
    if t.k == "gamma":
        return gamma(t.a[0], truthy(t.a[1]), truthy(t.a[2]))
    if t.k in ("bcat",):
        if not t.a[0]:
            return FALSE
        if any(x.k in ("u8", "packed", "crc16") or (x.k == "lit" and len(x.a[0]) > 0) for x in t.a[0]):
            return TRUE
    if t.k in ("list", "tuple"):
        return C(len(t.a[0]) > 0)
    return T("un", "bool", t, ty="bool")


def un(op, v):
    if v.k == "const":
        x = v.a[0]
        try:
            if op == "not":
                return C(not x)
            if op == "-":
                return C(-x)
            if op == "~":
                return C(~x)
            if op == "+":
                return C(+x)
            if op == "bool":
                return C(bool(x))
            if op == "int":
                return C(int(x))
            if op == "abs":
                return C(abs(x))
            if op == "len":
                return C(len(x))
        except Exception:
            pass
    if op == "not":
        if v.k == "un" and v.a[0] == "not":
            return truthy(v.a[1])
        if v.k == "op" and v.a[0] in NEG:
            return T("op", NEG[v.a[0]], v.a[1], v.a[2], ty="bool")
        if v.k == "op" and v.a[0] == "and":
            return binop("or", un("not", v.a[1]), un("not", v.a[2]))
        if v.k == "op" and v.a[0] == "or":
            return binop("and", un("not", v.a[1]), un("not", v.a[2]))
        if v.k == "gamma":
            return gamma(v.a[0], un("not", v.a[1]), un("not", v.a[2]))
        if v.k == "obj":
            return FALSE
        v = truthy(v)
        if v.k == "const":
            return C(not v.a[0])
        if v.k == "un" and v.a[0] == "bool":
            return T("un", "not", v.a[1], ty="bool")
        return T("un", "not", v, ty="bool")
    if op == "bool":
        return truthy(v)
    if op == "int":
        if v.ty in ("int", "bool") or v.k in ("idx", "unpacked") or (v.k == "op" and v.a[0] not in ("/",)):
            if v.k == "op" and v.a[0] in BOOLY:
                return T("un", "int", v, ty="int")
            return v
        if v.k == "enumcast":
            return v
        return T("un", "int", v, ty="int")
    if op == "len":
        return length(v)
    return T("un", op, v, ty="int" if op in ("-", "~", "+", "abs") else None)


def binop(op, a, b):
    if a.k == "const" and b.k == "const":
        x, y = a.a[0], b.a[0]
        try:
            if op == "in" or op == "notin":
                raise TypeError
            r = _BIN[op](x, y)
            if isinstance(r, (int, bool, float, str, bytes, type(None))):
                return C(r)
        except Exception:
            pass
    if op in ("in", "notin"):
        if b.k in ("tuple", "list"):
            items = b.a[0]
            if a.k == "const" and all(i.k == "const" for i in items):
                r = any(a.a[0] == i.a[0] for i in items)
                return C(r if op == "in" else not r)
            res = FALSE
            for i in reversed(items):
                res = binop("or", binop("==", a, i), res)
            return res if op == "in" else un("not", res)
        return T("op", op, a, b, ty="bool")
    if op in ("is", "isnot"):
        if a.k == "obj" and b.k == "obj":
            # two object terms: the same object exactly when they carry the same id
            return C((a.a[0] == b.a[0]) == (op == "is"))
        # identity with None
        for p, q in ((a, b), (b, a)):
            if is_const(q, None):
                if p.k in ("obj", "bcat", "list", "tuple", "slice", "idx", "unpacked", "op", "enumcast", "class", "structobj", "func", "bound",
                           "crcobj", "crcfun", "dictlit", "listext", "optlist", "sliceobj", "lambda", "exc", "range"):
                    return C(op == "isnot")
                if p.k == "const":
                    return C((p.a[0] is None) == (op == "is"))
                if p.k == "sym":
                    # convention: a symbolic input is never None; None-ness is enumerated by the drivers
                    return C(op == "isnot")
                if p.k == "gamma":
                    return gamma(p.a[0], binop(op, p.a[1], q), binop(op, p.a[2], q))
        return T("op", op, a, b, ty="bool")
    if op == "and":
        a2, b2 = a, b
        if a2.k == "const":
            return b2 if a2.a[0] else a2
        if b2.k == "const" and b2.a[0] and is_bool_term(a2):
            return a2
        if b2.k == "const" and not b2.a[0] and is_bool_term(a2):
            return FALSE
        if a2 == b2:
            return a2
        return T("op", "and", a2, b2, ty="bool")
    if op == "or":
        if a.k == "const":
            return a if a.a[0] else b
        if b.k == "const" and not b.a[0] and is_bool_term(a):
            return a
        if b.k == "const" and b.a[0] is True and is_bool_term(a):
            return TRUE
        if a == b:
            return a
        return T("op", "or", a, b, ty="bool")
    if op in ("==", "!="):
        if a == b and a.k not in ("call",):
            return C(op == "==")
        # comparison of a gamma of constants with a constant
        for p, q in ((a, b), (b, a)):
            if p.k == "gamma" and q.k == "const" and (p.a[1].k == "const" or p.a[2].k == "const"):
                return gamma(p.a[0], binop(op, p.a[1], q), binop(op, p.a[2], q))
            if p.k == "obj" and q.k == "const":
                return C(op == "!=")
            if p.k == "enumcast" and q.k == "const" and isinstance(q.a[0], int):
                return binop(op, p.a[1], q)
        return T("op", op, a, b, ty="bool")
    if op in ("<", "<=", ">", ">="):
        return T("op", op, a, b, ty="bool")
    # floor division / modulo by a positive power of two are shift / mask for every Python int (also negative ones)
    if op in ("//", "%") and b.k == "const" and isinstance(b.a[0], int) and not isinstance(b.a[0], bool) and b.a[0] > 0 \
            and (b.a[0] & (b.a[0] - 1)) == 0 and a.ty not in ("float", "bytes", "bytearray", "str") and a.k not in ("bcat", "list", "tuple"):
        k_ = b.a[0].bit_length() - 1
        if a.ty == "float" or (a.k == "call" and a.ty != "int" and a.a[0] not in ("divmod",)) :
            pass
        elif op == "//":
            return binop(">>", a, C(k_))
        else:
            return binop("&", a, C(b.a[0] - 1))
    # byte strings
    if op == "+" and (a.k == "bcat" or b.k == "bcat" or a.ty in ("bytes", "bytearray") or b.ty in ("bytes", "bytearray")):
        return bcat_concat(as_bcat(a), as_bcat(b))
    if op == "+" and a.k in ("list", "tuple") and b.k == a.k:
        return T(a.k, a.a[0] + b.a[0], ty=a.ty)
    if op == "*" and a.k == "list" and b.k == "const":
        return T("list", a.a[0] * b.a[0], ty=a.ty)
    # arithmetic identities
    if op in ("+", "|", "^") and is_const(b, 0) and b.a[0] is not False:
        return a
    if op in ("+", "|", "^") and is_const(a, 0) and a.a[0] is not False:
        return b if b.ty != "bool" else un("int", b)
    if op in ("-", "<<", ">>") and is_const(b, 0):
        return a
    if op == "*" and is_const(b, 1):
        return a
    if op == "*" and is_const(a, 1):
        return b
    if op in ("+", "-") and a.k == "op" and a.a[0] in ("+", "-") and a.a[2].k == "const" and b.k == "const" \
            and isinstance(a.a[2].a[0], int) and isinstance(b.a[0], int):
        # (x ± c1) ± c2 -> x ± c
        c1 = a.a[2].a[0] if a.a[0] == "+" else -a.a[2].a[0]
        c2 = b.a[0] if op == "+" else -b.a[0]
        c = c1 + c2
        if c == 0:
            return a.a[1]
        return T("op", "+" if c > 0 else "-", a.a[1], C(abs(c)), ty="int")
    if a.k == "gamma" and b.k == "const" and a.a[1].k == "const" and a.a[2].k == "const":
        return gamma(a.a[0], binop(op, a.a[1], b), binop(op, a.a[2], b))
    ty = "float" if op == "/" else "int"
    return T("op", op, a, b, ty=ty)


def conj(terms):
    r = TRUE
    for t in terms:
        r = binop("and", r, t) if r is not TRUE else truthy(t)
    return r


# ---------------------------------------------------------------------------- byte strings
def bcat(items=()):
    return T("bcat", tuple(items), ty="bytes")


def as_bcat(t):
    if t.k == "bcat":
        return t
    if t.k == "const" and isinstance(t.a[0], (bytes, bytearray)):
        return bcat((T("lit", bytes(t.a[0])),)) if len(t.a[0]) else bcat()
    if t.k == "gamma":
        return gamma(t.a[0], as_bcat(t.a[1]), as_bcat(t.a[2]))
    return bcat((T("bytes", t),))


def bcat_concat(a, b):
    return bcat(a.a[0] + b.a[0])


def bcat_len(b):
    tot = C(0)
    for it in b.a[0]:
        tot = binop("+", tot, item_len(it))
    return tot


def item_len(it):
    if it.k == "u8":
        return C(1)
    if it.k == "packed":
        return C(struct.calcsize(it.a[0]))
    if it.k == "crc16":
        return C(2)
    if it.k == "lit":
        return C(len(it.a[0]))
    if it.k == "zeros":
        return it.a[0]          # bytearray(n): n zero octets, n symbolic
    if it.k == "bytes":
        return length(it.a[0])
    if it.k == "alt":
        return gamma(it.a[0], bcat_len(it.a[1]), bcat_len(it.a[2]))
    if it.k == "rep":
        return T("sum", it.a[0], bcat_len(it.a[1]), it.a[2], ty="int")
    raise ValueError(f"item_len {it}")


def length(t):
    """len(t) as a term"""
    if t.k == "const":
        try:
            return C(len(t.a[0]))
        except TypeError:
            pass
    if t.k == "bcat":
        return bcat_len(t)
    if t.k in ("list", "tuple"):
        return C(len(t.a[0]))
    if t.k == "gamma":
        return gamma(t.a[0], length(t.a[1]), length(t.a[2]))
    return T("un", "len", t, ty="int")


# ---------------------------------------------------------------------------- traversal
def subterms(t, seen=None):
    """pre-order generator over all sub-terms (including inside tuples)"""
    stack = [t]
    while stack:
        x = stack.pop()
        if isinstance(x, T):
            yield x
            stack.extend(x.a)
        elif isinstance(x, (tuple, list)):
            stack.extend(x)


def mapterm(f, t, _memo=None):
    """bottom-up rebuild: f is applied to every rebuilt node; uses smart constructors.  Terms are DAGs:
    shared sub-terms are rebuilt once (memo keyed by term)."""
    if _memo is None:
        _memo = {}
    if not isinstance(t, T):
        if isinstance(t, tuple):
            return tuple(mapterm(f, x, _memo) for x in t)
        return t
    r = _memo.get(t)
    if r is not None:
        return r
    r = _mapterm(f, t, _memo)
    _memo[t] = r
    return r


def _mapterm(f, t, _memo):
    k = t.k
    if k in ("const", "sym", "class", "func", "builtin", "exc", "lit"):
        return f(t)
    a = tuple(mapterm(f, x, _memo) for x in t.a)
    if k == "op":
        r = binop(a[0], a[1], a[2])
    elif k == "un":
        r = un(a[0], a[1])
    elif k == "gamma":
        r = gamma(a[0], a[1], a[2])
    elif k == "alt":
        if a[0].k == "const":
            r = T("splice", a[1] if a[0].a[0] else a[2])
        else:
            r = T("alt", *a)
    elif k == "bcat":
        items = []
        for it in a[0]:
            if it.k == "splice":
                items.extend(it.a[0].a[0])
            elif it.k == "bytes" and it.a[0].k == "bcat":
                items.extend(it.a[0].a[0])
            elif it.k == "bytes" and it.a[0].k == "const" and isinstance(it.a[0].a[0], (bytes, bytearray)):
                if len(it.a[0].a[0]):
                    items.append(T("lit", bytes(it.a[0].a[0])))
            else:
                items.append(it)
        r = bcat(items)
    else:
        r = T(k, *a, ty=t.ty)
    return f(r)


def substitute(t, mapping):
    """replace sub-terms by key (mapping: T -> T) and re-simplify"""
    def f(x):
        return mapping.get(x, x)
    return mapterm(f, t)


def free_syms(t):
    return {x.a[0] for x in subterms(t) if x.k == "sym"}


# ---------------------------------------------------------------------------- evaluation of extracted terms
class EvalError(Exception):
    pass


def evaluate(t, env):
    """Evaluate an extracted term under a concrete assignment.

    env: dict  sym-name -> python value.  Buffers are python bytes.  Used only for finite case
    analysis and witness validation on *terms the analysis extracted*; never runs program code.
    """
    k = t.k
    if k == "const":
        return t.a[0]
    if k == "sym":
        if t.a[0] in env:
            return env[t.a[0]]
        raise EvalError(f"unbound {t.a[0]}")
    if k == "op":
        o = t.a[0]
        if o == "and":
            x = evaluate(t.a[1], env)
            return evaluate(t.a[2], env) if x else x
        if o == "or":
            x = evaluate(t.a[1], env)
            return x if x else evaluate(t.a[2], env)
        x, y = evaluate(t.a[1], env), evaluate(t.a[2], env)
        try:
            return _BIN[o](x, y)
        except Exception as e:
            raise EvalError(str(e))
    if k == "un":
        o = t.a[0]
        x = evaluate(t.a[1], env)
        try:
            return {"not": lambda: not x, "-": lambda: -x, "~": lambda: ~x, "+": lambda: +x,
                    "bool": lambda: bool(x), "int": lambda: int(x), "len": lambda: len(x),
                    "abs": lambda: abs(x)}[o]()
        except Exception as e:
            raise EvalError(str(e))
    if k == "gamma":
        return evaluate(t.a[1], env) if evaluate(t.a[0], env) else evaluate(t.a[2], env)
    if k == "idx":
        b, i = evaluate(t.a[0], env), evaluate(t.a[1], env)
        try:
            return b[i]
        except Exception as e:
            raise EvalError(f"index {e}")
    if k == "slice":
        b = evaluate(t.a[0], env)
        lo, hi = evaluate(t.a[1], env), evaluate(t.a[2], env)
        return b[lo:hi]
    if k == "unpacked":
        b = evaluate(t.a[1], env)
        try:
            return struct.unpack(t.a[0], b)[0]
        except struct.error as e:
            raise EvalError(f"struct {e}")
    if k == "enumcast":
        return evaluate(t.a[1], env)
    if k in ("tuple", "list"):
        return tuple(evaluate(x, env) for x in t.a[0])
    raise EvalError(f"cannot evaluate {k}")
