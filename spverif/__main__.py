"""CLI:  python -m spverif check <Cxx> [--tier quick|thorough] [--repo DIR]"""
from __future__ import annotations

import argparse
import importlib
import os
import sys
import traceback

from . import REPO_DEFAULT
from .report import Checker


def main(argv=None):
    ap = argparse.ArgumentParser(prog="spverif")
    sub = ap.add_subparsers(dest="cmd", required=True)
    c = sub.add_parser("check")
    c.add_argument("pid")
    c.add_argument("--tier", default=os.environ.get("VERIF_TIER", "quick"), choices=["quick", "thorough"])
    c.add_argument("--repo", default=os.environ.get("SPVERIF_REPO", REPO_DEFAULT))
    c.add_argument("--replay", default=None, help="violation file written by an earlier run (re-checks the whole property)")
    args = ap.parse_args(argv)
    seed = int(os.environ.get("VERIF_SEED", "0") or 0)
    pid = args.pid.upper()
    if args.tier == "thorough":
        os.environ.setdefault("SPVERIF_PROOF_BUDGET", "25")
        os.environ.setdefault("SPVERIF_TASK_TIMEOUT", "6000")
    try:
        mod = importlib.import_module(f".props.{pid.lower()}", __package__)
    except ModuleNotFoundError:
        print(f"ANALYSIS-ERROR property={pid} no check module")
        return 2
    except Exception as e:  # noqa: BLE001 - a broken checker is an analysis error, never a violation
        print(f"ANALYSIS-ERROR property={pid} checker failed to load: {type(e).__name__}: {e}")
        return 2
    ck = Checker(pid, args.tier, args.repo, seed)
    try:
        mod.run(ck)
    except Exception as e:  # noqa: BLE001 - fail closed, never as a violation
        print(f"ANALYSIS-ERROR property={pid} {type(e).__name__}: {e}")
        traceback.print_exc()
        try:
            ck.unknown("ENGINE", "spverif", "internal error", f"{type(e).__name__}: {e}")
            rc = ck.finish()
        except Exception:
            rc = 2
        # violations established before the analysis broke off are still violations (exit 1); otherwise incomplete
        return 1 if rc == 1 else 2
    return ck.finish()


if __name__ == "__main__":
    try:
        rc = main()
    except SystemExit:
        raise
    except BaseException as e:  # noqa: BLE001
        print(f"ANALYSIS-ERROR {type(e).__name__}: {e}")
        rc = 2
    sys.exit(rc)
