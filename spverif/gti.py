"""The assembled gated-term interpreter plus small driver helpers."""
from __future__ import annotations

from .index import Program
from .interp import InterpBase, Env, Unsupported
from .interp_calls import CallsMixin
from .interp_stmt import StmtMixin
from .terms import T, C, NONE, sym


class Interp(InterpBase, CallsMixin, StmtMixin):
    pass


def new_interp(prog: Program, **kw) -> Interp:
    return Interp(prog, **kw)


def call_method(it: Interp, env: Env, recv, name, args=(), kw=None):
    """call recv.name(*args) where recv is a heap object or a class term"""
    f = it.getattr(recv, name, env, None, None)
    return it.call(f, list(args), dict(kw or {}), env, None)


def construct(it: Interp, env: Env, cls_short, kw):
    q = it.P.cls(cls_short).qual
    return it.construct(q, [], dict(kw), env, None)


def read_path(it: Interp, env: Env, base, path):
    """follow a dotted attribute path (properties are executed)"""
    cur = base
    for part in path.split("."):
        if part.endswith("()"):
            cur = call_method(it, env, cur, part[:-2])
        else:
            cur = it.getattr(cur, part, env, None, None)
    return cur
