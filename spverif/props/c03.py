"""C03 - PUS-C telemetry (ECSS-E-ST-70-41C 7.4.4), any timestamp length."""
from __future__ import annotations

from ..index import Program
from ..gti import new_interp, call_method, construct, read_path, Env, Unsupported
from ..terms import T, C, sym, show, binop, length, NONE
from ..layout import F, K, A, B, CRC
from ..linear import Lin, linearize
from ..bits import data_bits_be, BitCtx
from .. import rules as R
from .. import decode_rules as D

TM = "ecss.tm"
FIELDS = dict(service="int", subservice="int", timestamp="bytes", source_data="bytes", apid="int", seq_count="int",
              message_counter="int", space_time_ref="int", destination_id="int", packet_version="int")
WIDTHS = {"service": 8, "subservice": 8, "apid": 11, "seq_count": 14, "message_counter": 16, "space_time_ref": 4,
          "destination_id": 16, "packet_version": 3}


def tm_spec(n, service_const=None):
    body = [K(4, 2), F(n["space_time_ref"], 4),
            K(8, service_const) if service_const is not None else F(n["service"], 8),
            F(n["subservice"], 8), F(n["message_counter"], 16) if n.get("message_counter") else K(16, 0),
            F(n["destination_id"], 16), B(n["timestamp"]), B(n["source_data"])]
    total = R.spec_len([K(48, 0)] + body + [CRC()])
    return ([F(n["packet_version"], 3), K(1, 0), K(1, 1), F(n["apid"], 11), K(2, 3), F(n["seq_count"], 14),
             R.len_atom(16, total - Lin({}, 7))] + body + [CRC()])


def widths_for(n):
    return {n[k]: w for k, w in WIDTHS.items() if n.get(k)}


def check_decoded(ck, it, env, tm, fn, data, T_len):
    dl = T("unpacked", "!H", T("slice", data, C(4), C(6), ty="bytes"), ty="int")
    N = binop("+", dl, C(7))
    Nl = linearize(N)
    Tl = linearize(T_len)
    _sc = {}; simp = lambda v: D.simplify(D.simplify(v, env.facts, _sc), env.facts, _sc)
    for name, path, off, w in (("packet_version", "ccsds_version", 0, 3), ("packet_type", "sp_header.packet_type", 3, 1),
                               ("sec_header_flag", "sp_header.sec_header_flag", 4, 1), ("apid", "apid", 5, 11),
                               ("seq_flags", "sp_header.seq_flags", 16, 2), ("seq_count", "seq_count", 18, 14),
                               ("data_len", "sp_header.data_len", 32, 16), ("space_time_ref", "pus_tm_sec_header.spacecraft_time_ref", 52, 4),
                               ("service", "service", 56, 8), ("subservice", "subservice", 64, 8),
                               ("message_counter", "pus_tm_sec_header.message_counter", 72, 16), ("destination_id", "pus_tm_sec_header.dest_id", 88, 16)):
        R.check_field_bits(ck, it, simp(read_path(it, env, tm, path)), data_bits_be("data", off, w), fn, f"decoded {name} == bits {off}..{off + w - 1}")
    R.check_slice_extent(ck, simp(read_path(it, env, tm, "timestamp")), "data", Lin({}, 13), Lin({}, 13) + Tl, fn, "timestamp == data[13 : 13+T]")
    R.check_slice_extent(ck, simp(read_path(it, env, tm, "source_data")), "data", Lin({}, 13) + Tl, Nl - Lin({}, 2), fn, "source data == data[13+T : N-2]")
    R.check_slice_extent(ck, simp(read_path(it, env, tm, "crc16")), "data", Nl - Lin({}, 2), Nl, fn, "crc16 == data[N-2 : N]")
    R.check_lin_equal(ck, read_path(it, env, tm, "packet_len"), Nl, fn, "reported packet_len == N = data_len field + 7")
    for goal, what in ((binop(">=", N, binop("+", T_len, C(15))), "declared length N < 6+7+T+2 (no room for header, timestamp and CRC) is refused"),
                       (binop(">=", length(data), N), "buffer shorter than the declared length N is refused")):
        st, m = D.prove(env.facts, goal)
        if st == "proved":
            ck.proved("G-REFUSE", fn, what, f"normal return implies {show(goal)[:80]}")
        elif st == "refutable":
            ck.refuted("G-REFUSE", fn, what, f"accepted with {{{', '.join(f'{show(k)[:40]}={v}' for k, v in m.items())}}}", witness=m)
        else:
            ck.unknown("G-REFUSE", fn, what, str(m))
    return N, Nl


def run(ck):
    P = Program(ck.repo)
    ck.explanation = (
        "Static check of the PUS-C telemetry encoder/decoder (and the service-17 wrapper) against a reference layout written "
        "from ECSS-E-ST-70-41C 7.4.4 with a timestamp of symbolic length T. pack() (fresh, after setters, with cached CRC), "
        "to_space_packet().pack(), Service17Tm.pack() and the decoders are abstractly interpreted; layouts are compared per bit, "
        "the length field as a linear form, the CRC cell by coverage; decoded fields and the timestamp / source-data / CRC "
        "extents are compared with the reference offsets 13, 13+T, N-2, N; refusals, read bounds and the escape set are decided "
        "by linear entailment (slice clamping modelled exactly).")
    ck.rule("W-PACK", "normalised layout of pack()/to_space_packet().pack()/Service17Tm.pack() == reference")
    ck.rule("W-UNPACK", "decoded fields and slice extents == reference")
    ck.rule("G-REFUSE", "declared length too small for header, timestamp and CRC is refused")
    ck.rule("G-RANGE", "service/subservice/message counter ranges refused with ValueError")
    ck.rule("X-DECL", "no read beyond the declared length")
    ck.rule("X-BUF", "all reads inside the buffer")
    ck.rule("E-ESC", "only documented exception classes escape")
    ck.rule("P-MUST", "CRC verified over data[0:N] before any normal return")
    ck.rule("D-TABLE", "Service17Tm forwards every constructor parameter")
    ck.trusted += ["struct/bytearray/slice semantics as modelled", "reference layout tm_spec() in spverif/props/c03.py"]
    ck.assumptions += ["timestamp_len >= 0", "field values within declared widths (time reference 4 bit, destination id 16 bit, version 3 bit)"]

    # ------------------------------------------------------------ secondary header
    it = new_interp(P); env = Env()
    sh_kw = dict(service=sym("service", ty="int"), subservice=sym("subservice", ty="int"), timestamp=sym("timestamp", ty="bytes"),
                 message_counter=sym("message_counter", ty="int"), dest_id=sym("dest_id", ty="int"), spacecraft_time_ref=sym("spacecraft_time_ref", ty="int"))
    sh = R.run_guarded(ck, "W-PACK", "PusTmSecondaryHeader.__init__", "construct", lambda: construct(it, env, f"{TM}.PusTmSecondaryHeader", sh_kw))
    if sh is not None:
        R.check_range_guard(ck, it, env.facts, it.raises, {"service": (sh_kw["service"], 0, 255), "subservice": (sh_kw["subservice"], 0, 255),
                                                             "message_counter": (sh_kw["message_counter"], 0, 65535)}, "PusTmSecondaryHeader.__init__")
        p = call_method(it, env, sh, "pack")
        R.check_pack_layout(ck, it, env, p, [K(4, 2), F("spacecraft_time_ref", 4), F("service", 8), F("subservice", 8), F("message_counter", 16),
                                             F("dest_id", 16), B("timestamp")], "PusTmSecondaryHeader.pack",
                            "secondary header == version 2 | time ref, service, subservice, counter, destination id, timestamp",
                            extra_widths={"spacecraft_time_ref": 4, "dest_id": 16, "service": 8, "subservice": 8, "message_counter": 16})
        hs = read_path(it, env, sh, "header_size")
        R.check_lin_equal(ck, D.simplify(hs, env.facts), Lin({length(sh_kw["timestamp"]): 1}, 7), "PusTmSecondaryHeader.header_size", "header_size == 7 + len(timestamp)")
    v = it.module_const("spacepackets.ecss.tm", P.syms["spacepackets.ecss.tm"]["PUS_TM_TIMESTAMP_OFFSET"][1]) if "PUS_TM_TIMESTAMP_OFFSET" in P.syms.get("spacepackets.ecss.tm", {}) else None
    if v is None:
        ck.unknown("K-CONST", "ecss.tm", "PUS_TM_TIMESTAMP_OFFSET == 13", "constant not found")
    else:
        R.check_lin_equal(ck, v, Lin({}, 13), "ecss.tm", "PUS_TM_TIMESTAMP_OFFSET == 13", rule="K-CONST")

    # ------------------------------------------------------------ PusTm pack, both call orders
    kw = {k: sym(k, ty=t) for k, t in FIELDS.items()}
    for order in ("pack first", "space packet first"):
        it = new_interp(P); env = Env()
        tm = R.run_guarded(ck, "W-PACK", "PusTm.__init__", "construct", lambda: construct(it, env, f"{TM}.PusTm", kw))
        if tm is None:
            continue
        names = {k: k for k in FIELDS}

        def packs(tag, names):
            tag = f"{tag} ({order})"
            spec = tm_spec(names)
            w = widths_for(names)

            def do_pack():
                p = R.run_guarded(ck, "W-PACK", "PusTm.pack", f"pack {tag}", lambda: call_method(it, env, tm, "pack"))
                if p is not None:
                    R.check_pack_layout(ck, it, env, p, spec, "PusTm.pack", f"pack() {tag} == primary | secondary header | source data | CRC16 of all before", extra_widths=w)

            def do_sp():
                sp = R.run_guarded(ck, "W-PACK", "PusTm.to_space_packet", f"to_space_packet {tag}", lambda: call_method(it, env, tm, "to_space_packet"))
                if sp is not None:
                    R.check_pack_layout(ck, it, env, call_method(it, env, sp, "pack"), spec, "PusTm.to_space_packet",
                                        f"to_space_packet().pack() {tag} == same octets as pack()", extra_widths=w)
            R.check_lin_equal(ck, read_path(it, env, tm, "packet_len"), R.spec_len(spec), "PusTm.packet_len", f"packet_len {tag} == number of packed octets")
            (do_pack(), do_sp()) if order == "pack first" else (do_sp(), do_pack())
        packs("after construction", names)
        for attr, key in (("apid", "apid"), ("tm_data", "source_data")):
            new = sym(key + "_2", ty=FIELDS[key])
            ok = R.run_guarded(ck, "W-PACK", f"PusTm.{attr} setter", "store", lambda: (it.setattr(tm, attr, new, env, None, None), True)[1])
            if ok:
                names = dict(names); names[key] = key + "_2"
                packs(f"after set {attr}", names)
        call_method(it, env, tm, "calc_crc")
        it.setattr(tm, "tm_data", sym("source_data_3", ty="bytes"), env, None, None)
        names = dict(names); names["source_data"] = "source_data_3"
        packs("after calc_crc + set tm_data", names)
    # fresh object, recalc_crc False
    it = new_interp(P); env = Env()
    tm = construct(it, env, f"{TM}.PusTm", kw)
    p = call_method(it, env, tm, "pack", [], {"recalc_crc": C(False)})
    R.check_pack_layout(ck, it, env, p, tm_spec({k: k for k in FIELDS}), "PusTm.pack", "pack(recalc_crc=False) on a fresh object computes the CRC",
                        extra_widths=widths_for({k: k for k in FIELDS}))
    for g, k in (("service", "service"), ("subservice", "subservice"), ("apid", "apid"), ("seq_count", "seq_count"), ("timestamp", "timestamp"),
                 ("source_data", "source_data"), ("tm_data", "source_data"), ("ccsds_version", "packet_version")):
        v = read_path(it, env, tm, g)
        ck.verdict("W-VAL", f"PusTm.{g}", f"getter {g} returns the constructor argument", [] if v == kw[k] else [f"returns {show(v)[:80]}"], "identity", nontrivial=False)
    dl = it.call_func(P.func(f"{TM}.PusTm.data_len_from_src_len_timestamp_len"), [], dict(timestamp_len=sym("t", ty="int"), source_data_len=sym("n", ty="int")), Env())
    R.check_lin_equal(ck, dl, Lin({sym("n", ty="int"): 1, sym("t", ty="int"): 1}, 8), "PusTm.data_len_from_src_len_timestamp_len", "data length == 7 + T + len(src) + 2 - 1")

    # ------------------------------------------------------------ Q-EQ
    it = new_interp(P); env = Env()
    a = construct(it, env, f"{TM}.PusTm", kw)
    b = construct(it, env, f"{TM}.PusTm", {k: sym(k + "_b", ty=t) for k, t in FIELDS.items()})
    eq = R.run_guarded(ck, "Q-EQ", "PusTm.__eq__", "compare", lambda: it.compare("==", a, b, env, None))
    if eq is not None:
        R.check_eq_sensitive(ck, eq, list(FIELDS), [k + "_b" for k in FIELDS], "PusTm.__eq__")

    # ------------------------------------------------------------ Service17Tm
    it = new_interp(P); env = Env()
    s17_kw = dict(apid=sym("apid", ty="int"), subservice=sym("subservice", ty="int"), timestamp=sym("timestamp", ty="bytes"), ssc=sym("seq_count", ty="int"),
                  source_data=sym("source_data", ty="bytes"), packet_version=sym("packet_version", ty="int"), space_time_ref=sym("space_time_ref", ty="int"),
                  destination_id=sym("destination_id", ty="int"))
    s17 = R.run_guarded(ck, "D-TABLE", "Service17Tm.__init__", "construct", lambda: construct(it, env, "ecss.pus_17_test.Service17Tm", s17_kw))
    if s17 is not None:
        n17 = {k: k for k in FIELDS}
        n17["message_counter"] = None
        p = call_method(it, env, s17, "pack")
        R.check_pack_layout(ck, it, env, p, tm_spec(n17, service_const=17), "Service17Tm.pack",
                            "Service17Tm(...).pack() == PusTm layout with service 17 and every constructor parameter forwarded",
                            extra_widths=widths_for(n17), rule="D-TABLE")
        for g, k in (("service", None), ("subservice", "subservice"), ("timestamp", "timestamp"), ("source_data", "source_data"), ("ccsds_version", "packet_version")):
            v = read_path(it, env, s17, g)
            want = C(17) if k is None else s17_kw[k]
            ok = (v == want) or (k is None and v.k == "const" and v.a[0] == 17)
            ck.verdict("W-VAL", f"Service17Tm.{g}", f"getter {g} returns the constructor argument", [] if ok else [f"returns {show(v)[:80]}"], "identity", nontrivial=False)

    # ------------------------------------------------------------ decoders
    data = sym("data", ty="bytes")
    tl = sym("timestamp_len", ty="int")
    # secondary header alone
    it = new_interp(P); env = Env()
    env.add_fact(binop(">=", tl, C(0)))
    dec = R.run_guarded(ck, "W-UNPACK", "PusTmSecondaryHeader.unpack", "unpack",
                        lambda: call_method(it, env, T("class", P.cls(f"{TM}.PusTmSecondaryHeader").qual), "unpack", [data, tl]))
    if dec is not None:
        fn = "PusTmSecondaryHeader.unpack"
        for name, off, w in (("spacecraft_time_ref", 4, 4), ("service", 8, 8), ("subservice", 16, 8), ("message_counter", 24, 16), ("dest_id", 40, 16)):
            R.check_field_bits(ck, it, read_path(it, env, dec, name), data_bits_be("data", off, w), fn, f"decoded {name} == bits {off}..{off + w - 1}")
        R.check_slice_extent(ck, read_path(it, env, dec, "timestamp"), "data", Lin({}, 7), Lin({tl: 1}, 7), fn, "timestamp == data[7 : 7+T]")
        D.check_xbuf(ck, it, fn)
        D.check_xdecl(ck, it, fn, "data", binop("+", tl, C(7)))
        D.check_escape(ck, it, fn)
    for cls_short, fn in ((f"{TM}.PusTm", "PusTm.unpack"), ("ecss.pus_17_test.Service17Tm", "Service17Tm.unpack")):
        it = new_interp(P); env = Env()
        env.add_fact(binop(">=", tl, C(0)))
        dec = R.run_guarded(ck, "W-UNPACK", fn, "unpack", lambda: call_method(it, env, T("class", P.cls(cls_short).qual), "unpack", [data, tl]))
        if dec is None:
            continue
        tm = dec if fn == "PusTm.unpack" else read_path(it, env, dec, "pus_tm")
        N, Nl = check_decoded(ck, it, env, tm, fn, data, tl)
        D.check_crc_verified(ck, it, env, fn, "data", Lin({}, 0), Nl, f"{TM}.InvalidTmCrc16")
        D.check_xbuf(ck, it, fn)
        D.check_xdecl(ck, it, fn, "data", N)
        D.check_escape(ck, it, fn, allowed=("ValueError", P.cls(f"{TM}.InvalidTmCrc16").qual))
        D.check_independent(ck, it, env, dec, "data", fn)
        ck.floor(f"reads in {fn}", len(it.reads), 14)
    # service_from_bytes
    it = new_interp(P); env = Env()
    rb = sym("raw_bytearray", ty="bytes")
    r = R.run_guarded(ck, "W-VAL", "PusTm.service_from_bytes", "call", lambda: it.call_func(P.func(f"{TM}.PusTm.service_from_bytes"), [], {"raw_bytearray": rb}, env))
    if r is not None:
        R.check_field_bits(ck, it, r, data_bits_be("raw_bytearray", 56, 8), "PusTm.service_from_bytes", "service == octet 7", rule="W-VAL")
        D.check_xbuf(ck, it, "PusTm.service_from_bytes")
        D.check_escape(ck, it, "PusTm.service_from_bytes")
