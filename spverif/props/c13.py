"""C13 - space-packet stream parser: structural conditions of lossless reassembly."""
from __future__ import annotations

import ast

from ..index import Program
from ..gti import new_interp, call_method, construct, read_path, Env, Unsupported
from ..terms import T, C, sym, show, binop, un, length, NONE, FALSE as FALSE_
from ..linear import Lin, linearize
from ..bits import data_bits_be, BitCtx, norm_bits, buffer_pos
from .. import rules as R
from .. import decode_rules as D

SP = "ccsds.spacepacket"


def lin_eq(a, b):
    return linearize(a).key() == linearize(b).key()


def cond_is(term, lhs, op, rhs):
    """is boolean `term` the comparison lhs op rhs (up to moving terms across the relation)?"""
    t = term
    if t.k != "op" or t.a[0] not in (">", ">=", "<", "<=", "==", "!="):
        return False
    o, a, b = t.a
    flip = {">": "<", "<": ">", ">=": "<=", "<=": ">=", "==": "==", "!=": "!="}
    d1 = linearize(a) - linearize(b)
    d2 = linearize(lhs) - linearize(rhs)
    if o == op and d1.key() == d2.key():
        return True
    if flip[o] == op and d1.key() == d2.scale(-1).key():
        return True
    # integer strictness: x > y  <=>  x >= y + 1
    if o == ">" and op == ">=" and (d1 + Lin({}, -1)).key() == d2.key():
        return True
    if o == ">=" and op == ">" and d1.key() == (d2 + Lin({}, -1)).key():
        return True
    return False


def slice_is(term, buf, lo, hi):
    if term.k != "slice" or term.a[0] != buf:
        return False
    if not lin_eq(term.a[1], lo):
        return False
    if hi is None:
        return D.is_const(term.a[2], None)
    return not D.is_const(term.a[2], None) and lin_eq(term.a[2], hi)


def appends(node, name):
    """ast.Call nodes `name.append(x)` directly in a statement list (not nested in compound statements)"""
    out = []
    for st in node:
        if isinstance(st, ast.Expr) and isinstance(st.value, ast.Call) and isinstance(st.value.func, ast.Attribute) \
                and st.value.func.attr == "append" and isinstance(st.value.func.value, ast.Name) and st.value.func.value.id == name:
            out.append(st.value)
    return out


def helper_semantics(ck, P, h, buf, idx, L):
    """The helper is interpreted as a whole under the caller's guarantee (0 <= idx, idx + 6 <= len(buf)); every normal
    exit is classified by its result code and checked with the values its variables have there:
      complete   (code 0):  reached exactly when idx + total <= len(buf), total = (unsigned word at idx+4) + 7;
                            tm_list grew by exactly buf[idx : idx+total]; the queue is untouched; returns idx + total
      incomplete (code != 0): reached exactly when idx + total > len(buf); the queue becomes [buf[idx:]];
                            tm_list is untouched; returns idx unchanged
    No statement shape is assumed."""
    fn = "__handle_packet_id_match"
    it = new_interp(P); env = Env()
    q0, tm0 = sym("analysis_queue", ty=("list", "bytes")), sym("tm_list", ty=("list", "bytes"))
    env.vars.update(concatenated_packets=buf, current_idx=idx, analysis_queue=q0, tm_list=tm0)
    env.add_fact(binop(">=", idx, C(0)))
    env.add_fact(binop("<=", binop("+", idx, C(6)), L))
    it.log_exit_vars = True
    it.exit_vars = []
    it.where.append(h.short)
    exits = []
    try:
        it.block(h.node.body, env, h.module, h, exits)
    except Unsupported as e:
        ck.unknown("P-MUST", fn, "helper interpreted", str(e))
        return
    d0 = len(it.where)
    vars_at = [v for d, v in it.exit_vars if d == d0]
    if not env.dead or len(vars_at) != len(exits) or not exits:
        ck.unknown("P-MUST", fn, "every path of the helper ends in an explicit return", f"{len(exits)} returns, falls off the end: {not env.dead}")
        return
    word = T("unpacked", "!H", T("slice", buf, binop("+", idx, C(4)), binop("+", idx, C(6)), ty="bytes"), ty="int")
    total = binop("+", word, C(7))
    end = binop("+", idx, total)
    kinds = {"complete": 0, "incomplete": 0}
    for (pc, val, _heap, facts), vs in zip(exits, vars_at):
        if not D.feasible(facts):
            continue
        if not (val.k == "tuple" and len(val.a[0]) == 2 and val.a[0][0].k == "const"):
            # another private contract between the parser and its helper: the one-iteration step relation of the parser
            # (helpers inlined) decides the same conditions, nothing is claimed about the helper alone
            ck.notes.append(f"helper exit classification skipped: {fn} does not return a (code, index) pair ({show(val)[:60]})")
            return
        code, nidx = val.a[0][0].a[0], val.a[0][1]
        q, tm = vs.get("analysis_queue"), vs.get("tm_list")
        cond = " and ".join(show(c)[:60] for c in pc) or "always"
        if code == 0:
            kinds["complete"] += 1
            st, m = D.prove(facts, binop("<=", end, L))
            ck.verdict3("P-MUST", fn, "a packet is returned only when it is complete: idx + (length field + 7) <= len(buf)", st, m, cond[:80])
            probs = []
            ok_tm = tm is not None and tm.k == "listext" and tm.a[0] == tm0 and tm.a[1] == "append" and len(tm.a[2]) == 1 and slice_is(D.simplify(tm.a[2][0], facts), buf, idx, end)
            if not ok_tm:
                probs.append(f"results become {show(tm)[:100] if tm is not None else '?'}; reference tm_list + [buf[idx : idx+total]]")
            if q != q0:
                probs.append(f"the queue is changed on the complete path: {show(q)[:60]}")
            if not lin_eq(nidx, end):
                probs.append(f"returns index {show(nidx)[:60]}; reference idx + total")
            ck.verdict("X-PART", fn, "complete packet: exactly buf[idx : idx+total] is appended to the results, the queue is untouched and the index advances by exactly total", probs, "append + (0, idx+total)")
        else:
            kinds["incomplete"] += 1
            st, m = D.prove(facts, binop(">", end, L))
            ck.verdict3("P-MUST", fn, "the incomplete-packet exit is taken only when idx + (length field + 7) > len(buf)", st, m, cond[:80])
            probs = []
            ok_q = q is not None and q.k == "list" and len(q.a[0]) == 1 and slice_is(q.a[0][0], buf, idx, None)
            if not ok_q:
                probs.append(f"the queue becomes {show(q)[:80] if q is not None else '?'}; reference [buf[idx:]] (cleared, then the unconsumed tail)")
            if tm != tm0:
                probs.append("an incomplete packet is appended to the result list")
            if nidx != idx:
                probs.append(f"returns index {show(nidx)[:40]}; reference idx unchanged")
            ck.verdict("P-MUST", fn, "incomplete packet: buf[idx:] is re-queued, nothing is returned, a non-zero code and the unchanged index are returned", probs, "queue == [buf[idx:]], (code != 0, idx)")
    ck.verdict("P-MUST", fn, "the helper has a complete and an incomplete exit", [] if kinds["complete"] and kinds["incomplete"] else [str(kinds)], str(kinds), nontrivial=False)


def scan_reads(ck, P, f, body, drain_st, scan, bname, qname, buf):
    """the scan part as a whole (from the end of the drain to the end of the scan loop) over one symbolic buffer, with
    the first three iterations peeled: every index / struct.unpack of those iterations is proven in bounds - this also
    covers state carried from one iteration to the next, which the one-iteration step relation does not see"""
    fn = "parse_space_packets"
    it = new_interp(P); env = Env()
    it.peel_depth = 3
    it.guarded_join = True
    names = {n.id for n in ast.walk(f.node) if isinstance(n, ast.Name)}
    env.vars[bname] = buf
    env.vars[qname] = sym("analysis_queue", ty=("list", "bytes"))
    # locals defined ahead of the drain (result list, id table) are opaque here: only the reads matter
    for s_ in body[:body.index(drain_st)]:
        for n in ast.walk(s_):
            if isinstance(n, ast.Name) and isinstance(n.ctx, ast.Store) and n.id not in env.vars:
                env.vars[n.id] = sym(n.id, ty=("list", None))
    it.where.append(f.short)
    try:
        it.block(body[body.index(drain_st) + 1:body.index(scan) + 1], env, f.module, f, [])
    except Unsupported as e:
        ck.unknown("X-BUF", fn, "scan part interpreted", str(e))
        return
    n = D.check_xbuf(ck, it, fn + " [scan part, 3 peeled iterations]")
    D.check_escape(ck, it, fn + " [scan part, 3 peeled iterations]", allowed=("ValueError",))
    ck.floor("reads of the scan part", n, 3)


def find_drain(P, f):
    """Locate the drain loop `while Q: B.extend(Q.popleft())` in f or in a function f calls directly.
    -> (problems, buffer variable name in f, statement of f's body that completes the drain) or (problems, None, None)"""
    probs = []

    def drain_in(stmts):
        for st in stmts:
            if isinstance(st, ast.While) and isinstance(st.test, ast.Name):
                return st
        return None

    def check_loop(loop, stmts, qname):
        pr = []
        if loop.test.id != qname:
            pr.append(f"drain loop runs while `{ast.unparse(loop.test)}`, reference: while the queue is non-empty")
        b = None
        body = [x for x in loop.body if not (isinstance(x, ast.Expr) and isinstance(x.value, ast.Constant))]
        if len(body) == 1 and isinstance(body[0], ast.Expr) and isinstance(body[0].value, ast.Call):
            c = body[0].value
            if isinstance(c.func, ast.Attribute) and c.func.attr == "extend" and isinstance(c.func.value, ast.Name) and len(c.args) == 1 \
                    and ast.unparse(c.args[0]).replace(" ", "") == f"{qname}.popleft()":
                b = c.func.value.id
        elif len(body) == 1 and isinstance(body[0], ast.AugAssign) and isinstance(body[0].op, ast.Add) and isinstance(body[0].target, ast.Name) \
                and ast.unparse(body[0].value).replace(" ", "") == f"{qname}.popleft()":
            b = body[0].target.id
        if b is None:
            pr.append("the drain loop does not extend the buffer with popleft() (first-in first-out)")
            return pr, None
        if any(isinstance(n, (ast.Break, ast.Return)) for n in ast.walk(loop)) or loop.orelse:
            pr.append("the drain loop can be left before the queue is empty")
        pre = [x for x in stmts[:stmts.index(loop)] if isinstance(x, (ast.Assign, ast.AnnAssign)) and ast.unparse(x.targets[0] if isinstance(x, ast.Assign) else x.target) == b]
        if not pre or pre[-1].value is None or ast.unparse(pre[-1].value) not in ("bytearray()", "bytearray(b'')"):
            pr.append("the buffer does not start empty")
        return pr, b

    qname = f.node.args.args[0].arg
    body = f.node.body
    loop = drain_in(body)
    if loop is not None:
        pr, b = check_loop(loop, body, qname)
        return pr, b, loop
    # one level of helper: B = helper(queue)
    for st in body:
        if isinstance(st, (ast.Assign, ast.AnnAssign)) and isinstance(st.value, ast.Call) and isinstance(st.value.func, ast.Name):
            tgt = st.targets[0] if isinstance(st, ast.Assign) else st.target
            r = P.resolve(f.module, st.value.func.id)
            g = P.funcs.get(r[1]) if r and r[0] == "func" else None
            if g is None or not isinstance(tgt, ast.Name):
                continue
            loop = drain_in(g.node.body)
            if loop is None:
                continue
            params = [a.arg for a in g.node.args.args]
            args = [ast.unparse(a) for a in st.value.args] + [None] * len(params)
            kws = {k.arg: ast.unparse(k.value) for k in st.value.keywords}
            passed = {pn: (kws.get(pn) or args[i]) for i, pn in enumerate(params)}
            qn = [pn for pn, v in passed.items() if v == qname]
            if not qn:
                continue
            pr, b = check_loop(loop, g.node.body, qn[0])
            last = g.node.body[-1]
            if b is not None and not (isinstance(last, ast.Return) and last.value is not None and ast.unparse(last.value) == b and g.node.body.index(loop) < len(g.node.body) - 1
                                      and not any(isinstance(n, ast.Return) for x in g.node.body[:-1] for n in ast.walk(x))):
                pr.append(f"{g.short} does not return the drained buffer")
            return pr, tgt.id, st
    return None, None, None


def resolve(t, facts, cache):
    """choose the alternative of every gate the facts decide (top-down, deciding each gate with the entailment procedure)"""
    from ..terms import gamma
    if not isinstance(t, T):
        return t
    if t.k == "gamma":
        c = t.a[0]
        key = (show(c), len(facts))
        if key not in cache:
            if D.prove(facts, c)[0] == "proved":
                cache[key] = True
            elif D.prove(facts, un("not", c))[0] == "proved":
                cache[key] = False
            else:
                cache[key] = None
        r = cache[key]
        if r is True:
            return resolve(t.a[1], facts, cache)
        if r is False:
            return resolve(t.a[2], facts, cache)
        return gamma(c, resolve(t.a[1], list(facts) + [c], {}), resolve(t.a[2], list(facts) + [un("not", c)], {}))
    if t.k in ("list", "tuple"):
        return T(t.k, tuple(resolve(x, facts, cache) for x in t.a[0]), ty=t.ty)
    if t.k == "listext":
        return T("listext", resolve(t.a[0], facts, cache), t.a[1], tuple(resolve(x, facts, cache) for x in t.a[2]), ty=t.ty)
    return t


def run(ck):
    P = Program(ck.repo)
    ck.explanation = (
        "Static check of the structural conditions from which lossless, ordered reassembly follows by induction over parser calls "
        "(the induction itself is stated in DESIGN.md and not mechanised). parse_space_packets is split at its scan loop; the drain "
        "loop is matched on the syntax tree (in the function or one helper it calls), everything else is decided on the gated "
        "terms of the abstract interpreter, whatever the statements look like: ONE ITERATION of the scan loop is interpreted from "
        "an arbitrary loop-head state (helpers inlined, list arguments by reference) and its outcomes are compared with the "
        "reference step relation: (a) the loop is left only when fewer than 6 octets remain or a registered id heads an incomplete "
        "packet, and then the queue is exactly [buf[idx:]] (nothing if idx == len(buf)) and no packet is added; (b) a continuing "
        "iteration has seen a full header; at a registered id the packet is complete, exactly buf[idx : idx+total] is appended, "
        "idx advances by total = (unsigned 16-bit word at idx+4) + 7 and the queue stays empty; otherwise idx advances by exactly 1 "
        "and nothing else changes; (c) the scanned id is (unsigned 16-bit word at idx) & 0x1FFF tested for membership in the raw() "
        "words of the given ids; (d) the scan starts at index 0 with an empty result list, and the result list is what is returned.")
    for r, t in (("P-MUST", "every exit preserves the unconsumed tail; drain consumes everything in order"), ("W-VAL", "packet id / length field positions and masks == C01 layout"),
                 ("X-PART", "returned slices are contiguous, skip is exactly one octet"), ("X-BUF", "reads in bounds"), ("D-TABLE", "registered-id test")):
        ck.rule(r, t)
    ck.trusted += ["the induction over calls from the per-call conditions (DESIGN.md 4/C13)", "collections.deque popleft/append semantics"]
    ck.assumptions += ["'for every fragmentation and interleaving' is not decided as such; only the per-call structural conditions are"]
    f = P.func(f"{SP}.parse_space_packets")
    buf = sym("concatenated_packets", ty="bytes")
    idx = sym("current_idx", ty="int")
    L = length(buf)

    # ---------------------------------------------------------------- helper (semantic: its exits, whatever its statements)
    hq = f"spacepackets.{SP}.__handle_packet_id_match"
    h = P.func(f"{SP}.__handle_packet_id_match") if any(q.endswith("__handle_packet_id_match") for q in P.funcs) else None
    if h is not None and [a.arg for a in h.node.args.args] == ["concatenated_packets", "analysis_queue", "current_idx", "tm_list"]:
        fn = "__handle_packet_id_match"
        helper_semantics(ck, P, h, buf, idx, L)
        # in-bounds reads of the helper, given the caller's guarantee idx + 6 <= len(buf)
        it2 = new_interp(P); env2 = Env()
        env2.add_fact(binop(">=", idx, C(0)))
        env2.add_fact(binop("<=", binop("+", idx, C(6)), L))
        R.run_guarded(ck, "X-BUF", fn, "call", lambda: it2.call_func(h, [], dict(concatenated_packets=buf, analysis_queue=sym("analysis_queue", ty=("list", "bytes")), current_idx=idx,
                                                                               tm_list=sym("tm_list", ty=("list", "bytes"))), env2))
        D.check_xbuf(ck, it2, fn)

    # ---------------------------------------------------------------- main function
    fn = "parse_space_packets"
    body = [s for s in f.node.body if not (isinstance(s, ast.Expr) and isinstance(s.value, ast.Constant))]
    probs, bname, drain_st = find_drain(P, f)
    if probs is None:
        ck.unknown("P-MUST", fn, "drain loop located (while <queue>: <buffer>.extend(<queue>.popleft()) in the function or a helper it calls)", "not found")
        return
    ck.verdict("P-MUST", fn, "drain: every queued chunk is consumed, oldest first, into one initially empty buffer", probs, "while queue: buf.extend(queue.popleft())")
    if bname is None:
        return
    top = [s for s in body if isinstance(s, (ast.While, ast.For)) and s is not drain_st and body.index(s) > body.index(drain_st)]
    if len(top) != 1 or not isinstance(top[0], ast.While):
        ck.unknown("P-MUST", fn, "scan loop located (the one loop after the drain)", f"{len(top)} loops after the drain")
        return
    scan = top[0]
    try:
        scan_step(ck, P, f, body, drain_st, scan, bname, buf, idx, L)
    except Unsupported as e:
        ck.unknown("P-MUST", fn, "one iteration of the scan loop interpreted", str(e))
    mask = None
    if "PACKET_ID_MASK" in P.syms.get(f"spacepackets.{SP}", {}):
        mask = new_interp(P).module_const(f"spacepackets.{SP}", P.syms[f"spacepackets.{SP}"]["PACKET_ID_MASK"][1])
        ck.verdict("K-CONST", SP, "PACKET_ID_MASK == 0x1FFF", [] if D.is_const(mask, 0x1FFF) else [show(mask)], "0x1FFF")


def scan_step(ck, P, f, body, drain_st, scan, bname, buf, idx, L):
    from ..terms import substitute, subterms, truthy, gamma
    fn = "parse_space_packets"
    qname = f.node.args.args[0].arg
    idsname = f.node.args.args[1].arg
    it = new_interp(P)
    it.where.append(f.short)
    env = Env()
    q_in = sym(qname, ty=("list", "bytes"))
    ids_in = sym(idsname, ty=("list", f"spacepackets.{SP}.PacketId"))
    env.vars[qname] = q_in
    env.vars[idsname] = ids_in
    # ---- everything ahead of the scan loop: interpreted (the drain is summarised; its effect was matched above)
    exits0 = []
    it.quiet += 1
    try:
        it.block(body[:body.index(scan)], env, f.module, f, exits0)
    finally:
        it.quiet -= 1
    if env.dead:
        ck.unknown("P-MUST", fn, "the scan loop is reachable", "the statements before it always leave the function")
        return
    stored = {n.id for n in ast.walk(scan) if isinstance(n, ast.Name) and isinstance(n.ctx, ast.Store)}
    zero_ints = [k for k in stored if k in env.vars and D.is_const(env.vars[k], 0) and env.vars[k].a[0] is not False]
    carried = [k for k in stored if k in env.vars]
    if len(zero_ints) != 1:
        ck.verdict("P-MUST", fn, "the scan starts at index 0", [f"no unique scan index initialised to 0 before the loop (candidates {sorted(zero_ints)}, loop variables {sorted(carried)})"], "")
        return
    iname = zero_ints[0]
    ck.verdict("P-MUST", fn, "the scan starts at index 0", [], f"{iname} = 0")
    last = body[-1]
    tname = ast.unparse(last.value) if isinstance(last, ast.Return) and isinstance(last.value, ast.Name) else None
    if tname is None or tname not in env.vars:
        ck.unknown("P-MUST", fn, "the packets found are returned (one list, in scan order)", "last statement is not `return <list>`")
        return
    ck.verdict("P-MUST", fn, "the result list starts empty", [] if env.vars[tname].k == "list" and not env.vars[tname].a[0] else [f"{tname} is {show(env.vars[tname])[:60]} when the scan starts"], "[]")
    ok = all(v.k == "list" and not v.a[0] for _pc, v, _h, _f in exits0)
    ck.verdict("P-MUST", fn, "an early exit (empty queue) returns the empty list", [] if ok else ["early exit returns something else"], f"{len(exits0)} early exits", nontrivial=False)
    extra = [k for k in carried if k not in (iname, tname, qname, bname)]
    if extra:
        ck.unknown("P-MUST", fn, "one iteration of the scan loop from an arbitrary loop-head state", f"the loop carries further state from one iteration to the next ({', '.join(sorted(extra))}); no invariant is inferred for it")
        scan_reads(ck, P, f, body, drain_st, scan, bname, qname, buf)
        return
    if bname in stored:
        ck.verdict("P-MUST", fn, "the buffer is not rebound while it is scanned", [f"{bname} is assigned inside the scan loop"], "")
        return
    # whole scan part, three peeled iterations
    scan_reads(ck, P, f, body, drain_st, scan, bname, qname, buf)
    # ---- loop-head state of an arbitrary iteration
    tm0 = sym("tm_list", ty=("list", "bytes"))
    q0 = T("list", (), ty=("list", "bytes"))
    head = env.clone()
    # locals computed from the drained buffer ahead of the loop (a cached length, ...) refer to the buffer being scanned
    old_buf = env.vars.get(bname)
    if old_buf is not None and old_buf != buf and old_buf.k == "sym":
        for k_ in list(head.vars):
            head.vars[k_] = substitute(head.vars[k_], {old_buf: buf})
        head.facts = [substitute(x, {old_buf: buf}) for x in head.facts]
    head.vars[bname] = buf
    head.vars[iname] = idx
    head.vars[tname] = tm0
    head.vars[qname] = q0
    head.add_fact(binop(">=", idx, C(0)))
    it2 = new_interp(P)
    it2.where.append(f.short)
    it2.no_peel = True
    it2.guarded_join = True
    test_env = head.clone()
    c = truthy(it2.ev(scan.test, test_env, f.module, f))
    outcomes = []       # (kind, env)
    if not D.is_const(c, True):
        e = head.clone()
        e.add_fact(un("not", c)); e.pc.append(un("not", c))
        rets = []
        if scan.orelse and not e.dead:
            it2.block(scan.orelse, e, f.module, f, rets)
        if not e.dead:
            outcomes.append(("exit", e))
    b = head.clone()
    b.add_fact(c); b.pc.append(c)
    frame = {"breaks": [], "kind": "while", "node": scan}
    rets = []
    it2.loop_stack.append(frame)
    try:
        it2.block(scan.body, b, f.module, f, rets)
    finally:
        it2.loop_stack.pop()
    if rets:
        ck.unknown("P-MUST", fn, "exits of the scan loop", "the loop body returns from the function directly")
        return
    for e in frame["breaks"]:
        outcomes.append(("exit", e))
    nxt = []
    for e in ([b] if not b.dead else []) + frame.get("continued", []):
        # A parser may signal "stop" through its loop variable (index := None) and leave at the next evaluation of the
        # loop test instead of through break: where the index has become None the state goes through the test here and
        # counts as an exit of THIS iteration.  Where it still is an index, the next test belongs to the next iteration
        # (which is this same analysis from an arbitrary index).
        iv_ = e.vars.get(iname)
        c_none = truthy(binop("is", iv_, NONE)) if iv_ is not None else FALSE_
        if D.is_const(c_none, False):
            nxt.append(e)
            continue
        e_go = e.clone()
        e_go.add_fact(un("not", c_none)); e_go.pc.append(un("not", c_none))
        if not e_go.dead:
            nxt.append(e_go)
        e_stop = e.clone()
        e_stop.add_fact(c_none); e_stop.pc.append(c_none)
        if not e_stop.dead:
            c2 = truthy(it2.ev(scan.test, e_stop.clone(), f.module, f))
            if not D.is_const(c2, False) and D.prove(e_stop.facts, un("not", c2))[0] != "proved":
                ck.unknown("P-MUST", fn, "an iteration that sets the index to None leaves the loop at the next test", show(c2)[:100])
                return
            if scan.orelse:
                it2.block(scan.orelse, e_stop, f.module, f, [])
            if not e_stop.dead:
                outcomes.append(("exit", e_stop))
    # an iteration that leaves the loop runs on through the statements behind the loop to the function's return: what counts
    # is the queue, the results and the returned value there (a tail may be re-queued behind the loop as well as inside it)
    after = body[body.index(scan) + 1:]
    finals = []
    for kind, e in outcomes:
        it2.log_exit_vars = True
        it2.exit_vars = []
        rets = []
        e2 = e.clone()
        it2.block(after, e2, f.module, f, rets)
        d0 = len(it2.where)
        vars_at = [v for d_, v in it2.exit_vars if d_ == d0]
        if not e2.dead or len(vars_at) != len(rets) or not rets:
            ck.unknown("P-MUST", fn, "every path behind the scan loop ends in a return", f"{len(rets)} returns, falls off the end: {not e2.dead}")
            return
        for (pc_, val_, _heap, facts_), vs_ in zip(rets, vars_at):
            fe = Env()
            fe.vars = dict(vs_)
            fe.facts = list(facts_)
            fe.pc = list(pc_)
            fe.vars["$return"] = val_
            finals.append(("exit", fe))
    it2.log_exit_vars = False
    outcomes = finals + [("next", e) for e in nxt]
    D.check_escape(ck, it2, fn + " [one iteration]", allowed=())
    # ---- one spelling for positions and big-endian words: octets seen through slices become octets of the buffer, slice
    # bounds and indices are written in linear normal form, (b[k] << 8) | b[k+1] becomes the unsigned word at k
    from ..terms import mapterm
    from ..linear import _be_field
    base_facts = [binop(">=", idx, C(0))]

    def pos(t):
        return t if D.is_const(t, None) else D.lin_term(linearize(t))

    def canon(t, facts):
        if t is None:
            return None
        t = D.simplify(D.simplify(t, facts), facts)

        def f_(x):
            if x.k == "slice":
                return T("slice", x.a[0], pos(x.a[1]), pos(x.a[2]), ty=x.ty)
            if x.k == "idx" and x.a[0].k == "sym":
                return T("idx", x.a[0], pos(x.a[1]), ty=x.ty)
            if x.k == "op" and x.a[0] == "|":
                w_ = _be_field(x)
                if w_ is not None:
                    return w_
            return x
        return mapterm(f_, mapterm(f_, t))
    for _k, e in outcomes:
        fs = list(base_facts) + list(e.facts)
        e.facts = [canon(x, fs) for x in e.facts]
        e.pc = [canon(x, fs) for x in e.pc]
        for k_ in (iname, tname, qname, "$return"):
            if k_ in e.vars:
                e.vars[k_] = canon(e.vars[k_], fs)
    # ---- the registered-id test: every membership test of the iteration is `<id> in <table>`
    W0 = T("unpacked", "!H", T("slice", buf, pos(idx), pos(binop("+", idx, C(2))), ty="bytes"), ty="int")
    pid_ref = binop("&", W0, C(0x1FFF))
    atoms = {}
    for _k, e in outcomes:
        for t in list(e.facts) + list(e.pc) + [e.vars.get(iname), e.vars.get(tname), e.vars.get(qname)]:
            if t is None:
                continue
            for x in subterms(t):
                if x.k == "op" and x.a[0] in ("in", "notin"):
                    atoms[x] = True
    tables = {a.a[2] for a in atoms}
    ids_seen = {a.a[1] for a in atoms}
    if not atoms:
        ck.verdict("D-TABLE", fn, "a position is a packet start exactly when its id is among the registered ids", ["the iteration never tests membership in the registered ids"], "")
        return
    probs = []
    if len(tables) != 1:
        probs.append(f"{len(tables)} different tables are consulted")
    table = next(iter(tables))
    okt = table.k == "call" and table.a[0] == "listcomp" and len(table.a[1]) == 2 and table.a[1][0] == ids_in and D.is_const(table.a[1][1], None) is False \
        and isinstance(table.a[1][1].a[0], str) and table.a[1][1].a[0].replace(" ", "").endswith(".raw()")
    if not okt and table.k == "call" and table.a[0] == "genexp" and len(table.a[1]) == 1 and isinstance(table.a[1][0].a[0], str):
        # the same table written as a generator (fed to set() / frozenset() / tuple())
        import re as _re
        okt = bool(_re.match(rf"^\(?\s*(\w+)\.raw\(\)\s+for\s+\1\s+in\s+{_re.escape(idsname)}\s*\)?$", table.a[1][0].a[0]))
    if not okt:
        oc = R.opaque_calls(table)
        if table.k != "call" or table.a[0] not in ("listcomp", "genexp"):
            ck.unknown("D-TABLE", fn, "registered ids are the raw() words of the given packet ids", f"table is {show(table)[:100]}")
        else:
            probs.append(f"the table is {show(table)[:100]}, reference [p.raw() for p in {idsname}]")
    ck.verdict("D-TABLE", fn, "registered ids are the raw() words of the given packet ids; one table", probs, show(table)[:80])
    ren = {}
    probs = []
    hdr_facts = [binop(">=", idx, C(0)), binop("<=", binop("+", idx, C(6)), L)]

    def unmask(t):
        if t.k == "op" and t.a[0] == "&":
            for p_, q_ in ((t.a[1], t.a[2]), (t.a[2], t.a[1])):
                if q_.k == "const" and isinstance(q_.a[0], int):
                    return p_, q_.a[0]
        return t, None

    for x in ids_seen:
        if x == pid_ref:
            continue
        same = False
        xs = D.simplify(D.simplify(x, hdr_facts), hdr_facts)       # octets seen through slices -> octets of the buffer
        if xs == pid_ref:
            same = True
        if not same:
            (xi, xm), (ri, rm) = unmask(xs), unmask(pid_ref)
            same = xm is not None and xm == rm and linearize(xi).key() == linearize(ri).key()
        if not same:
            try:
                ctx = BitCtx()
                same = norm_bits(xs, ctx).bits[:16] == norm_bits(pid_ref, ctx).bits[:16]
            except Exception:
                same = False
        if not same:
            st, m = D.prove(hdr_facts, binop("==", xs, pid_ref))
            same = st == "proved"
        if same:
            ren[x] = pid_ref
        else:
            probs.append(f"tested id is {show(x)[:120]}")
    det = "; ".join(show(x)[:80] for x in ids_seen)
    if probs and any(R.opaque_calls(x) for x in ids_seen):
        ck.unknown("W-VAL", fn, "scanned id == (unsigned 16-bit word at idx) & 0x1FFF", "; ".join(probs))
        return
    ck.verdict("W-VAL", fn, "scanned id == (unsigned 16-bit word at idx) & 0x1FFF = the 13-bit packet identification of the C01 layout", probs, det)
    if probs:
        return
    M = binop("in", pid_ref, table)

    def sub(t):
        return substitute(t, ren) if ren and t is not None else t
    # ---- reference quantities
    W4 = T("unpacked", "!H", T("slice", buf, pos(binop("+", idx, C(4))), pos(binop("+", idx, C(6))), ty="bytes"), ty="int")
    total = binop("+", W4, C(7))
    end = binop("+", idx, total)
    S = binop(">", binop("+", idx, C(6)), L)
    notS = binop("<=", binop("+", idx, C(6)), L)
    Cpl = binop("<=", end, L)

    def norm_in(t):
        # `x notin T` is stored as such by the interpreter; the entailment procedure knows `in` atoms
        return t

    def is_tail_list(q, facts):
        return q.k == "list" and len(q.a[0]) == 1 and slice_is(D.simplify(q.a[0][0], facts), buf, idx, None)

    def is_empty(q):
        return q.k == "list" and not q.a[0]

    def tm_plus(tm, facts):
        if tm.k != "listext" or tm.a[0] != tm0 or len(tm.a[2]) != 1:
            return False
        x = tm.a[2][0]
        if tm.a[1] == "extend":
            if x.k != "list" or len(x.a[0]) != 1:
                return False
            x = x.a[0][0]
        elif tm.a[1] != "append":
            return False
        return slice_is(D.simplify(x, facts), buf, idx, end)

    n_exit = n_next = 0
    for kind, e in outcomes:
        facts = [sub(x) for x in e.facts]
        if not D.feasible(facts):
            continue
        q, tm, ni = sub(e.vars.get(qname)), sub(e.vars.get(tname)), sub(e.vars.get(iname))
        where = " and ".join(show(sub(x))[:50] for x in e.pc if not D.is_const(x, True))[:160] or "always"
        opaque = R.opaque_calls(T("tuple", (q, tm, ni) + tuple(facts)))
        opaque = [o for o in opaque if o != "listcomp"]

        def verdict(rule, what, problems, how):
            if problems and opaque:
                ck.unknown(rule, fn, what, f"built with constructs the analysis does not model ({', '.join(opaque)}): " + "; ".join(problems)[:200])
            else:
                ck.verdict(rule, fn, what, problems, how)
        if kind == "exit":
            n_exit += 1
            f_ns = facts + [notS]
            if D.feasible(f_ns):
                st, m = D.prove(f_ns, M)
                ck.verdict3("P-MUST", fn, f"the scan stops with 6 or more octets left only at a registered id [exit under {where}]", st, m, "entailed")
                st, m = D.prove(f_ns + [M], un("not", Cpl))
                ck.verdict3("P-MUST", fn, f"the scan stops at a registered id only when its packet is incomplete: idx + (length field + 7) > len(buf) [exit under {where}]", st, m, "entailed")
            probs = []
            for case, cf, want in (("fewer than 6 octets left, idx < len(buf)", [S, binop("<", idx, L)], "tail"), ("idx == len(buf)", [S, binop(">=", idx, L)], "empty"),
                                   ("incomplete packet at a registered id", [notS, M, un("not", Cpl)], "tail")):
                fc = facts + cf
                if not D.feasible(fc):
                    continue
                qv = resolve(q, fc, {})
                tv = resolve(tm, fc, {})
                if want == "tail" and not is_tail_list(qv, fc):
                    probs.append(f"[{case}] the queue is left as {show(qv)[:100]}; reference [buf[idx:]]")
                if want == "empty" and not is_empty(qv) and not is_tail_list(qv, fc):
                    probs.append(f"[{case}] the queue is left as {show(qv)[:100]}; reference: empty")
                if tv != tm0:
                    probs.append(f"[{case}] the results become {show(tv)[:100]} on an exit that found no complete packet")
            rv = sub(e.vars.get("$return"))
            if rv is None or resolve(rv, facts, {}) != resolve(tm, facts, {}):
                probs.append(f"the function returns {show(rv)[:60] if rv is not None else 'nothing'}, not the result list")
            verdict("P-MUST", f"exit: the queue is left holding exactly the unconsumed tail buf[idx:] (nothing when idx == len(buf)); no packet is added; the result list is returned [exit under {where}]", probs, "queue == [buf[idx:]]")
        else:
            n_next += 1
            st, m = D.prove(facts, notS)
            ck.verdict3("P-MUST", fn, f"an iteration that continues has a complete 6-octet header at idx: idx + 6 <= len(buf) [under {where}]", st, m, "entailed")
            fm = facts + [M]
            if D.feasible(fm):
                st, m = D.prove(fm, Cpl)
                ck.verdict3("P-MUST", fn, f"a packet is returned only when it is complete: idx + (length field + 7) <= len(buf) [under {where}]", st, m, "entailed")
                probs = []
                fmc = fm + [Cpl]
                iv, qv, tv = resolve(ni, fmc, {}), resolve(q, fmc, {}), resolve(tm, fmc, {})
                st2, m2 = D.prove(fmc, binop("==", iv, end))
                if st2 != "proved":
                    probs.append(f"index becomes {show(iv)[:80]}; reference idx + (length field + 7)")
                if not tm_plus(tv, fmc):
                    probs.append(f"results become {show(tv)[:120]}; reference results + [buf[idx : idx+total]]")
                if not is_empty(qv):
                    probs.append(f"the queue is changed on the complete-packet path: {show(qv)[:60]}")
                verdict("X-PART", f"registered id, complete packet: exactly buf[idx : idx+total] is appended, the index advances by exactly total, the queue stays empty [under {where}]", probs, "append + idx += total")
            fnm = facts + [un("not", M)]
            if D.feasible(fnm):
                probs = []
                iv, qv, tv = resolve(ni, fnm, {}), resolve(q, fnm, {}), resolve(tm, fnm, {})
                st2, m2 = D.prove(fnm, binop("==", iv, binop("+", idx, C(1))))
                if st2 != "proved":
                    probs.append(f"index becomes {show(iv)[:60]}, reference idx + 1")
                if tv != tm0:
                    probs.append(f"results become {show(tv)[:80]} at a position that is not a registered id")
                if not is_empty(qv):
                    probs.append(f"the queue is changed: {show(qv)[:60]}")
                verdict("X-PART", f"a position that is not a registered id is skipped by exactly one octet and nothing else changes [under {where}]", probs, "idx += 1")
    ck.verdict("P-MUST", fn, "the iteration has both kinds of outcome (leave the loop / continue)", [] if n_exit and n_next else [f"{n_exit} exits, {n_next} continuing paths"], f"{n_exit} exits, {n_next} continuing", nontrivial=False)
