"""C13 - space-packet stream parser: structural conditions of lossless reassembly."""
from __future__ import annotations

import ast

from ..index import Program
from ..gti import new_interp, call_method, construct, read_path, Env, Unsupported
from ..terms import T, C, sym, show, binop, un, length, NONE
from ..linear import Lin, linearize
from ..bits import data_bits_be, BitCtx, norm_bits, buffer_pos
from .. import rules as R
from .. import decode_rules as D

SP = "ccsds.spacepacket"


def lin_eq(a, b):
    return linearize(a).key() == linearize(b).key()


def cond_is(term, lhs, op, rhs):
    """is boolean `term` the comparison lhs op rhs (up to moving terms across the relation)?"""
    t = term
    if t.k != "op" or t.a[0] not in (">", ">=", "<", "<=", "==", "!="):
        return False
    o, a, b = t.a
    flip = {">": "<", "<": ">", ">=": "<=", "<=": ">=", "==": "==", "!=": "!="}
    d1 = linearize(a) - linearize(b)
    d2 = linearize(lhs) - linearize(rhs)
    if o == op and d1.key() == d2.key():
        return True
    if flip[o] == op and d1.key() == d2.scale(-1).key():
        return True
    # integer strictness: x > y  <=>  x >= y + 1
    if o == ">" and op == ">=" and (d1 + Lin({}, -1)).key() == d2.key():
        return True
    if o == ">=" and op == ">" and d1.key() == (d2 + Lin({}, -1)).key():
        return True
    return False


def slice_is(term, buf, lo, hi):
    if term.k != "slice" or term.a[0] != buf:
        return False
    if not lin_eq(term.a[1], lo):
        return False
    if hi is None:
        return D.is_const(term.a[2], None)
    return not D.is_const(term.a[2], None) and lin_eq(term.a[2], hi)


def appends(node, name):
    """ast.Call nodes `name.append(x)` directly in a statement list (not nested in compound statements)"""
    out = []
    for st in node:
        if isinstance(st, ast.Expr) and isinstance(st.value, ast.Call) and isinstance(st.value.func, ast.Attribute) \
                and st.value.func.attr == "append" and isinstance(st.value.func.value, ast.Name) and st.value.func.value.id == name:
            out.append(st.value)
    return out


def helper_semantics(ck, P, h, buf, idx, L):
    """The helper is interpreted as a whole under the caller's guarantee (0 <= idx, idx + 6 <= len(buf)); every normal
    exit is classified by its result code and checked with the values its variables have there:
      complete   (code 0):  reached exactly when idx + total <= len(buf), total = (unsigned word at idx+4) + 7;
                            tm_list grew by exactly buf[idx : idx+total]; the queue is untouched; returns idx + total
      incomplete (code != 0): reached exactly when idx + total > len(buf); the queue becomes [buf[idx:]];
                            tm_list is untouched; returns idx unchanged
    No statement shape is assumed."""
    fn = "__handle_packet_id_match"
    it = new_interp(P); env = Env()
    q0, tm0 = sym("analysis_queue", ty=("list", "bytes")), sym("tm_list", ty=("list", "bytes"))
    env.vars.update(concatenated_packets=buf, current_idx=idx, analysis_queue=q0, tm_list=tm0)
    env.add_fact(binop(">=", idx, C(0)))
    env.add_fact(binop("<=", binop("+", idx, C(6)), L))
    it.log_exit_vars = True
    it.exit_vars = []
    it.where.append(h.short)
    exits = []
    try:
        it.block(h.node.body, env, h.module, h, exits)
    except Unsupported as e:
        ck.unknown("P-MUST", fn, "helper interpreted", str(e))
        return
    d0 = len(it.where)
    vars_at = [v for d, v in it.exit_vars if d == d0]
    if not env.dead or len(vars_at) != len(exits) or not exits:
        ck.unknown("P-MUST", fn, "every path of the helper ends in an explicit return", f"{len(exits)} returns, falls off the end: {not env.dead}")
        return
    word = T("unpacked", "!H", T("slice", buf, binop("+", idx, C(4)), binop("+", idx, C(6)), ty="bytes"), ty="int")
    total = binop("+", word, C(7))
    end = binop("+", idx, total)
    kinds = {"complete": 0, "incomplete": 0}
    for (pc, val, _heap, facts), vs in zip(exits, vars_at):
        if not D.feasible(facts):
            continue
        if not (val.k == "tuple" and len(val.a[0]) == 2 and val.a[0][0].k == "const"):
            ck.unknown("P-MUST", fn, "result is a (code, index) pair with a constant code", show(val)[:80])
            return
        code, nidx = val.a[0][0].a[0], val.a[0][1]
        q, tm = vs.get("analysis_queue"), vs.get("tm_list")
        cond = " and ".join(show(c)[:60] for c in pc) or "always"
        if code == 0:
            kinds["complete"] += 1
            st, m = D.prove(facts, binop("<=", end, L))
            ck.verdict3("P-MUST", fn, "a packet is returned only when it is complete: idx + (length field + 7) <= len(buf)", st, m, cond[:80])
            probs = []
            ok_tm = tm is not None and tm.k == "listext" and tm.a[0] == tm0 and tm.a[1] == "append" and len(tm.a[2]) == 1 and slice_is(D.simplify(tm.a[2][0], facts), buf, idx, end)
            if not ok_tm:
                probs.append(f"results become {show(tm)[:100] if tm is not None else '?'}; reference tm_list + [buf[idx : idx+total]]")
            if q != q0:
                probs.append(f"the queue is changed on the complete path: {show(q)[:60]}")
            if not lin_eq(nidx, end):
                probs.append(f"returns index {show(nidx)[:60]}; reference idx + total")
            ck.verdict("X-PART", fn, "complete packet: exactly buf[idx : idx+total] is appended to the results, the queue is untouched and the index advances by exactly total", probs, "append + (0, idx+total)")
        else:
            kinds["incomplete"] += 1
            st, m = D.prove(facts, binop(">", end, L))
            ck.verdict3("P-MUST", fn, "the incomplete-packet exit is taken only when idx + (length field + 7) > len(buf)", st, m, cond[:80])
            probs = []
            ok_q = q is not None and q.k == "list" and len(q.a[0]) == 1 and slice_is(q.a[0][0], buf, idx, None)
            if not ok_q:
                probs.append(f"the queue becomes {show(q)[:80] if q is not None else '?'}; reference [buf[idx:]] (cleared, then the unconsumed tail)")
            if tm != tm0:
                probs.append("an incomplete packet is appended to the result list")
            if nidx != idx:
                probs.append(f"returns index {show(nidx)[:40]}; reference idx unchanged")
            ck.verdict("P-MUST", fn, "incomplete packet: buf[idx:] is re-queued, nothing is returned, a non-zero code and the unchanged index are returned", probs, "queue == [buf[idx:]], (code != 0, idx)")
    ck.verdict("P-MUST", fn, "the helper has a complete and an incomplete exit", [] if kinds["complete"] and kinds["incomplete"] else [str(kinds)], str(kinds), nontrivial=False)


def scan_reads(ck, P, f, body, init, scan, buf):
    """the scan part as a whole (from the index initialisation to the end of the scan loop) over one symbolic buffer, with
    the first three iterations peeled: every index / struct.unpack of those iterations is proven in bounds - this also
    covers state carried from one iteration to the next, which the per-statement conditions above do not see"""
    fn = "parse_space_packets"
    if not init or body.index(init[-1]) > body.index(scan):
        ck.unknown("X-BUF", fn, "scan part located", "index initialisation not found before the scan loop")
        return
    # start right after the drain loop, so that local definitions made before the index initialisation are included
    others = [i for i, s_ in enumerate(body) if isinstance(s_, ast.While) and s_ is not scan and i < body.index(scan)]
    start = (max(others) + 1) if others else body.index(init[-1])
    it = new_interp(P); env = Env()
    it.peel_depth = 3
    env.vars.update(concatenated_packets=buf, analysis_queue=sym("analysis_queue", ty=("list", "bytes")), tm_list=sym("tm_list", ty=("list", "bytes")),
                    ids_raw=sym("ids_raw", ty=("list", "int")))
    it.where.append(f.short)
    try:
        it.block(body[min(start, body.index(init[-1])):body.index(scan) + 1], env, f.module, f, [])
    except Unsupported as e:
        ck.unknown("X-BUF", fn, "scan part interpreted", str(e))
        return
    n = D.check_xbuf(ck, it, fn + " [scan part, 3 peeled iterations]")
    D.check_escape(ck, it, fn + " [scan part, 3 peeled iterations]", allowed=("ValueError",))
    ck.floor("reads of the scan part", n, 3)


def run(ck):
    P = Program(ck.repo)
    ck.explanation = (
        "Static check of the structural conditions from which lossless, ordered reassembly follows by induction over parser calls "
        "(the induction itself is stated in DESIGN.md and not mechanised). The statement skeleton of parse_space_packets and its "
        "helper is matched on the syntax tree (a restructured body yields an analysis error, never a verdict); every expression "
        "in it is evaluated to a gated term by the abstract interpreter and compared semantically: (1) drain: the whole queue is "
        "consumed in order into one buffer; (2) tail preservation: every exit of the scan loop either re-queues buf[idx:] or is "
        "taken only when nothing is left / the helper has re-queued (the helper returns a non-zero code exactly on its re-queue "
        "path); the short-header test is idx + 6 > len(buf); (3) contiguity: a returned packet is buf[idx : idx+total] and idx "
        "advances by exactly total, a non-matching position advances by exactly 1; (4) the scanned id is the 13-bit packet id at "
        "idx and the length field the 16-bit unsigned word at idx+4, total = field + 7, all equal to the C01 layout; (5) results "
        "are appended to one list in scan order.")
    for r, t in (("P-MUST", "every exit preserves the unconsumed tail; drain consumes everything in order"), ("W-VAL", "packet id / length field positions and masks == C01 layout"),
                 ("X-PART", "returned slices are contiguous, skip is exactly one octet"), ("X-BUF", "reads in bounds")):
        ck.rule(r, t)
    ck.trusted += ["the induction over calls from the per-call conditions (DESIGN.md 4/C13)", "collections.deque popleft/append semantics"]
    ck.assumptions += ["'for every fragmentation and interleaving' is not decided as such; only the per-call structural conditions are"]
    f = P.func(f"{SP}.parse_space_packets")
    h = P.func(f"{SP}.__handle_packet_id_match")
    it = new_interp(P)
    buf = sym("concatenated_packets", ty="bytes")
    idx = sym("current_idx", ty="int")
    L = length(buf)

    # ---------------------------------------------------------------- helper (semantic: its exits, whatever its statements)
    fn = "__handle_packet_id_match"
    helper_semantics(ck, P, h, buf, idx, L)
    # in-bounds reads of the helper, given the caller's guarantee idx + 6 <= len(buf)
    it2 = new_interp(P); env2 = Env()
    env2.add_fact(binop(">=", idx, C(0)))
    env2.add_fact(binop("<=", binop("+", idx, C(6)), L))
    R.run_guarded(ck, "X-BUF", fn, "call", lambda: it2.call_func(h, [], dict(concatenated_packets=buf, analysis_queue=sym("analysis_queue", ty=("list", "bytes")), current_idx=idx,
                                                                           tm_list=sym("tm_list", ty=("list", "bytes"))), env2))
    D.check_xbuf(ck, it2, fn)

    # ---------------------------------------------------------------- main function
    fn = "parse_space_packets"
    body = [s for s in f.node.body if not (isinstance(s, ast.Expr) and isinstance(s.value, ast.Constant))]
    whiles = [s for s in body if isinstance(s, ast.While)]
    if len(whiles) != 2:
        ck.unknown("P-MUST", fn, "skeleton: drain loop, then scan loop", f"{len(whiles)} top-level while loops")
        return
    drain, scan = whiles
    # (1) drain
    probs = []
    if ast.unparse(drain.test) != "analysis_queue":
        probs.append(f"drain loop runs while `{ast.unparse(drain.test)}`, reference: while the queue is non-empty")
    calls = [n for n in ast.walk(drain) if isinstance(n, ast.Call)]
    src = ast.unparse(drain)
    if "concatenated_packets.extend(analysis_queue.popleft())" not in src.replace("\n", " "):
        probs.append("the drain loop does not extend the buffer with popleft() (first-in first-out)")
    pre = [s for s in body[:body.index(drain)] if isinstance(s, ast.Assign) and ast.unparse(s.targets[0]) == "concatenated_packets"]
    if not pre or ast.unparse(pre[-1].value) not in ("bytearray()", "bytearray(b'')"):
        probs.append("the buffer does not start empty")
    ck.verdict("P-MUST", fn, "drain: every queued chunk is consumed, oldest first, into one initially empty buffer", probs, "while queue: buf.extend(queue.popleft())")
    init = [s for s in body[body.index(drain):body.index(scan)] if isinstance(s, ast.Assign) and ast.unparse(s.targets[0]) == "current_idx"]
    ck.verdict("P-MUST", fn, "the scan starts at index 0", [] if init and ast.unparse(init[-1].value) == "0" else ["current_idx is not initialised to 0 before the scan loop"], "current_idx = 0")
    # whole scan part, three peeled iterations (independent of the statement skeleton matched below)
    scan_reads(ck, P, f, body, init, scan, buf)
    try:
        scan_skeleton(ck, P, it, f, h, body, scan, buf, idx, L)
    except Unsupported as e:
        ck.unknown("P-MUST", fn, "scan loop conditions evaluated statement by statement", f"the loop uses state the per-statement evaluation cannot resolve: {e}")


def scan_skeleton(ck, P, it, f, h, body, scan, buf, idx, L):
    fn = "parse_space_packets"
    # (2) scan loop skeleton
    sbody = list(scan.body)
    lead = []
    while sbody and isinstance(sbody[0], (ast.Assign, ast.AnnAssign)) and not any(isinstance(n, ast.Call) for n in ast.walk(sbody[0])):
        lead.append(sbody.pop(0))       # local definitions ahead of the short-header test are evaluated, not matched
    if ast.unparse(scan.test) != "True" or len(sbody) < 3 or not isinstance(sbody[0], ast.If):
        ck.unknown("P-MUST", fn, "scan loop skeleton: while True: if <short>: ...; break; id = ...; if id in ids: ... else: ...", "skeleton not recognised")
        return
    env = Env()
    q = sym("analysis_queue", ty=("list", "bytes"))
    env.vars.update(concatenated_packets=buf, current_idx=idx, analysis_queue=q, tm_list=sym("tm_list", ty=("list", "bytes")), ids_raw=sym("ids_raw", ty=("list", "int")))
    # loop-invariant local definitions made between the drain and the scan loop (e.g. a cached buffer length) are
    # evaluated, provided the scan loop never reassigns them
    stored_in_scan = {n_.id for n_ in ast.walk(scan) if isinstance(n_, ast.Name) and isinstance(n_.ctx, ast.Store)}
    drain_i = max(i for i, s_ in enumerate(body) if isinstance(s_, ast.While) and s_ is not scan)
    pre = [s_ for s_ in body[drain_i + 1:body.index(scan)] if isinstance(s_, ast.Assign) and len(s_.targets) == 1 and isinstance(s_.targets[0], ast.Name)
           and s_.targets[0].id != "current_idx" and s_.targets[0].id not in stored_in_scan]
    if pre:
        it.block(pre, env, f.module, f, [])
    if lead:
        it.block(lead, env, f.module, f, [])
    short = sbody[0]
    cond = it.ev(short.test, env.clone(), f.module, f)
    ck.verdict("P-MUST", fn, "the short-header test is idx + 6 > len(buf) (a complete 6-octet header is always examined, fewer octets never are)",
               [] if cond_is(cond, binop("+", idx, C(6)), ">", L) else [f"test is {show(cond)[:100]}"], show(cond)[:80])
    probs = []
    if not short.body or not isinstance(short.body[-1], ast.Break):
        probs.append("the short-header path does not leave the loop")
    inner = [s for s in short.body if isinstance(s, ast.If)]
    direct = appends(short.body, "analysis_queue")
    if direct:
        t = it.ev(direct[0].args[0], env.clone(), f.module, f)
        if not slice_is(t, buf, idx, None):
            probs.append(f"re-queues {show(t)[:60]}, reference buf[idx:]")
    elif len(inner) == 1 and appends(inner[0].body, "analysis_queue") and not inner[0].orelse:
        g = it.ev(inner[0].test, env.clone(), f.module, f)
        if not cond_is(g, idx, "<", L):
            probs.append(f"the tail is re-queued only when {show(g)[:60]}; reference: whenever idx < len(buf)")
        t = it.ev(appends(inner[0].body, "analysis_queue")[0].args[0], env.clone(), f.module, f)
        if not slice_is(t, buf, idx, None):
            probs.append(f"re-queues {show(t)[:60]}, reference buf[idx:]")
    else:
        probs.append("the short-header exit does not re-queue the unconsumed tail")
    ck.verdict("P-MUST", fn, "exit 'fewer than 6 octets left': the tail buf[idx:] is re-queued whenever it is non-empty", probs, "append(buf[idx:]) under idx < len(buf); break")
    # (4) id extraction
    e3 = env.clone()
    e3.add_fact(un("not", cond))
    rest = sbody[1:]
    # one or more local definitions, then the registered-id test
    n_def = 0
    while n_def < len(rest) and isinstance(rest[n_def], (ast.Assign, ast.AnnAssign)):
        n_def += 1
    if n_def == 0 or n_def >= len(rest) or not isinstance(rest[n_def], ast.If):
        ck.unknown("W-VAL", fn, "id extraction followed by the registered-id test", "skeleton not recognised")
        return
    it.block(rest[:n_def], e3, f.module, f, [])
    tested = rest[n_def].test
    pid_name = tested.left.id if isinstance(tested, ast.Compare) and isinstance(tested.left, ast.Name) else None
    pid = e3.vars.get(pid_name) if pid_name else None
    defs = rest[:n_def]
    rest = [rest[n_def - 1]] + rest[n_def:]     # the remaining checks look at rest[0] (last definition) and rest[1] (the test)
    ok = False
    det = show(pid)[:100] if pid is not None else "?"
    if pid is not None:
        # symbolic position: compare structure (unsigned 16-bit word at idx) & 0x1FFF
        w = T("unpacked", "!H", T("slice", buf, idx, binop("+", idx, C(2)), ty="bytes"), ty="int")
        ok = pid.k == "op" and pid.a[0] == "&" and ((pid.a[1] == w and D.is_const(pid.a[2], 0x1FFF)) or (pid.a[2] == w and D.is_const(pid.a[1], 0x1FFF)))
    ck.verdict("W-VAL", fn, "scanned id == (unsigned 16-bit word at idx) & 0x1FFF = the 13-bit packet identification of the C01 layout", [] if ok else [det], det)
    sel = rest[1]
    t = it.ev(sel.test, e3.clone(), f.module, f)
    ok = t.k == "op" and t.a[0] == "in" and t.a[1] == pid
    ck.verdict("D-TABLE", fn, "a position is a packet start exactly when its id is among the registered ids", [] if ok else [show(t)[:80]], show(t)[:60])
    ids_assign = [s for s in body if isinstance(s, ast.Assign) and ast.unparse(s.targets[0]) == "ids_raw"]
    ok = bool(ids_assign) and ast.unparse(ids_assign[0].value).replace(" ", "") == "[packet_id.raw()forpacket_idinpacket_ids]"
    ck.verdict("D-TABLE", fn, "registered ids are the raw() words of the given packet ids", [] if ok else [ast.unparse(ids_assign[0].value) if ids_assign else "missing"], "list of raw()")
    # matched branch: helper call wiring and exit under non-zero result
    probs = []
    calls = [n for n in ast.walk(ast.Module(body=sel.body, type_ignores=[])) if isinstance(n, ast.Call) and ast.unparse(n.func).endswith("__handle_packet_id_match")]
    if len(calls) != 1:
        probs.append(f"{len(calls)} helper calls on the matched path")
    else:
        kw = {k.arg: ast.unparse(k.value) for k in calls[0].keywords}
        pos = [ast.unparse(a) for a in calls[0].args]
        names = [a.arg for a in h.node.args.args]
        for i, a in enumerate(pos):
            kw[names[i]] = a
        if kw != {"concatenated_packets": "concatenated_packets", "analysis_queue": "analysis_queue", "current_idx": "current_idx", "tm_list": "tm_list"}:
            probs.append(f"helper called with {kw}")
        asg = [s for s in sel.body if isinstance(s, ast.Assign) and isinstance(s.value, ast.Call)]
        if not asg or ast.unparse(asg[0].targets[0]).replace(" ", "") not in ("(result,current_idx)", "result,current_idx"):
            probs.append("the helper's (code, index) result is not taken over as (result, current_idx)")
        brk = [s for s in sel.body if isinstance(s, ast.If)]
        okb = False
        for b in brk:
            bt = ast.unparse(b.test).replace(" ", "")
            if bt in ("result!=0", "result", "result==-1", "result<0") and b.body and isinstance(b.body[-1], ast.Break) and not appends(b.body, "tm_list"):
                okb = True
        if not okb:
            probs.append("the loop is not left when the helper reports a re-queued partial packet")
        if len([s for s in sel.body if isinstance(s, ast.Break)]) > 0:
            probs.append("the matched path leaves the loop unconditionally")
    ck.verdict("P-MUST", fn, "exit 'partial packet': taken exactly when the helper returned non-zero, i.e. after it re-queued buf[idx:]; otherwise the scan continues at the advanced index", probs,
               "result, idx = helper(...); if result != 0: break")
    # non-matching branch: advance by exactly one
    probs = []
    e4 = e3.clone()
    if len(sel.orelse) != 1 or not isinstance(sel.orelse[0], (ast.AugAssign, ast.Assign)):
        probs.append(f"the non-matching path is `{ast.unparse(ast.Module(body=sel.orelse, type_ignores=[]))[:60]}`")
    else:
        it.block(sel.orelse, e4, f.module, f, [])
        nv = e4.vars.get("current_idx")
        if not lin_eq(nv, binop("+", idx, C(1))):
            probs.append(f"index becomes {show(nv)[:40]}, reference idx + 1")
    ck.verdict("X-PART", fn, "a position that is not a registered id is skipped by exactly one octet", probs, "current_idx += 1")
    # no other exits
    exits = [n for n in ast.walk(scan) if isinstance(n, (ast.Break, ast.Return))]
    ck.verdict("P-MUST", fn, "the scan loop has exactly the two exits checked above", [] if len(exits) == 2 else [f"{len(exits)} break/return statements in the scan loop"], "2 exits")
    last = body[-1]
    ck.verdict("P-MUST", fn, "the packets found are returned (one list, in scan order)", [] if isinstance(last, ast.Return) and ast.unparse(last.value) == "tm_list" else ["last statement is not `return tm_list`"], "return tm_list")
    early = [s for s in body if isinstance(s, ast.If) and ast.unparse(s.test).replace(" ", "") == "notanalysis_queue"]
    ok = all(isinstance(s.body[-1], ast.Return) and ast.unparse(s.body[-1].value) == "tm_list" for s in early)
    ck.verdict("P-MUST", fn, "an empty queue returns the empty list and leaves the queue untouched", [] if ok else ["early exit returns something else"], "return tm_list", nontrivial=False)
    # in-bounds reads of the scan body under the negated short-header test
    it3 = new_interp(P); env3 = Env()
    env3.vars.update(concatenated_packets=buf, current_idx=idx)
    env3.add_fact(binop(">=", idx, C(0)))
    env3.add_fact(un("not", cond))
    it3.where.append(f.short)
    try:
        it3.block(defs, env3, f.module, f, [])
        D.check_xbuf(ck, it3, fn)
    except Unsupported as e:
        ck.unknown("X-BUF", fn, "id read", str(e))
    mask = it.module_const(f"spacepackets.{SP}", P.syms[f"spacepackets.{SP}"]["PACKET_ID_MASK"][1]) if "PACKET_ID_MASK" in P.syms.get(f"spacepackets.{SP}", {}) else None
    ck.verdict("K-CONST", SP, "PACKET_ID_MASK == 0x1FFF", [] if mask is not None and D.is_const(mask, 0x1FFF) else [show(mask) if mask is not None else "missing"], "0x1FFF")
