"""C14 - CDS short timestamps (CCSDS 301.0-B-4 3.3)."""
from __future__ import annotations

import datetime

from ..index import Program
from ..gti import new_interp, call_method, construct, read_path, Env, Unsupported
from ..terms import T, C, sym, show, binop, un, length, NONE, evaluate, EvalError, substitute, free_syms, subterms
from ..layout import F, K, A, B, CRC
from ..linear import Lin, linearize
from ..bits import data_bits_be, BitCtx
from .. import rules as R
from .. import decode_rules as D

CDS = "ccsds.time.cds"
COMMON = "ccsds.time.common"
MS = 86400000


def hoist(t):
    """lift gammas through arithmetic: (γ(c,a,b) + x) -> γ(c, a + x, b + x)"""
    from ..terms import gamma
    if t.k == "op" and t.a[0] in ("+", "-", "*"):
        a, b = hoist(t.a[1]), hoist(t.a[2])
        if a.k == "gamma":
            return gamma(a.a[0], hoist(binop(t.a[0], a.a[1], b)), hoist(binop(t.a[0], a.a[2], b)))
        if b.k == "gamma":
            return gamma(b.a[0], hoist(binop(t.a[0], a, b.a[1])), hoist(binop(t.a[0], a, b.a[2])))
        return binop(t.a[0], a, b)
    if t.k == "gamma":
        return gamma(t.a[0], hoist(t.a[1]), hoist(t.a[2]))
    return t


def resolve(t, branch):
    """specialise a term to a branch: γ(c, a, b) -> a / b when c / not c is among the branch conditions"""
    from ..terms import mapterm
    bs = set(branch)

    def f(x):
        if x.k == "gamma":
            if x.a[0] in bs:
                return x.a[1]
            if un("not", x.a[0]) in bs:
                return x.a[2]
        return x
    return mapterm(f, t)


def split_gamma(t, facts):
    """[(facts, leaf)] for a term whose top is a tree of gammas"""
    t = hoist(t)
    if t.k == "gamma":
        return split_gamma(t.a[1], facts + [t.a[0]]) + split_gamma(t.a[2], facts + [un("not", t.a[0])])
    return [(facts, t)]


def _is_unix_epoch(t):
    """aware datetime of 1970-01-01T00:00:00Z: fromtimestamp(0, utc) or datetime(1970, 1, 1, tzinfo=utc)"""
    if t.k != "call":
        return False
    name, args = t.a[0], t.a[1]
    vals = [a.a[0] if a.k == "const" else ("utc" if "timezone.utc" in show(a) else show(a)) for a in args]
    if name.endswith("datetime.fromtimestamp"):
        return vals[:1] == [0] and "utc" in vals
    if name.endswith("datetime.datetime") or name == "datetime":
        return vals[:3] == [1970, 1, 1] and "utc" in vals and all(v in (0, "utc") for v in vals[3:])
    return False


def find_delta(*terms):
    """the sub-term (X - <aware datetime 1970-01-01T00:00:00Z>) the stored values are computed from, if any"""
    for t in terms:
        for x in subterms(t):
            if x.k == "op" and x.a[0] == "-" and _is_unix_epoch(x.a[2]):
                return x
    return None


def _is_one_ms(t):
    """datetime.timedelta(milliseconds=1) (or microseconds=1000)"""
    if t.k != "call" or not t.a[0].endswith("timedelta"):
        return False
    kws = {a.a[0]: a.a[1] for a in t.a[1] if a.k == "kw"}
    pos = [a for a in t.a[1] if a.k != "kw"]
    if pos:
        return False
    return (set(kws) == {"milliseconds"} and D_const(kws["milliseconds"], 1)) or (set(kws) == {"microseconds"} and D_const(kws["microseconds"], 1000))


def _is_one_day(t):
    if t.k != "call" or not t.a[0].endswith("timedelta"):
        return False
    kws = {a.a[0]: a.a[1] for a in t.a[1] if a.k == "kw"}
    pos = [a for a in t.a[1] if a.k != "kw"]
    return (not kws and len(pos) == 1 and D_const(pos[0], 1)) or (not pos and set(kws) == {"days"} and D_const(kws["days"], 1))


def check_from_datetime_timedelta(ck, fn, dt, ld, lm, D):
    """integer path: delta = (the datetime, as an aware UTC instant) - Unix epoch.  Recognised forms (proved):
      fields:    days = delta.days + 4383, ms = delta.seconds * 1000 + delta.microseconds // 1000 (timedelta is normalised:
                 0 <= seconds < 86400, 0 <= us < 10^6, days floored - correct before 1970, exact for every microsecond value)
      total ms:  T = delta // timedelta(milliseconds=1) (an int, floored); days = T // 86400000 + 4383, ms = T % 86400000
    Any other form is evaluated on witness timedeltas: a differing one refutes, agreement leaves the obligation undecided."""
    import datetime as _dt
    # timedelta witnesses (days, seconds, microseconds since the Unix epoch): sub-millisecond parts on both sides of .5,
    # the last microsecond of a day, a whole millisecond, before 1970
    wit = ((18262, 43200, 1000), (18262, 43200, 1600), (18262, 86399, 999999), (-1675, 86399, 999700), (0, 0, 0), (22000, 1, 999499))

    def semantic(lin, want, what, shape_ok, detail):
        if shape_ok:
            ck.proved("I-INT", fn, what, detail)
            return
        try:
            from ..decode_rules import lin_term
            t = lin_term(lin)
            for d_, s_, us_ in wit:
                got = _feval(t, None, {"days": d_, "seconds": s_, "microseconds": us_}, delta=(D, _dt.timedelta(days=d_, seconds=s_, microseconds=us_)))
                if got != want(d_, s_, us_):
                    ck.refuted("I-INT", fn, what, f"for the datetime 1970-01-01T00:00:00Z + timedelta(days={d_}, seconds={s_}, microseconds={us_}) the stored value "
                               f"evaluates to {got}, reference {want(d_, s_, us_)} ({detail})", witness={"days": d_, "seconds": s_, "microseconds": us_})
                    return
        except Exception as e:  # noqa: BLE001
            ck.unknown("I-INT", fn, what, f"unrecognised form {detail}; not evaluable: {e}")
            return
        ck.unknown("I-INT", fn, what, f"unrecognised form {detail}; agrees with the reference on {len(wit)} witnesses but is not proven equal")

    MSD = 86400000
    td = [a for a in ld.co if a.k == "bound?" and a.a[0] == "days" and a.a[1] == D]
    tot = [a for a in ld.co if a.k == "op" and a.a[0] == "//" and D_const(a.a[2], MSD) and a.a[1].k == "op" and a.a[1].a[0] == "//" and a.a[1].a[1] == D and _is_one_ms(a.a[1].a[2])]
    # whole days by timedelta floor division: delta // timedelta(days=1); the rest: (delta % timedelta(days=1)) // timedelta(milliseconds=1)
    dq = [a for a in ld.co if a.k == "op" and a.a[0] == "//" and a.a[1] == D and _is_one_day(a.a[2])]
    shape = (len(ld.co) == 1 and ld.c == 4383) and ((len(td) == 1 and ld.co[td[0]] == 1) or (len(tot) == 1 and ld.co[tot[0]] == 1) or (len(dq) == 1 and ld.co[dq[0]] == 1))
    semantic(ld, lambda d_, s_, us_: d_ + 4383, "day count == (datetime - Unix epoch) in whole days (floored: correct before 1970) + 4383", shape, f"{ld!r}")
    secs = [a for a in lm.co if a.k == "bound?" and a.a[0] == "seconds" and a.a[1] == D]
    sub = [a for a in lm.co if a.k == "op" and a.a[0] == "//" and a.a[1].k == "bound?" and a.a[1].a[0] == "microseconds" and a.a[1].a[1] == D and D_const(a.a[2], 1000)]
    shape = len(lm.co) == 2 and len(secs) == 1 and len(sub) == 1 and lm.co[secs[0]] == 1000 and lm.co[sub[0]] == 1 and lm.c == 0
    if not shape and tot:
        rem = [a for a in lm.co if a.k == "op" and a.a[0] == "%" and D_const(a.a[2], MSD) and a.a[1] == tot[0].a[1]]
        shape = len(lm.co) == 1 and len(rem) == 1 and lm.co[rem[0]] == 1 and lm.c == 0
    if not shape and dq:
        rem = [a for a in lm.co if a.k == "op" and a.a[0] == "//" and _is_one_ms(a.a[2]) and a.a[1].k == "op" and a.a[1].a[0] == "%" and a.a[1].a[1] == D and _is_one_day(a.a[1].a[2])]
        shape = len(lm.co) == 1 and len(rem) == 1 and lm.co[rem[0]] == 1 and lm.c == 0
    semantic(lm, lambda d_, s_, us_: s_ * 1000 + us_ // 1000,
             "ms of day == whole milliseconds of (datetime - Unix epoch) below one day (integer arithmetic: exact for every whole-millisecond datetime)", shape, f"{lm!r}")
    others = {x for l in (ld, lm) for y in l.co for x in subterms(y) if x.k == "op" and x.a[0] == "-" and _is_unix_epoch(x.a[2])}
    ck.verdict("I-INT", fn, "day count and millisecond are taken of one timedelta value", [] if others == {D} else [f"{len(others)} different timedelta terms"], show(D)[:80])
    probs = []
    left, right = D.a[1], D.a[2]
    inst = left
    if inst.k == "call" and inst.a[0] == ".astimezone" and len(inst.a[1]) >= 1:
        inst = inst.a[1][0]      # conversion to another zone keeps the instant
    if inst != dt:
        if left.k == "call" and left.a[0] == ".replace" and left.a[1] and left.a[1][0] == dt:
            probs.append(f"minuend is {show(left)[:80]}: replace() relabels the zone, so an aware datetime with a non-zero UTC offset becomes another instant; "
                         "reference the datetime passed in (or its astimezone() conversion)")
        else:
            ck.unknown("K-CONST", fn, "the timedelta is (datetime passed in) - 1970-01-01T00:00:00Z", f"unrecognised minuend {show(left)[:100]}")
            return
    ck.verdict("K-CONST", fn, "the timedelta is (datetime passed in) - 1970-01-01T00:00:00Z", probs, show(D)[:100])


def D_const(t, v):
    return t.k == "const" and t.a[0] == v


def _feval(t, u, td=None, delta=None):
    """evaluate an arithmetic expression of the interpreter over the Unix timestamp u (calls: floor/ceil/round/int,
    .timestamp()) and, when given, the timedelta fields td = {'days':..,'seconds':..,'microseconds':..}; delta =
    (term, datetime.timedelta) gives the value of the (datetime - epoch) term for timedelta arithmetic"""
    import math as _m
    import datetime as _dt
    if delta is not None and t == delta[0]:
        return delta[1]
    if t.k == "const":
        return t.a[0]
    if t.k == "bound?" and delta is not None and t.a[0] in ("days", "seconds", "microseconds"):
        return getattr(_feval(t.a[1], u, td, delta), t.a[0])
    if t.k == "bound?" and td is not None and t.a[0] in td:
        return td[t.a[0]]
    if t.k == "call":
        name = t.a[0].split(".")[-1]
        if name == "timestamp":
            return u
        if name == "timedelta":
            pos = [_feval(a, u, td, delta) for a in t.a[1] if a.k != "kw"]
            kws = {a.a[0]: _feval(a.a[1], u, td, delta) for a in t.a[1] if a.k == "kw"}
            return _dt.timedelta(*pos, **kws)
        if name == "total_seconds" and len(t.a[1]) == 1:
            return _feval(t.a[1][0], u, td, delta).total_seconds()
        args = [_feval(a, u, td, delta) for a in t.a[1]]
        if name in ("floor", "ceil", "trunc"):
            return getattr(_m, name)(*args)
        if name == "round":
            return round(*args)
        if name in ("int", "float"):
            return {"int": int, "float": float}[name](*args)
        raise ValueError(f"call {t.a[0]}")
    if t.k == "un":
        x = _feval(t.a[1], u, td, delta)
        return {"int": int, "-": lambda v: -v, "abs": abs, "float": float}[t.a[0]](x)
    if t.k == "op":
        import operator as _o
        f = {"+": _o.add, "-": _o.sub, "*": _o.mul, "/": _o.truediv, "//": _o.floordiv, "%": _o.mod}[t.a[0]]
        return f(_feval(t.a[1], u, td, delta), _feval(t.a[2], u, td, delta))
    raise ValueError(f"term {t.k}")


def _teval(t, env):
    """evaluate a term of the timestamp class over concrete field values with the real datetime module (witness
    evaluation: used to refute, never to prove)"""
    import datetime as _dt
    import math as _m
    import operator as _o
    k = t.k
    if k == "const":
        return t.a[0]
    if k == "sym":
        return env[t.a[0]]
    if k == "obj":
        return env[t]
    if k == "builtin":
        if t.a[0].endswith("timezone.utc"):
            return _dt.timezone.utc
        raise ValueError(f"builtin {t.a[0]}")
    if k == "gamma":
        return _teval(t.a[1], env) if _teval(t.a[0], env) else _teval(t.a[2], env)
    if k == "kw":
        raise ValueError("keyword outside a call")
    if k == "un":
        x = _teval(t.a[1], env)
        return {"int": int, "-": lambda v: -v, "abs": abs, "float": float, "not": lambda v: not v, "bool": bool}[t.a[0]](x)
    if k == "op":
        o = t.a[0]
        if o == "and":
            return _teval(t.a[1], env) and _teval(t.a[2], env)
        if o == "or":
            return _teval(t.a[1], env) or _teval(t.a[2], env)
        f = {"+": _o.add, "-": _o.sub, "*": _o.mul, "/": _o.truediv, "//": _o.floordiv, "%": _o.mod, "<": _o.lt, "<=": _o.le,
             ">": _o.gt, ">=": _o.ge, "==": _o.eq, "!=": _o.ne, "**": _o.pow}[o]
        return f(_teval(t.a[1], env), _teval(t.a[2], env))
    if k == "bound?":
        return getattr(_teval(t.a[1], env), t.a[0])
    if k == "call":
        name = t.a[0]
        short = name.split(".")[-1]
        pos = [_teval(a, env) for a in t.a[1] if a.k != "kw"]
        kws = {a.a[0]: _teval(a.a[1], env) for a in t.a[1] if a.k == "kw"}
        if name.startswith("."):
            return getattr(pos[0], short)(*pos[1:], **kws)
        if short == "timedelta":
            return _dt.timedelta(*pos, **kws)
        if short == "fromtimestamp":
            return _dt.datetime.fromtimestamp(*pos, **kws)
        if short == "utcfromtimestamp":
            return _dt.datetime.utcfromtimestamp(*pos, **kws)
        if short == "datetime":
            return _dt.datetime(*pos, **kws)
        if short in ("floor", "ceil", "trunc"):
            return getattr(_m, short)(*pos)
        if short == "round":
            return round(*pos)
        if short in ("int", "float"):
            return {"int": int, "float": float}[short](*pos)
        raise ValueError(f"call {name}")
    raise ValueError(f"term {k}")


def check_add_by_witness(ck, fn, new_ms, new_days, td_obj, env):
    """__add__ written with arithmetic on the timedelta object itself (delta % timedelta(days=1) // timedelta(milliseconds=1),
    ...): the stored fields are evaluated on witness (timestamp, delta) pairs with the real datetime module against integer
    arithmetic on total milliseconds.  A differing witness refutes; agreement leaves the obligation undecided."""
    import datetime as _dt
    what = "stored (day count, ms of day) == integer arithmetic on total milliseconds, normalised to ms < 86400000 (witness evaluation)"
    MSD = 86400000
    wit = [(0, 0, (0, 0, 0)), (100, 86399999, (0, 0, 1000)), (100, 86399000, (0, 0, 999999)), (100, 43200000, (2, 43200, 0)), (4383, 1, (1, 86399, 999000)),
           (20000, 86399999, (3, 86399, 999999)), (10, 500, (0, 59, 500)), (65000, 0, (100, 1, 1500))]
    try:
        for d0, m0, (dd, ss, us) in wit:
            tdv = _dt.timedelta(days=dd, seconds=ss, microseconds=us)
            venv = {"ccsds_days": d0, "ms_of_day": m0, "td_days": dd, "td_seconds": ss, "td_microseconds": us, td_obj: tdv}
            feas = True
            for f_ in env.facts:
                try:
                    if _teval(f_, venv) is False:
                        feas = False
                        break
                except Exception:  # noqa: BLE001
                    continue
            if not feas:
                continue            # this witness leaves through OverflowError / TypeError
            got = (_teval(new_days, venv), _teval(new_ms, venv))
            tot = m0 + ss * 1000 + us // 1000
            want = (d0 + dd + tot // MSD, tot % MSD)
            if got != want:
                ck.refuted("I-INT", fn, what, f"for (days {d0}, ms {m0}) + timedelta(days={dd}, seconds={ss}, microseconds={us}) the stored fields are {got}, reference {want}",
                           witness={"ccsds_days": d0, "ms_of_day": m0, "delta": [dd, ss, us]})
                return
    except Exception as e:  # noqa: BLE001
        ck.unknown("I-INT", fn, what, f"not evaluable: {e}")
        return
    ck.unknown("I-INT", fn, what, f"timedelta arithmetic on the delta object is not decided symbolically; it agrees with the reference on {len(wit)} witnesses but is not proven equal")


def check_datetime_view(ck, fn, dt_term):
    """the UTC-datetime view == 1958-01-01T00:00:00Z + days + milliseconds, on witness field values on both sides of the
    Unix epoch (the view is computed through float seconds: 1 microsecond of rounding is tolerated, never a millisecond)"""
    import datetime as _dt
    what = "UTC-datetime view == 1958-01-01T00:00:00Z + days + milliseconds (also before 1970)"
    ref0 = _dt.datetime(1958, 1, 1, tzinfo=_dt.timezone.utc)
    wit = ((0, 0), (0, 1), (0, 999), (0, 1001), (100, 1500), (4382, 86399999), (4382, 500), (4382, 86399001), (4383, 0), (4383, 1), (4383, 999),
           (20000, 43200123), (30000, 86399999), (65535, 86399999))
    try:
        for d_, m_ in wit:
            got = _teval(dt_term, {"ccsds_days": d_, "ms_of_day": m_})
            want = ref0 + _dt.timedelta(days=d_, milliseconds=m_)
            if not isinstance(got, _dt.datetime):
                ck.unknown("I-INT", fn, what, f"the view evaluates to a {type(got).__name__}")
                return
            if got.tzinfo is None:
                got = got.replace(tzinfo=_dt.timezone.utc)
            if abs(got - want) > _dt.timedelta(microseconds=1):
                ck.refuted("I-INT", fn, what, f"for day count {d_} and millisecond {m_} the view is {got.isoformat()}, reference {want.isoformat()} ({show(dt_term)[:120]})",
                           witness={"ccsds_days": d_, "ms_of_day": m_})
                return
    except Exception as e:  # noqa: BLE001
        ck.unknown("I-INT", fn, what, f"view term not evaluable: {e}: {show(dt_term)[:100]}")
        return
    ck.assume("I-INT", fn, what, f"float arithmetic is not decided in general; {len(wit)} witness field values on both sides of 1970 evaluate correctly")


# whole-millisecond instants whose fraction is not a binary fraction, one just below a second boundary with a
# sub-millisecond part, and one before 1970: (unix seconds as the float datetime.timestamp() returns, exact microsecond)
_FLOAT_WITNESSES = ((1577880000.001, 1000), (1577880000.998, 998000), (1577880000.9996, 999600), (-86400.75 + 0.0, 250000), (1577880000.5, 500000))


def check_from_datetime_float(ck, fn, ld, lm, mterm):
    """float path (through datetime.timestamp()): floor division convention as before, and the sub-second part is
    evaluated on witness timestamps - a truncated or rounded float product is not the millisecond of the datetime"""
    import math as _m0
    from ..decode_rules import lin_term

    def by_witness(lin, want, what, problem):
        """an unrecognised form is not a violation by itself: it is evaluated on the witness timestamps; a differing one
        refutes (with that timestamp), agreement leaves the obligation undecided"""
        try:
            t = lin_term(lin)
            for u, usec in _FLOAT_WITNESSES + ((-1.0, 0), (86399.0, 0), (-86401.0, 0)):
                got = _feval(t, u)
                if got != want(u, usec):
                    ck.refuted("I-INT", fn, what, f"{problem}; for the datetime with timestamp() == {u!r} it evaluates to {got}, reference {want(u, usec)}", witness={"unix_seconds": u})
                    return
        except Exception as e:  # noqa: BLE001
            ck.unknown("I-INT", fn, what, f"{problem}; not evaluable: {e}")
            return
        ck.unknown("I-INT", fn, what, f"{problem}; it agrees with the reference on the witness timestamps but is not proven equal")

    qd = [a for a in ld.co if a.k == "op" and a.a[0] == "//"]
    full = None
    what = "day count == (floored unix seconds) // 86400 + 4383 (floor division, correct before 1970)"
    if len(ld.co) != 1 or len(qd) != 1 or ld.co[qd[0]] != 1 or not D_const(qd[0].a[2], 86400) or ld.c != 4383:
        by_witness(ld, lambda u, us: int(_m0.floor(u)) // 86400 + 4383, what, f"day count is {ld!r}; reference floor(unix_seconds) // 86400 + 4383")
    else:
        full = qd[0].a[1]
        ck.proved("I-INT", fn, what, f"{ld!r}")
    probs = []
    rem = [a for a in lm.co if a.k == "op" and a.a[0] == "%"]
    what = "ms of day == ((floored unix seconds) % 86400)*1000 + sub-second part, same dividend as the day count"
    if len(rem) != 1 or lm.co[rem[0]] != 1000 or not D_const(rem[0].a[2], 86400) or lm.c != 0:
        by_witness(lm, lambda u, us: (int(_m0.floor(u)) % 86400) * 1000 + us // 1000, what, f"millisecond of day is {lm!r}; reference ((floored unix seconds) % 86400) * 1000 + sub-second ms")
        rem = []
    elif full is not None and rem[0].a[1] != full:
        by_witness(lm, lambda u, us: (int(_m0.floor(u)) % 86400) * 1000 + us // 1000, what, f"quotient and remainder are taken of different values: {show(full)[:50]} vs {show(rem[0].a[1])[:50]}")
        rem = []
    else:
        ck.proved("I-INT", fn, what, f"{lm!r}")
    if full is not None:
        ok = (full.k == "un" and full.a[0] == "int" and full.a[1].k == "call" and full.a[1].a[0].split(".")[-1] == "floor") or (full.k == "call" and full.a[0].split(".")[-1] == "floor")
        ck.verdict("I-INT", fn, "the dividend is int(math.floor(unix seconds))", [] if ok else [show(full)[:60]], show(full)[:50])
    if len(rem) == 1 and not probs:
        what = "the sub-second part is the millisecond of the datetime (exact for whole-millisecond datetimes)"
        import math as _m
        bad = []
        try:
            for u, usec in _FLOAT_WITNESSES:
                got = _feval(mterm, u)
                want = (int(_m.floor(u)) % 86400) * 1000 + usec // 1000
                if got != want:
                    bad.append((u, want, got))
        except Exception as e:  # noqa: BLE001
            ck.unknown("I-INT", fn, what, f"millisecond term not evaluable: {e}")
            return
        if bad:
            u, want, got = bad[0]
            ck.refuted("I-INT", fn, what, f"for the datetime with timestamp() == {u!r} the millisecond of day evaluates to {got}, the datetime's is {want} "
                       f"(a binary float product is truncated or rounded: {show(mterm)[:100]})", witness={"unix_seconds": u})
        else:
            ck.assume("I-INT", fn, what, "float arithmetic is not decided in general; the witness timestamps evaluate correctly")


def run(ck):
    P = Program(ck.repo)
    ck.explanation = (
        "Static check of CdsShortTimestamp against CCSDS 301.0-B-4 3.3. Wire format: pack() per bit against P-field 0x40, 16-bit "
        "day, 32-bit millisecond; the three decoders per bit; the accepted P-fields by finite case analysis of the guard facts over "
        "all 256 octets (exactly time code CDS, 16-bit day segment); short input refused. Calendar arithmetic on extracted terms: "
        "the epoch constants are compared with date(1970,1,1)-date(1958,1,1) computed by the checker; unix seconds must be the "
        "linear form 86400*(days-4383) + ms/1000 on every branch; from_datetime must take quotient and remainder of the same "
        "floored integer with floor division and modulo; __add__ is split on its gated result and each branch is decided by "
        "linear entailment: the stored millisecond count is in [0, 86399999], the day carry is exactly one, overflow above 65535 "
        "raises OverflowError.")
    for r, t in (("W-PACK", "pack layout"), ("W-UNPACK", "decoded day / ms bits"), ("G-REFUSE", "wrong P-field / short input refused with ValueError"),
                 ("K-CONST", "epoch constants"), ("I-INT", "integer kernels: carry, unix seconds, div/mod convention"), ("E-ESC", "documented exceptions"), ("X-BUF", "reads in bounds")):
        ck.rule(r, t)
    ck.trusted += ["datetime/timedelta arithmetic of the standard library", "IEEE-754 double arithmetic (exactness of from_datetime below one millisecond is not decided)"]
    ck.assumptions += ["day count in [0,65535] and millisecond of day in [0,86399999] on entry to __add__", "timedelta components are normalised (0 <= microseconds < 10^6, 0 <= seconds < 86400), as datetime guarantees"]
    tsq = P.cls(f"{CDS}.CdsShortTimestamp").qual
    days, ms = sym("ccsds_days", ty="int"), sym("ms_of_day", ty="int")

    # ---------------------------------------------------------------- pack
    it = new_interp(P); env = Env()
    ts = R.run_guarded(ck, "W-PACK", "CdsShortTimestamp.__init__", "construct", lambda: construct(it, env, f"{CDS}.CdsShortTimestamp", dict(ccsds_days=days, ms_of_day=ms)))
    if ts is not None:
        p = call_method(it, env, ts, "pack")
        R.check_pack_layout(ck, it, env, p, [K(8, 0x40), F("ccsds_days", 16), F("ms_of_day", 32)], "CdsShortTimestamp.pack", "7 octets == P-field 0x40 | 16-bit day | 32-bit ms",
                            extra_widths={"ccsds_days": 16, "ms_of_day": 32})
        for g, want in (("ccsds_days", days), ("ms_of_day", ms), ("len_packed", C(7))):
            v = read_path(it, env, ts, g)
            ck.verdict("W-VAL", f"CdsShortTimestamp.{g}", f"{g} view", [] if v == want else [show(v)[:50]], show(v)[:30], nontrivial=False)
        pf = read_path(it, env, ts, "pfield")
        R.check_pack_layout(ck, it, env, pf, [K(8, 0x40)], "CdsShortTimestamp.pfield", "P-field == 0x40", rule="K-CONST")
        # unix seconds: linear form
        us = read_path(it, env, ts, "_unix_seconds")
        lin = linearize(us)
        probs = []
        frac = [a for a in lin.co if a.k == "op" and a.a[0] == "/"]
        if lin.co.get(days) != 86400:
            probs.append(f"coefficient of the day count is {lin.co.get(days)}, reference 86400")
        if lin.c != -4383 * 86400:
            probs.append(f"constant part {lin.c}, reference {-4383 * 86400}")
        if len(frac) != 1 or lin.co[frac[0]] != 1 or frac[0].a[1] != ms or not (frac[0].a[2].k == "const" and frac[0].a[2].a[0] in (1000, 1000.0)):
            probs.append(f"millisecond contribution is {[show(a) for a in lin.co if a != days]}, reference ms_of_day / 1000")
        if len(lin.co) != 2:
            probs.append(f"extra terms {[show(a) for a in lin.co]}")
        if us.k == "gamma":
            probs.append("unix seconds depend on a branch (must be one linear form for all dates, also before 1970)")
        ck.verdict("I-INT", "CdsShortTimestamp._calculate_unix_seconds", "unix seconds == 86400*(days-4383) + ms/1000 on every path", probs, f"{lin!r}")
        r = call_method(it, env, ts, "as_unix_seconds")
        ck.verdict("W-VAL", "CdsShortTimestamp.as_unix_seconds", "returns the stored unix seconds", [] if r == us else [show(r)[:60]], "identity", nontrivial=False)
        # datetime view
        try:
            dtv = call_method(it, env, ts, "as_datetime") if "as_datetime" in P.cls(f"{CDS}.CdsShortTimestamp").methods else call_method(it, env, ts, "as_date_time")
            check_datetime_view(ck, "CdsShortTimestamp.as_datetime", dtv)
        except Unsupported as e:
            ck.unknown("I-INT", "CdsShortTimestamp.as_datetime", "datetime view analysed", str(e))
    # ---------------------------------------------------------------- constants
    it = new_interp(P)
    want_days = -(datetime.date(1970, 1, 1) - datetime.date(1958, 1, 1)).days
    for name, want in (("DAYS_CCSDS_TO_UNIX", want_days), ("SECONDS_PER_DAY", 86400), ("MS_PER_DAY", MS)):
        ent = P.syms.get(f"spacepackets.{COMMON}", {}).get(name)
        v = it.module_const(f"spacepackets.{COMMON}", ent[1]) if ent and ent[0] == "const" else None
        ck.verdict("K-CONST", f"{COMMON}.{name}", f"{name} == {want}", [] if v is not None and v.k == "const" and v.a[0] == want else [f"is {show(v) if v is not None else 'missing'}"], str(want))
    for fname, sign in (("convert_ccsds_days_to_unix_days", 1), ("convert_unix_days_to_ccsds_days", -1)):
        x = sym("x", ty="int")
        it = new_interp(P); env = Env()
        r = R.run_guarded(ck, "I-INT", fname, "call", lambda: it.call_func(P.func(f"{COMMON}.{fname}"), [x], {}, env))
        if r is not None:
            R.check_lin_equal(ck, r, Lin({x: 1}, sign * want_days), fname, f"{fname}(x) == x {'+' if sign * want_days >= 0 else '-'} {abs(want_days)}", rule="I-INT")
    # ---------------------------------------------------------------- decoders
    data = sym("data", ty="bytes")
    for how in ("unpack", "unpack_from_raw", "read_from_raw"):
        it = new_interp(P); env = Env()

        def dec():
            if how == "unpack":
                o = call_method(it, env, T("class", tsq), "unpack", [data])
                return read_path(it, env, o, "ccsds_days"), read_path(it, env, o, "ms_of_day"), o
            if how == "unpack_from_raw":
                r = call_method(it, env, T("class", tsq), "unpack_from_raw", [data])
                return r.a[0][0], r.a[0][1], r
            o = construct(it, env, f"{CDS}.CdsShortTimestamp", dict(ccsds_days=C(0), ms_of_day=C(0)))
            call_method(it, env, o, "read_from_raw", [data])
            return read_path(it, env, o, "ccsds_days"), read_path(it, env, o, "ms_of_day"), o
        r = R.run_guarded(ck, "W-UNPACK", f"CdsShortTimestamp.{how}", "decode", dec)
        if r is None:
            continue
        fn = f"CdsShortTimestamp.{how}"
        R.check_field_bits(ck, it, r[0], data_bits_be("data", 8, 16), fn, "decoded day count == octets 1..2")
        R.check_field_bits(ck, it, r[1], data_bits_be("data", 24, 32), fn, "decoded millisecond of day == octets 3..6")
        st, m = D.prove(env.facts, binop(">=", length(data), C(7)))
        ck.verdict3("G-REFUSE", fn, "input shorter than 7 octets is refused", st, m, "len(data) >= 7 on return")
        # accepted P-fields: finite case analysis over the 256 octet values
        bad = []
        for pv in range(256):
            buf = bytes([pv, 0, 0, 0, 0, 0, 0])
            acc = True
            for f in env.facts:
                if "data" not in free_syms(f):
                    continue
                try:
                    if not evaluate(f, {"data": buf}):
                        acc = False
                        break
                except EvalError:
                    continue
            want = ((pv >> 4) & 7) == 4 and ((pv >> 2) & 1) == 0
            if acc != want:
                bad.append((pv, acc))
        ck.verdict("G-REFUSE", fn, "accepted P-fields are exactly: time code CDS (bits 6..4 = 100) with a 16-bit day segment (bit 2 = 0)",
                   [f"P-field {b[0]:#04x} is {'accepted' if b[1] else 'refused'}" for b in bad[:4]], "256 octet values against the guard facts")
        D.check_xbuf(ck, it, fn); D.check_xdecl(ck, it, fn, "data", C(7)); D.check_escape(ck, it, fn)
        D.check_short_refusals_justified(ck, it, fn, "data", C(7), "the 7 octets of a CDS short timestamp")
        if how != "unpack_from_raw":
            D.check_independent(ck, it, env, r[2], "data", fn)
    it = new_interp(P); env = Env()
    pf = sym("pfield", ty="int")
    r = R.run_guarded(ck, "W-VAL", "len_of_day_seg_from_pfield", "call", lambda: it.call_func(P.func(f"{CDS}.len_of_day_seg_from_pfield"), [pf], {}, env))
    if r is not None:
        R.check_field_bits(ck, it, r, [("f", "pfield", 2)], "len_of_day_seg_from_pfield", "length-of-day-segment flag == bit 2 of the P-field", rule="W-VAL",
                           ctx=BitCtx(widths={"pfield": 8}, enum_width=R.enum_width_fn(it)))
    # ---------------------------------------------------------------- __add__
    it = new_interp(P); env = Env()
    ts = construct(it, env, f"{CDS}.CdsShortTimestamp", dict(ccsds_days=days, ms_of_day=ms))
    td = it.new_object("<timedelta>")
    usec, secs, ddays = sym("td_microseconds", ty="int"), sym("td_seconds", ty="int"), sym("td_days", ty="int")
    env.heap[(td.a[0], "microseconds")] = usec
    env.heap[(td.a[0], "seconds")] = secs
    env.heap[(td.a[0], "days")] = ddays
    n0 = len(it.raises)
    res = R.run_guarded(ck, "I-INT", "CdsShortTimestamp.__add__", "call", lambda: call_method(it, env, ts, "__add__", [td]))
    if res is not None:
        fn = "CdsShortTimestamp.__add__"
        new_ms = read_path(it, env, ts, "ms_of_day")
        new_days = read_path(it, env, ts, "ccsds_days")
        qus = binop("//", usec, C(1000))
        dom = [binop(">=", ms, C(0)), binop("<=", ms, C(MS - 1)), binop(">=", days, C(0)), binop("<=", days, C(65535)),
               binop(">=", qus, C(0)), binop("<=", qus, C(999)), binop(">=", secs, C(0)), binop("<=", secs, C(86399)), binop(">=", ddays, C(0))]
        total = binop("+", ms, binop("+", qus, binop("*", secs, C(1000))))
        opaque_add = False
        ck.verdict("W-VAL", fn, "returns the updated timestamp", [] if res == ts else [show(res)[:40]], "self", nontrivial=False)
        # millisecond of day normalised, and equal to total mod MS
        for facts, leaf in split_gamma(new_ms, []):
            if not D.feasible(dom + facts):
                continue
            cond = " and ".join(show(f)[:50] for f in facts) or "always"
            for goal, what in ((binop("and", binop(">=", leaf, C(0)), binop("<=", leaf, C(MS - 1))), "stored ms_of_day lies in [0, 86399999]"),):
                st, m = D.prove(dom + facts, goal)
                if st == "proved":
                    ck.proved("I-INT", fn, f"{what} (branch {cond})", f"{show(leaf)[:80]}")
                elif st == "refutable":
                    ck.refuted("I-INT", fn, f"{what} (branch {cond})", f"{show(leaf)[:80]} with {m}", witness=m)
                else:
                    ck.unknown("I-INT", fn, f"{what} (branch {cond})", str(m))
            d = linearize(leaf) - linearize(total)
            ok = d.is_const() and d.c in (0, -MS)
            if not ok and not d.is_const() and any(x.k == "obj" for a_ in d.co for x in subterms(a_)):
                opaque_add = True       # arithmetic on the timedelta object itself: decided on witnesses below
                continue
            ck.verdict("I-INT", fn, f"stored ms_of_day == (ms + delta) or (ms + delta) - 86400000 (branch {cond})", [] if ok else [f"differs from the total by {d!r}"], f"offset {d.c if d.is_const() else d!r}")
        for facts, leaf in split_gamma(new_days, []):
            if not D.feasible(dom + facts + [resolve(f, facts) for f in env.facts]):
                continue
            cond = " and ".join(show(f)[:50] for f in facts) or "always"
            d = linearize(leaf) - linearize(binop("+", days, ddays))
            ok = d.is_const() and d.c in (0, 1)
            if not ok and not d.is_const() and any(x.k == "obj" for a_ in d.co for x in subterms(a_)):
                opaque_add = True
                continue
            ck.verdict("I-INT", fn, f"stored day count == days + delta.days + carry, carry in {{0,1}} (branch {cond})", [] if ok else [f"differs by {d!r}"], f"carry {d.c if d.is_const() else '?'}")
            if ok:
                # carry is taken exactly when the total reaches one day
                carry_goal = binop(">=", total, C(MS)) if d.c == 1 else binop("<", total, C(MS))
                st, m = D.prove(dom + facts, carry_goal)
                if st == "proved":
                    ck.proved("I-INT", fn, f"carry {d.c} exactly when the millisecond total {'reaches' if d.c else 'stays below'} 86400000 (branch {cond})", show(carry_goal)[:80])
                elif st == "refutable":
                    ck.refuted("I-INT", fn, f"carry {d.c} exactly when the millisecond total {'reaches' if d.c else 'stays below'} 86400000 (branch {cond})", f"{m}", witness=m)
                else:
                    ck.unknown("I-INT", fn, f"carry decision (branch {cond})", str(m))
            st, m = D.prove(dom + facts + [resolve(f, facts) for f in env.facts], binop("<=", leaf, C(65535)))
            if st == "proved":
                ck.proved("I-INT", fn, f"a stored day count never exceeds 65535 (branch {cond})", "overflow guard")
            elif st == "refutable":
                ck.refuted("I-INT", fn, f"a stored day count never exceeds 65535 (branch {cond})", f"{m}", witness=m)
            else:
                ck.unknown("I-INT", fn, f"a stored day count never exceeds 65535 (branch {cond})", str(m))
        if opaque_add:
            check_add_by_witness(ck, fn, new_ms, new_days, td, env)
        ovf = [x for x in it.raises[n0:] if x["kind"] == "explicit" and not x["caught"] and x["exc"] == "OverflowError"]
        ck.verdict("G-REFUSE", fn, "day overflow raises OverflowError", [] if ovf else ["no OverflowError raise"], f"{len(ovf)} raise sites")
        others = [x for x in it.raises[n0:] if x["kind"] == "explicit" and not x["caught"] and x["exc"] not in ("OverflowError", "TypeError")]
        ck.verdict("E-ESC", fn, "only OverflowError / TypeError are raised", [f"{x['exc']} at {x['text'][:40]}" for x in others], "raise log")
    # ---------------------------------------------------------------- from_datetime
    it = new_interp(P); env = Env()
    dt = it.new_object("<datetime>")
    r = R.run_guarded(ck, "I-INT", "CdsShortTimestamp.from_datetime", "call", lambda: call_method(it, env, T("class", tsq), "from_datetime", [dt]))
    if r is not None:
        fn = "CdsShortTimestamp.from_datetime"
        dterm, mterm = read_path(it, env, r, "ccsds_days"), read_path(it, env, r, "ms_of_day")
        ld, lm = linearize(dterm), linearize(mterm)
        delta = find_delta(dterm, mterm)
        if delta is not None:
            check_from_datetime_timedelta(ck, fn, dt, ld, lm, delta)
        else:
            check_from_datetime_float(ck, fn, ld, lm, mterm)
    ck.floor("C14 obligations", len(ck.obs), 40)
