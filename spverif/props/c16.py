"""C16 - the PUS verification tracker follows its state machine for every report history."""
from __future__ import annotations

import ast
import itertools

from ..index import Program
from ..gti import new_interp, call_method, construct, read_path, Env, Unsupported
from ..terms import T, C, sym, show, binop, un, NONE, evaluate, EvalError, free_syms
from .. import rules as R
from .. import decode_rules as D

PV = "ecss.pus_verificator"
V1 = "ecss.pus_1_verification"
UNSET, FAILURE, SUCCESS = -1, 0, 1
FIELDS = ("all_verifs_recvd", "accepted", "started", "step", "completed")


def reference(sub, old):
    """documented state machine: (new status dict, step appended?, result.completed)"""
    A, S, P_, Cc, Rr = old["accepted"], old["started"], old["step"], old["completed"], old["all_verifs_recvd"]
    new = dict(old)
    known = lambda x: x != UNSET
    app = False
    if sub == 1:
        new["accepted"] = SUCCESS
    elif sub == 2:
        new["accepted"] = FAILURE; new["all_verifs_recvd"] = True
    elif sub == 3:
        new["started"] = SUCCESS
    elif sub == 4:
        new["started"] = FAILURE; new["all_verifs_recvd"] = Rr or known(A)
    elif sub == 5:
        new["step"] = SUCCESS if P_ == UNSET else P_; app = True
    elif sub == 6:
        new["step"] = FAILURE; app = True; new["all_verifs_recvd"] = Rr or (known(A) and known(S))
    elif sub == 7:
        new["completed"] = SUCCESS; new["all_verifs_recvd"] = Rr or (known(A) and known(S))
    elif sub == 8:
        new["completed"] = FAILURE; new["all_verifs_recvd"] = Rr or (known(A) and known(S))
    return new, app, sub in (2, 4, 6, 7, 8)


def select(t, env):
    """walk gammas by evaluating their conditions; returns the selected leaf"""
    while t.k == "gamma":
        t = t.a[1] if evaluate(t.a[0], env) else t.a[2]
    return t


def removal_loop_form(ck, P, f, vsq):
    """remove_completed_entries written as a loop that copies the kept entries into a new dictionary"""
    what = "keeps exactly the entries whose status is not marked 'all verifications received'"
    fn = "PusVerificator.remove_completed_entries"
    loops = [n_ for n_ in f.node.body if isinstance(n_, ast.For)]
    if len(loops) != 1 or ast.unparse(loops[0].iter) != "self._verif_dict.items()" or not isinstance(loops[0].target, ast.Tuple) or len(loops[0].target.elts) != 2:
        ck.unknown("D-TABLE", fn, what, "neither a dictionary comprehension nor a single loop over self._verif_dict.items()")
        return
    lp = loops[0]
    kname, vname = lp.target.elts[0].id, lp.target.elts[1].id
    # the body is interpreted once for a symbolic entry: under which condition is new[k] = v reached?
    it = new_interp(P); env = Env()
    v = it.new_object(vsq, symbolic=True, root="val", path="val")
    env.vars[vname] = v
    env.vars[kname] = sym("key")
    stores = [n_ for n_ in ast.walk(lp) if isinstance(n_, ast.Assign) and isinstance(n_.targets[0], ast.Subscript)
              and ast.unparse(n_.targets[0].slice) == kname and ast.unparse(n_.value) == vname]
    if len(stores) != 1:
        ck.unknown("D-TABLE", fn, what, f"{len(stores)} statements of the form new[{kname}] = {vname} in the loop")
        return
    newname = ast.unparse(stores[0].targets[0].value)
    # path condition of the copy statement: walk the (structured) body
    def cond_of(stmts, pc):
        for st in stmts:
            if st is stores[0]:
                return pc
            if isinstance(st, ast.If):
                c = it.ev(st.test, env.clone(), f.module, f)
                r = cond_of(st.body, pc + [c])
                if r is not None:
                    return r
                r = cond_of(st.orelse, pc + [un("not", c)])
                if r is not None:
                    return r
                # an if whose body ends in continue guards the rest of the iteration
                if st.body and isinstance(st.body[-1], ast.Continue) and not st.orelse:
                    pc = pc + [un("not", c)]
                elif st.orelse and isinstance(st.orelse[-1], ast.Continue):
                    pc = pc + [c]
        return None
    pc = cond_of(lp.body, [])
    want = un("not", read_path(it, env, v, "all_verifs_recvd"))
    probs = []
    if pc is None:
        ck.unknown("D-TABLE", fn, what, "the copy statement is not on a recognised path of the loop body")
        return
    from ..terms import truthy as _tr
    got = [_tr(c) for c in pc]
    if len(got) != 1 or got[0] != _tr(want):
        probs.append(f"an entry is kept under {[show(c)[:50] for c in got]}; reference: not all_verifs_recvd")
    src = ast.unparse(f.node)
    if f"self._verif_dict = {newname}" not in src:
        probs.append("the new dictionary is not stored back into self._verif_dict")
    inits = [n_ for n_ in f.node.body if isinstance(n_, (ast.Assign, ast.AnnAssign)) and ast.unparse(n_.targets[0] if isinstance(n_, ast.Assign) else n_.target) == newname]
    if not inits or ast.unparse(inits[0].value) not in ("dict()", "{}"):
        probs.append("the new dictionary does not start empty")
    ck.verdict("D-TABLE", fn, what, probs, "loop form: copy condition == not all_verifs_recvd")


def run(ck):
    P = Program(ck.repo)
    ck.explanation = (
        "Static check of PusVerificator. add_tm -> _check_subservice -> helpers is abstractly interpreted once with a symbolic "
        "subservice and a symbolic old status; the resulting closed terms for the five status fields, the step list and the "
        "result's completed flag are specialised to every subservice 1..8 and every one of the 162 old statuses (1296 evaluations "
        "of extracted terms, exhaustive) and compared with a reference transition table written from the property and the class "
        "documentation. The one-step invariants are checked on the same table of evaluations: 'all verifications received' never "
        "reverts, a failed step is never overwritten, completed is set exactly for subservices {2,4,6,7,8}, each report touches "
        "only its own stage field plus the finished flag. Being one-step and inductive they hold for every history. Isolation "
        "(only the looked-up status and the fresh result are written), refusals (unknown id => None, subservice outside 1..8 => "
        "ValueError before any store, duplicate add_tc => False), and the two removal operations are decided structurally.")
    for r, t in (("M-MODEL", "extracted transition function == reference table, exhaustive over (subservice, old status)"),
                 ("A-ALIAS", "stores reach only the looked-up status and the fresh result"), ("G-REFUSE", "unknown id / bad subservice / duplicate registration"),
                 ("D-TABLE", "removal filters")):
        ck.rule(r, t)
    ck.trusted += ["reference transition table reference() in spverif/props/c16.py (documented behaviour; where the documentation is silent - start failure "
                   "without acceptance report - it records what the class documents as 'not all verifications received')",
                   "dictionary-key soundness of RequestId (eq/hash on as_u32) is C15's Q-EQ obligation"]
    s1 = P.cls(f"{V1}.Service1Tm").qual
    vsq = P.cls(f"{PV}.VerificationStatus").qual

    def setup(with_entry=True):
        it = new_interp(P); env = Env()
        tm = it.new_object(s1, symbolic=True, root="tm", path="tm")
        rid = read_path(it, env, tm, "tc_req_id")
        vs = it.new_object(vsq, symbolic=True, root="vs", path="vs")
        old = {f: read_path(it, env, vs, f) for f in FIELDS + ("step_list",)}
        ver = construct(it, env, f"{PV}.PusVerificator", {})
        other = it.new_object(P.cls(f"{V1}.RequestId").qual if f"spacepackets.{V1}.RequestId" in P.classes else P.cls("ecss.req_id.RequestId").qual, symbolic=True, root="other", path="other")
        env.heap[(ver.a[0], "_verif_dict")] = T("dictlit", ((rid if with_entry else other, vs),), ty="dict")
        return it, env, tm, rid, vs, old, ver
    it, env, tm, rid, vs, old, ver = setup()
    sub_t = read_path(it, env, tm, "subservice")
    n0s = len(it.stores)
    res = R.run_guarded(ck, "M-MODEL", "PusVerificator.add_tm", "call", lambda: call_method(it, env, ver, "add_tm", [tm]))
    if res is None:
        return
    if sub_t.k != "sym":
        ck.unknown("M-MODEL", "PusVerificator.add_tm", "subservice is a symbolic input", show(sub_t)[:60])
        return
    sname = sub_t.a[0]
    new_terms = {f: read_path(it, env, vs, f) for f in FIELDS}
    sl_term = read_path(it, env, vs, "step_list")
    comp_term = read_path(it, env, res, "completed")
    st_obj = read_path(it, env, res, "status")
    ck.verdict("M-MODEL", "PusVerificator.add_tm", "the result carries the tracked status object itself", [] if st_obj == vs else [show(st_obj)[:40]], "identity", nontrivial=False)
    names = {f: old[f].a[0] for f in FIELDS}
    n = 0
    mism = {}
    inv = {"never reverts": [], "failed step kept": [], "completed flag": [], "own stage only": []}
    own = {1: "accepted", 2: "accepted", 3: "started", 4: "started", 5: "step", 6: "step", 7: "completed", 8: "completed"}
    for sub in range(1, 9):
        for A, S, P_, Cc, Rr in itertools.product((UNSET, FAILURE, SUCCESS), (UNSET, FAILURE, SUCCESS), (UNSET, FAILURE, SUCCESS), (UNSET, FAILURE, SUCCESS), (False, True)):
            o = {"accepted": A, "started": S, "step": P_, "completed": Cc, "all_verifs_recvd": Rr}
            e = {sname: sub}
            e.update({names[f]: o[f] for f in FIELDS})
            try:
                got = {f: evaluate(new_terms[f], e) for f in FIELDS}
                got["all_verifs_recvd"] = bool(got["all_verifs_recvd"])
                gc = bool(evaluate(comp_term, e))
                leaf = select(sl_term, e)
            except EvalError as ex:
                ck.unknown("M-MODEL", "PusVerificator._check_subservice", "extracted transition terms are evaluable", str(ex))
                return
            n += 1
            app = leaf.k == "listext" and leaf.a[1] == "append" and leaf.a[0] == old["step_list"]
            if not app and leaf != old["step_list"]:
                mism.setdefault("step list", (sub, o, show(leaf)[:60]))
            want, wapp, wc = reference(sub, o)
            for f in FIELDS:
                if got[f] != want[f]:
                    mism.setdefault(f, (sub, o, f"{got[f]} (reference {want[f]})"))
            if app != wapp:
                mism.setdefault("step list", (sub, o, f"appended={app} (reference {wapp})"))
            if gc != wc:
                mism.setdefault("result.completed", (sub, o, f"{gc} (reference {wc})"))
            if Rr and not got["all_verifs_recvd"]:
                inv["never reverts"].append((sub, o))
            if P_ == FAILURE and got["step"] != FAILURE:
                inv["failed step kept"].append((sub, o))
            if gc != (sub in (2, 4, 6, 7, 8)):
                inv["completed flag"].append((sub, o))
            for f in ("accepted", "started", "step", "completed"):
                if f != own[sub] and got[f] != o[f]:
                    inv["own stage only"].append((sub, o, f))
    for what in ("all_verifs_recvd", "accepted", "started", "step", "completed", "step list", "result.completed"):
        if what in mism:
            sub, o, d = mism[what]
            ck.refuted("M-MODEL", "PusVerificator._check_subservice", f"{what} after every report == reference state machine",
                       f"subservice {sub} on status {o}: {d}", witness={"subservice": sub, "old": o})
        else:
            ck.proved("M-MODEL", "PusVerificator._check_subservice", f"{what} after every report == reference state machine", f"{n} (subservice, old status) pairs, exhaustive")
    for what, text in (("never reverts", "'all verifications received' never goes from True to False"), ("failed step kept", "a failed step is never overwritten"),
                       ("completed flag", "result.completed is set exactly for subservices 2, 4, 6, 7, 8"), ("own stage only", "a report changes only its own stage field (and the finished flag)")):
        bad = inv[what]
        ck.verdict("M-MODEL", "PusVerificator._check_subservice", f"one-step invariant: {text}", [f"violated for {bad[0]}"] if bad else [], f"{n} transitions")
    ck.floor("transition evaluations", n, 1296)
    # ---------------------------------------------------------------- isolation
    bad = []
    for s in it.stores[n0s:]:
        if s["oid"] in (vs.a[0], res.a[0] if res.k == "obj" else -1):
            continue
        info = it.obj_info.get(s["oid"], {})
        if info.get("fresh") and not info.get("symbolic"):
            continue
        bad.append(f"{s['text']} in {s['func']}")
    ck.verdict("A-ALIAS", "PusVerificator.add_tm", "a report writes only the looked-up status and the fresh result object", bad[:3], f"{len(it.stores) - n0s} stores inspected")
    # subservice outside 1..8
    for r in it.raises:
        if r["kind"] == "explicit" and not r["caught"] and r["func"].endswith("add_tm"):
            okc = it.exc_matches(r["exc"], ("ValueError",))
            cond_ok = True
            for k in range(-2, 12):
                try:
                    holds = all(bool(evaluate(f, {sname: k})) for f in r["facts"] if sname in free_syms(f))
                except EvalError:
                    cond_ok = False
                    break
                if holds != (k <= 0 or k > 8):
                    cond_ok = False
            ck.verdict("G-REFUSE", "PusVerificator.add_tm", "a subservice outside 1..8 raises ValueError, exactly those", [] if okc and cond_ok else [f"{r['exc']}, condition {[show(f)[:50] for f in r['facts']]}"], "guard evaluated for -2..11")
            before = [s for s in it.stores[n0s:] if s["oid"] == vs.a[0] and any(f in s["facts"] for f in r["facts"][-1:])]
    ok = all(any(sname in free_syms(f) for f in s["facts"]) for s in it.stores[n0s:] if s["oid"] == vs.a[0])
    ck.verdict("G-REFUSE", "PusVerificator.add_tm", "no status field is written before the subservice range check has passed", [] if ok else ["a store into the status is not dominated by the range check"], "facts of every store mention the subservice")
    # unknown id
    it2, env2, tm2, rid2, vs2, old2, ver2 = setup(with_entry=False)
    n0 = len(it2.stores)
    r2 = call_method(it2, env2, ver2, "add_tm", [tm2])
    ck.verdict("G-REFUSE", "PusVerificator.add_tm", "a report for an unknown request id yields None and writes nothing",
               [] if r2.k == "const" and r2.a[0] is None and len(it2.stores) == n0 else [f"returns {show(r2)[:40]}, {len(it2.stores) - n0} stores"], "None")
    # ---------------------------------------------------------------- add_tc
    for present in (True, False):
        it3 = new_interp(P); env3 = Env()
        tc = it3.new_object(P.cls("ecss.tc.PusTc").qual, symbolic=True, root="tc", path="tc")
        ver3 = construct(it3, env3, f"{PV}.PusVerificator", {})
        f_add = P.func(f"{PV}.PusVerificator.add_tc")
        # the key add_tc computes is RequestId.from_sp_header(tc.sp_header): a fresh object; model "already registered" through an opaque dictionary
        if present:
            # the dictionary is opaque: `req_id in self._verif_dict` stays a symbolic condition c.  On the path where c
            # holds nothing may be written into the dictionary and the result is False.
            dsym = sym("verif_dict", ty="dict")
            env3.heap[(ver3.a[0], "_verif_dict")] = dsym
            what = "a duplicate registration returns False and leaves the dictionary untouched"
            ns0, nn0 = len(it3.stores), len(it3.notes)
            r3 = R.run_guarded(ck, "G-REFUSE", "PusVerificator.add_tc", "call", lambda: call_method(it3, env3, ver3, "add_tc", [tc]))
            if r3 is None:
                continue
            from ..terms import subterms as _st, truthy as _tr
            cands = [x for t_ in [r3] + list(env3.facts) + [f_ for st_ in it3.stores for f_ in st_["facts"]] for x in _st(t_)
                     if x.k == "op" and x.a[0] in ("in", "notin") and x.a[2] == dsym]
            if not cands:
                ck.unknown("G-REFUSE", "PusVerificator.add_tc", what, "no membership test of the dictionary found")
                continue
            c = binop("in", cands[0].a[1], cands[0].a[2])
            notc = binop("notin", cands[0].a[1], cands[0].a[2])

            def holds(facts, goal, alt):
                fs = [_tr(f_) for f_ in facts]
                return goal in fs or un("not", alt) in fs or D.prove(fs, goal)[0] == "proved"
            writes = [st_ for st_ in it3.stores[ns0:] if st_["oid"] == ver3.a[0] and st_["attr"] == "_verif_dict"] + \
                     [n_ for n_ in it3.notes[nn0:] if n_.get("kind") == "substore" and n_["base"] == dsym]
            probs = []
            for w_ in writes:
                if not holds(w_["facts"], notc, c):
                    probs.append(f"`{w_['text'][:50]}` writes the dictionary also when the request id is already registered (the collected status is lost)")
            rt = _tr(r3)
            dup_false = rt == notc or rt == un("not", c) or (rt.k == "gamma" and rt.a[0] in (c,) and rt.a[1].k == "const" and not rt.a[1].a[0]) \
                or (rt.k == "gamma" and rt.a[0] in (notc, un("not", c)) and rt.a[2].k == "const" and not rt.a[2].a[0])
            if not dup_false:
                probs.append(f"returns {show(r3)[:60]} for a duplicate; reference False")
            ck.verdict("G-REFUSE", "PusVerificator.add_tc", what, probs[:2], f"{len(writes)} dictionary writes, all under `not ({show(c)[:40]})`")
        else:
            env3.heap[(ver3.a[0], "_verif_dict")] = T("dictlit", (), ty="dict")
            r3 = R.run_guarded(ck, "M-MODEL", "PusVerificator.add_tc", "call", lambda: call_method(it3, env3, ver3, "add_tc", [tc]))
            if r3 is not None:
                d = read_path(it3, env3, ver3, "_verif_dict")
                # the one new entry: written with update({k: v}) or with item assignment d[k] = v
                entry = None
                if d.k == "listext" and d.a[1] == "update" and d.a[2] and d.a[2][0].k == "dictlit" and len(d.a[2][0].a[0]) == 1:
                    entry = d.a[2][0].a[0][0]
                elif d.k == "dictlit" and len(d.a[0]) == 1:
                    entry = d.a[0][0]
                ok = r3.k == "const" and r3.a[0] is True and entry is not None
                fresh_ok = False
                if ok:
                    key, val = entry
                    if val.k == "obj" and val.ty == vsq:
                        vals = {f: read_path(it3, env3, val, f) for f in FIELDS}
                        fresh_ok = vals["all_verifs_recvd"] == C(False) and all(vals[f].k == "const" and vals[f].a[0] == UNSET for f in FIELDS[1:])
                        sl = read_path(it3, env3, val, "step_list")
                        fresh_ok = fresh_ok and sl.k == "list" and not sl.a[0]
                        # key is the request id of the telecommand's header
                        fresh_ok = fresh_ok and key.k == "obj"
                ck.verdict("M-MODEL", "PusVerificator.add_tc", "a new telecommand is registered under its request id with an all-UNSET status, empty step list, not finished; returns True",
                           [] if ok and fresh_ok else [f"returns {show(r3)[:30]}, dict {show(d)[:100]}"], "initial state")
    # ---------------------------------------------------------------- removal
    f = P.func(f"{PV}.PusVerificator.remove_completed_entries")
    comps = [n_ for n_ in ast.walk(f.node) if isinstance(n_, ast.DictComp)]
    probs = []
    if len(comps) != 1:
        # loop form: for k, v in self._verif_dict.items(): [if v.all_verifs_recvd: continue] new[k] = v ; self._verif_dict = new
        removal_loop_form(ck, P, f, vsq)
        comps = None
    else:
        c = comps[0]
        g = c.generators[0]
        if ast.unparse(g.iter) != "self._verif_dict.items()" or not isinstance(g.target, ast.Tuple) or len(g.target.elts) != 2:
            probs.append(f"iterates `{ast.unparse(g.iter)}`")
        else:
            kname, vname = g.target.elts[0].id, g.target.elts[1].id
            if ast.unparse(c.key) != kname or ast.unparse(c.value) != vname:
                probs.append("entries are transformed, not only filtered")
            if len(g.ifs) != 1:
                probs.append(f"{len(g.ifs)} filters")
            else:
                it4 = new_interp(P); env4 = Env()
                v4 = it4.new_object(vsq, symbolic=True, root="val", path="val")
                env4.vars[vname] = v4
                cond = it4.ev(g.ifs[0], env4, f.module, f)
                want = un("not", read_path(it4, env4, v4, "all_verifs_recvd"))
                if cond != want:
                    probs.append(f"keeps entries with `{ast.unparse(g.ifs[0])}` (term {show(cond)[:50]}); reference: not all_verifs_recvd")
        tgt = [n_ for n_ in ast.walk(f.node) if isinstance(n_, ast.Assign)]
        if not tgt or ast.unparse(tgt[0].targets[0]) != "self._verif_dict":
            probs.append("result is not stored back into self._verif_dict")
    if comps is not None:
        ck.verdict("D-TABLE", "PusVerificator.remove_completed_entries", "keeps exactly the entries whose status is not marked 'all verifications received'", probs, "filter term == not all_verifs_recvd")
    f = P.func(f"{PV}.PusVerificator.remove_entry")
    src = ast.unparse(f.node)
    dels = [n_ for n_ in ast.walk(f.node) if isinstance(n_, ast.Delete)]
    one_del = len(dels) == 1 and ast.unparse(dels[0]) == "del self._verif_dict[req_id]"
    guarded = one_del and "if req_id in self._verif_dict:" in src and src.rstrip().endswith("return False")
    # or: try: del ...; except KeyError: return False; [else:] return True
    tries = [n_ for n_ in ast.walk(f.node) if isinstance(n_, ast.Try)]
    tried = one_del and len(tries) == 1 and any(ast.unparse(h_.type) == "KeyError" and ast.unparse(h_.body[-1]) == "return False" for h_ in tries[0].handlers if h_.type is not None) \
        and any(n_ is dels[0] for n_ in ast.walk(ast.Module(body=tries[0].body, type_ignores=[]))) and "return True" in src
    pops = ".pop(req_id" in src
    what = "deletes only its own key, only when present, and reports whether it did"
    if guarded or tried:
        ck.proved("D-TABLE", "PusVerificator.remove_entry", what, "single del, guarded by membership" if guarded else "single del in try / except KeyError")
    elif not one_del and not pops:
        ck.refuted("D-TABLE", "PusVerificator.remove_entry", what, f"{len(dels)} del statements: {src[-120:]}")
    else:
        ck.unknown("D-TABLE", "PusVerificator.remove_entry", what, f"form not recognised: {src[-120:]}")
