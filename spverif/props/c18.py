"""C18 - reserved CFDP messages (proxy, directory, originating transaction id) - CCSDS 727.0-B-5 6."""
from __future__ import annotations

from ..index import Program
from ..gti import new_interp, call_method, construct, read_path, Env, Unsupported
from ..terms import T, C, sym, show, binop, un, length, NONE, as_bcat
from ..layout import F, K, A, B, CRC
from ..linear import Lin, linearize
from ..bits import data_bits_be, BitCtx, field_bits
from .. import rules as R
from .. import decode_rules as D
from .. import cfdp_common as CF
from .. import pdus as PD

M = "cfdp.tlv.msg_to_user"
CFDP = int.from_bytes(b"cfdp", "big")
PROXY = {0x00, 0x01, 0x02, 0x03, 0x04, 0x05, 0x06, 0x07, 0x08, 0x09, 0x0B}
DIROP = {0x10, 0x11, 0x15}
ORIG = 0x0A


def lv(it, env, name):
    return construct(it, env, "cfdp.lv.CfdpLv", dict(value=sym(name, ty="bytes")))


def builders(P):
    """name -> (msg type, build(it, env) -> (object, field spec after the type octet, widths))"""
    def put_request(it, env, E=2):
        did = construct(it, env, CF.WIDTH_CLASS[E], dict(val=sym("dest_id", ty="int")))
        pp = construct(it, env, f"{M}.ProxyPutRequestParams", dict(dest_entity_id=did, source_file_name=lv(it, env, "src_name"), dest_file_name=lv(it, env, "dst_name")))
        return construct(it, env, f"{M}.ProxyPutRequest", dict(params=pp)), \
            [K(8, E), F("dest_id", 8 * E)] + PD.lv_spec("src_name", PD.blen("src_name")) + PD.lv_spec("dst_name", PD.blen("dst_name")), {"dest_id": 8 * E}

    def put_response(it, env):
        pr = construct(it, env, f"{M}.ProxyPutResponseParams", dict(condition_code=CF.esym(P, "condition_code", "cfdp.defs.ConditionCode"),
                                                                     delivery_code=CF.esym(P, "delivery_code", "cfdp.defs.DeliveryCode"), file_status=CF.esym(P, "file_status", "cfdp.defs.FileStatus")))
        return construct(it, env, f"{M}.ProxyPutResponse", dict(params=pr)), [F("condition_code", 4), K(1, 0), F("delivery_code", 1), F("file_status", 2)], {"condition_code": 4}

    def cancel(it, env):
        return construct(it, env, f"{M}.ProxyCancelRequest", {}), [], {}

    def closure(it, env):
        return construct(it, env, f"{M}.ProxyClosureRequest", dict(closure_requested=sym("closure_requested", ty="bool"))), [K(7, 0), F("closure_requested", 1)], {}

    def tmode(it, env):
        return construct(it, env, f"{M}.ProxyTransmissionMode", dict(transmission_mode=CF.esym(P, "transmission_mode", "cfdp.defs.TransmissionMode"))), [K(7, 0), F("transmission_mode", 1)], {}

    def orig(it, env, E=1, S=2):
        tid = construct(it, env, "cfdp.defs.TransactionId", dict(source_entity_id=construct(it, env, CF.WIDTH_CLASS[E], dict(val=sym("source_id", ty="int"))),
                                                                 transaction_seq_num=construct(it, env, CF.WIDTH_CLASS[S], dict(val=sym("seq_num", ty="int")))))
        return construct(it, env, f"{M}.OriginatingTransactionId", dict(transaction_id=tid)), \
            [K(1, 0), K(3, E - 1), K(1, 0), K(3, S - 1), F("source_id", 8 * E), F("seq_num", 8 * S)], {"source_id": 8 * E, "seq_num": 8 * S}

    def dparams(it, env):
        return construct(it, env, f"{M}.DirectoryParams", dict(dir_path=lv(it, env, "dir_path"), dir_file_name=lv(it, env, "dir_file_name")))

    def list_req(it, env):
        return construct(it, env, f"{M}.DirectoryListingRequest", dict(params=dparams(it, env))), PD.lv_spec("dir_path", PD.blen("dir_path")) + PD.lv_spec("dir_file_name", PD.blen("dir_file_name")), {}

    def list_resp(it, env):
        return construct(it, env, f"{M}.DirectoryListingResponse", dict(listing_success=sym("listing_success", ty="bool"), dir_params=dparams(it, env))), \
            [F("listing_success", 1), K(7, 0)] + PD.lv_spec("dir_path", PD.blen("dir_path")) + PD.lv_spec("dir_file_name", PD.blen("dir_file_name")), {}

    def list_opts(it, env):
        o = construct(it, env, f"{M}.DirListingOptions", dict(recursive=sym("recursive", ty="bool"), all=sym("all", ty="bool")))
        return construct(it, env, f"{M}.DirectoryListingParameters", dict(options=o)), [K(6, 0), F("recursive", 1), F("all", 1)], {}
    return {"ProxyPutRequest": (0x00, put_request), "ProxyPutResponse": (0x07, put_response), "ProxyCancelRequest": (0x09, cancel), "ProxyClosureRequest": (0x0B, closure),
            "ProxyTransmissionMode": (0x04, tmode), "OriginatingTransactionId": (ORIG, orig), "DirectoryListingRequest": (0x10, list_req),
            "DirectoryListingResponse": (0x11, list_resp), "DirectoryListingParameters": (0x15, list_opts)}


def none_infeasible(ck, it, env, r, fn, what):
    """a getter applied to a message its own builder produced must not answer None"""
    conds = []

    def walk(t, path):
        if t.k == "gamma":
            walk(t.a[1], path + [t.a[0]]); walk(t.a[2], path + [un("not", t.a[0])])
        elif t.k == "const" and t.a[0] is None:
            conds.append(path)
    walk(r, [])
    bad = []
    for path in conds:
        if not path:
            # the getter answers None unconditionally
            bad.append(([C(True)], "refutable", {}))
            continue
        if D.feasible(list(env.facts) + path):
            st, m = D.prove(list(env.facts) + path[:-1], un("not", path[-1]))
            if st != "proved":
                bad.append((path, st, m))
    if not bad:
        ck.proved("X-ACC", fn, what, f"{len(conds)} None-alternatives, all infeasible for built messages")
    else:
        path, st, m = bad[0]
        if st == "refutable":
            ck.refuted("X-ACC", fn, what, f"answers None under {show(path[-1])[:100]} with {m}", witness=m)
        else:
            ck.unknown("X-ACC", fn, what, f"{show(path[-1])[:100]}: {m}")


def leaf_obj(t):
    while t.k == "gamma":
        t = t.a[2] if (t.a[1].k == "const" and t.a[1].a[0] is None) else t.a[1]
    return t


def run(ck):
    P = Program(ck.repo)
    ck.explanation = (
        "Static check of the reserved CFDP message classes. Each of the nine builders is constructed with symbolic parameters and its "
        "packed message-to-user TLV compared per bit with the reference: type 0x02, length, 'cfdp', message-type octet, and the "
        "fields of CCSDS 727.0-B-5 6.2/6.3 (widths enumerated for the originating transaction id and the destination id). Each "
        "parameter getter is then run (a) on the built message itself, where it must return the original parameters term for term "
        "and may not answer None, and (b) on a message with a symbolic value, where the decoded fields are compared per bit with "
        "the reference offsets, reads are proven in bounds and the escape set is checked. The message-type classification tables "
        "are checked for every type octet. The reserved-message recogniser must have an empty raise log.")
    for r, t in (("W-PACK", "builder layouts"), ("W-UNPACK", "getter results == reference bits"), ("X-ACC", "getters accept what the builders produce"),
                 ("D-TABLE", "message-type classification"), ("E-PURE", "recogniser cannot raise"), ("X-BUF", "reads in bounds"), ("E-ESC", "ValueError only")):
        ck.rule(r, t)
    ck.trusted += ["reference field tables in spverif/props/c18.py (727.0-B-5 6.2, 6.3; the custom listing-parameters message follows its documentation)"]
    B_ = builders(P)
    resq = P.cls(f"{M}.ReservedCfdpMessage").qual
    # ---------------------------------------------------------------- builders
    for name, (mtype, build) in B_.items():
        variants = [()]
        if name == "OriginatingTransactionId":
            variants = [(1, 2), (8, 4), (2, 2), (4, 1)]
        if name == "ProxyPutRequest":
            variants = [(1,), (2,), (8,)]
        for var in variants:
            it = new_interp(P); env = Env()
            tag = f"{name}{var if var else ''}"
            r = R.run_guarded(ck, "W-PACK", name, f"build {tag}", lambda: build(it, env, *var))
            if r is None:
                continue
            obj, fields, w = r
            val = [K(32, CFDP), K(8, mtype)] + fields
            spec = [K(8, 2), R.len_atom(8, R.spec_len(val))] + val
            p = call_method(it, env, obj, "pack")
            R.check_pack_layout(ck, it, env, p, spec, f"{name}.pack", f"message-to-user TLV == 'cfdp' | type {mtype:#04x} | fields ({tag})", extra_widths=w)
            R.check_lin_equal(ck, read_path(it, env, obj, "packet_len"), R.spec_len(spec), f"{name}.packet_len", f"packet_len == packed size ({tag})")
            for q, want in (("is_cfdp_proxy_operation", mtype in PROXY), ("is_directory_operation", mtype in DIROP), ("is_originating_transaction_id", mtype == ORIG)):
                v = call_method(it, env, obj, q)
                ck.verdict("D-TABLE", f"ReservedCfdpMessage.{q}", f"{q}() == {want} for {tag}", [] if v.k == "const" and bool(v.a[0]) == want else [show(v)[:40]], str(want), nontrivial=False)
            # the generic view recognises it
            g = call_method(it, env, obj, "to_generic_msg_to_user_tlv")
            rr = call_method(it, env, g, "is_reserved_cfdp_message")
            okr = rr.k == "const" and rr.a[0] is True
            if not okr and rr.k != "const":
                okr = D.prove(env.facts, rr)[0] == "proved"
            ck.verdict("D-TABLE", "MessageToUserTlv.is_reserved_cfdp_message", f"a packed {tag} is recognised as reserved", [] if okr else [show(rr)[:60]], "True")
            # round trip through the getter
            if name == "ProxyPutRequest":
                n0 = len(it.raises)
                r = call_method(it, env, obj, "get_proxy_put_request_params")
                none_infeasible(ck, it, env, r, "ReservedCfdpMessage.get_proxy_put_request_params", f"a built put request (any name lengths, also empty) yields its parameters, not None ({tag})")
                # (the decoded names come out of nested early-return merges; their term-for-term identity with the built
                # names is not decided here - the LV decoder itself is C08's obligation)
            elif name == "OriginatingTransactionId":
                r = call_method(it, env, obj, "get_originating_transaction_id")
                none_infeasible(ck, it, env, r, "ReservedCfdpMessage.get_originating_transaction_id", f"a built originating-id message yields its id ({tag})")
                o = leaf_obj(r)
                if o.k == "obj":
                    E, S = var
                    for path, nm, wd in (("source_id", "source_id", E), ("seq_num", "seq_num", S)):
                        bl = read_path(it, env, o, path + ".byte_len")
                        bl = D.simplify(bl, env.facts)
                        ck.verdict("W-UNPACK", "ReservedCfdpMessage.get_originating_transaction_id", f"decoded {nm} width == {wd} ({tag})", [] if linearize(bl).key() == Lin({}, wd).key() else [show(bl)[:60]], str(wd))
    # ---------------------------------------------------------------- getters on a symbolic value
    v = sym("v", ty="bytes")
    getters = {
        "get_proxy_put_response_params": (0x07, [("condition_code", 0, 4), ("delivery_code", 5, 1), ("file_status", 6, 2)]),
        "get_proxy_closure_requested": (0x0B, [(None, 7, 1)]),
        "get_proxy_transmission_mode": (0x04, [(None, 7, 1)]),
        "get_dir_listing_options": (0x15, [("recursive", 6, 1), ("all", 7, 1)]),
    }
    for g, (mtype, fields) in getters.items():
        it = new_interp(P); env = Env()
        m = construct(it, env, f"{M}.ReservedCfdpMessage", dict(msg_type=C(mtype), value=v))
        n0 = len(it.raises); nr = len(it.reads)
        r = R.run_guarded(ck, "W-UNPACK", f"ReservedCfdpMessage.{g}", "call", lambda: call_method(it, env, m, g))
        if r is None:
            continue
        fn = f"ReservedCfdpMessage.{g}"
        for fname, off, w in fields:
            val = read_path(it, env, r, fname) if fname else r
            R.check_field_bits(ck, it, val, data_bits_be("v", off, w), fn, f"{fname or 'result'} == bits {off}..{off + w - 1} of the first parameter octet")
        it.reads = it.reads[nr:]; it.raises = it.raises[n0:]
        D.check_xbuf(ck, it, fn); D.check_escape(ck, it, fn)
        st, mm = D.prove(env.facts, binop(">=", length(v), C(1)))
        ck.verdict3("G-REFUSE", fn, "a message without parameter octet is refused", st, mm, "len(value) >= 1 on return")
        # wrong message type => None
        it2 = new_interp(P); env2 = Env()
        m2 = construct(it2, env2, f"{M}.ReservedCfdpMessage", dict(msg_type=C(0x09 if mtype != 0x09 else 0x00), value=v))
        r2 = call_method(it2, env2, m2, g)
        ck.verdict("D-TABLE", fn, "a message of another type yields None", [] if r2.k == "const" and r2.a[0] is None else [show(r2)[:40]], "None", nontrivial=False)
    # listing request / response / originating id / put request on symbolic values: bounds and escape set
    for g, mtype, code in (("get_dir_listing_request_params", 0x10, None), ("get_dir_listing_response_params", 0x11, None), ("get_originating_transaction_id", ORIG, 0x01),
                           ("get_originating_transaction_id", ORIG, 0x73), ("get_originating_transaction_id", ORIG, 0x30), ("get_proxy_put_request_params", 0x00, None)):
        it = new_interp(P); env = Env()
        if code is not None:
            it.concrete_bytes[("v", 0)] = code
        m = construct(it, env, f"{M}.ReservedCfdpMessage", dict(msg_type=C(mtype), value=v))
        n0 = len(it.raises); nr = len(it.reads)
        r = R.run_guarded(ck, "X-BUF", f"ReservedCfdpMessage.{g}", "call", lambda: call_method(it, env, m, g))
        if r is None:
            continue
        it.reads = it.reads[nr:]; it.raises = it.raises[n0:]
        D.check_xbuf(ck, it, f"ReservedCfdpMessage.{g}"); D.check_escape(ck, it, f"ReservedCfdpMessage.{g}")
        if g == "get_dir_listing_response_params":
            o = leaf_obj(r)
            if o.k == "tuple":
                R.check_field_bits(ck, it, o.a[0][0], data_bits_be("v", 0, 1), f"ReservedCfdpMessage.{g}", "listing success == bit 7 of the first parameter octet")
        if g == "get_originating_transaction_id":
            o = leaf_obj(r)
            E, S = ((code >> 4) & 7) + 1, (code & 7) + 1
            if o.k == "obj":
                _sc = {}
                simp = lambda t_: D.simplify(D.simplify(t_, env.facts, _sc), env.facts, _sc)
                for path, wd, off in (("source_id", E, 1), ("seq_num", S, 1 + E)):
                    bl = simp(read_path(it, env, o, path + ".byte_len"))
                    ck.verdict("W-UNPACK", f"ReservedCfdpMessage.{g}", f"{path} width == {wd} for width octet {code:#04x}", [] if linearize(bl).key() == Lin({}, wd).key() else [show(bl)[:60]], str(wd))
                    R.check_field_bits(ck, it, simp(read_path(it, env, o, path + ".value")), data_bits_be("v", 8 * off, 8 * wd), f"ReservedCfdpMessage.{g}",
                                       f"{path} == {wd} octets big-endian at {off} of the parameters (width octet {code:#04x})")
            else:
                ck.refuted("W-UNPACK", f"ReservedCfdpMessage.{g}", f"a well-formed originating id (width octet {code:#04x}) is decoded", show(r)[:80])
    # ---------------------------------------------------------------- classification for every type octet
    for mtype in range(0, 0x20):
        it = new_interp(P); env = Env()
        m = construct(it, env, f"{M}.ReservedCfdpMessage", dict(msg_type=C(mtype), value=v))
        for q, want in (("is_cfdp_proxy_operation", mtype in PROXY), ("is_directory_operation", mtype in DIROP), ("is_originating_transaction_id", mtype == ORIG)):
            r = call_method(it, env, m, q)
            ck.verdict("D-TABLE", f"ReservedCfdpMessage.{q}", f"message type {mtype:#04x}: {q}() == {want}", [] if r.k == "const" and bool(r.a[0]) == want else [show(r)[:40]], str(want), nontrivial=False)
    # ---------------------------------------------------------------- recogniser cannot raise
    it = new_interp(P); env = Env()
    mt = construct(it, env, f"{M}.MessageToUserTlv", dict(msg=sym("msg", ty="bytes")))
    n0 = len(it.raises)
    r = R.run_guarded(ck, "E-PURE", "MessageToUserTlv.is_reserved_cfdp_message", "call", lambda: call_method(it, env, mt, "is_reserved_cfdp_message"))
    if r is not None:
        rs = [x for x in it.raises[n0:] if not x["caught"]]
        ck.verdict("E-PURE", "MessageToUserTlv.is_reserved_cfdp_message", "the recogniser has an empty escape set (answers False for any other content)",
                   [f"{x['exc']} at `{x['text'][:50]}`" for x in rs], "no raise, no may-raise operation")
        ok = "msg" in show(r) and "cfdp" in show(r)
        ck.verdict("W-VAL", "MessageToUserTlv.is_reserved_cfdp_message", "answer == (at least 5 octets and the first four are 'cfdp')", [] if ok else [show(r)[:80]], show(r)[:80])
        # a reserved message has a message-type octet behind the marker: a True answer implies at least 5 octets
        from ..terms import truthy as _truthy
        st, m = D.prove(list(env.facts) + [_truthy(r)], binop(">=", length(sym("msg", ty="bytes")), C(5)))
        ck.verdict3("W-VAL", "MessageToUserTlv.is_reserved_cfdp_message", "a True answer implies the marker 'cfdp' AND a message-type octet (at least 5 octets)", st, m, "entailed by the answer")
        n0 = len(it.raises)
        nr0 = len(it.reads)
        conv = call_method(it, env, mt, "to_reserved_msg_tlv")
        it.reads = it.reads[nr0:]
        D.check_xbuf(ck, it, "MessageToUserTlv.to_reserved_msg_tlv")
        rs = [x for x in it.raises[n0:] if not x["caught"] and not it.exc_matches(x["exc"], ("ValueError",))]
        ck.verdict("E-ESC", "MessageToUserTlv.to_reserved_msg_tlv", "conversion of arbitrary content raises at most ValueError", [f"{x['exc']} at `{x['text'][:40]}`" for x in rs if D.feasible(x["facts"])], "raise log")


def _leaves(t):
    if t.k == "gamma":
        return _leaves(t.a[1]) + _leaves(t.a[2])
    return [t]


def _is_empty(t):
    return (t.k == "bcat" and not t.a[0]) or (t.k == "const" and t.a[0] == b"")
