"""C07 - CFDP File Data PDU (CCSDS 727.0-B-5 5.3)."""
from __future__ import annotations

from ..index import Program
from ..gti import new_interp, call_method, construct, read_path, Env, Unsupported
from ..terms import T, C, sym, show, binop, length, NONE
from ..layout import F, K, A, B, CRC
from ..linear import Lin, linearize
from ..bits import data_bits_be, BitCtx, buffer_pos
from .. import rules as R
from .. import decode_rules as D
from .. import cfdp_common as CF
from .. import pdus as PD
from .. import pdu_decode as DEC

FD = "cfdp.pdu.file_data"
VARIANTS = ("no metadata", "metadata", "empty metadata")


def build(it, env, P, conf, variant, suffix=""):
    pk = dict(file_data=sym("file_data" + suffix, ty="bytes"), offset=sym("offset" + suffix, ty="int"))
    if variant != "no metadata":
        md = sym("metadata" + suffix, ty="bytes") if variant == "metadata" else C(b"")
        pk["segment_metadata"] = construct(it, env, f"{FD}.SegmentMetadata", dict(
            record_cont_state=CF.esym(P, "record_cont_state" + suffix, f"{FD}.RecordContinuationState"), metadata=md))
    params = construct(it, env, f"{FD}.FileDataParams", pk)
    return construct(it, env, f"{FD}.FileDataPdu", dict(pdu_conf=conf, params=params))


def fd_spec(E, S, crc, large, variant, suffix="", names=None):
    n = lambda k: (names or {}).get(k, k + suffix)
    body = []
    if variant == "metadata":
        body += [F(n("record_cont_state"), 2), R.len_atom(6, PD.blen(n("metadata"))), B(n("metadata"))]
    elif variant == "empty metadata":
        body += [F(n("record_cont_state"), 2), K(6, 0)]
    body += [PD.fss(n("offset"), large), B(n("file_data"))] + ([CRC()] if crc else [])
    tail_len = R.spec_len(body)
    hdr = CF.header_spec(E, S, R.len_atom(16, tail_len), pdu_type=1, direction=0, crc=crc, large=large, seg_meta=0 if variant == "no metadata" else 1)
    return hdr + body, tail_len, tail_len + Lin({}, CF.header_len(E, S))


SETTER_SEQUENCES = (("metadata", "no metadata"), ("no metadata", "metadata"), ("empty metadata", "metadata"),
                    # one setter alone: the other one must not be needed to bring the lengths up to date
                    ("metadata", "metadata", "meta"), ("metadata", "empty metadata", "meta"), ("no metadata", "metadata", "meta"),
                    ("metadata", "no metadata", "meta"), ("no metadata", "empty metadata", "meta"),
                    ("metadata", "metadata", "data"), ("no metadata", "no metadata", "data"))


def widths(E, S, large, suffix=""):
    w = dict(CF.header_widths(E, S))
    w["offset" + suffix] = 64 if large else 32
    return w


def pack_task(ck, task):
    P = Program(ck.repo)
    (E, S, crc, large), variant = task
    it = new_interp(P); env = Env()
    tag = f"{variant} E={E},S={S},crc={crc},large={large}"
    fn = "FileDataPdu.pack"
    try:
        conf = CF.make_conf(it, env, P, E, S, crc=crc, large=large)
        pdu = build(it, env, P, conf, variant)
        nr = len(it.raises)
        p = call_method(it, env, pdu, "pack")
    except Unsupported as e:
        ck.unknown("W-PACK", fn, f"pack {tag}", str(e))
        return
    ck.floor("file data pack analyses", 1, 0)
    spec, tail_len, total = fd_spec(E, S, crc, large, variant)
    R.check_pack_layout(ck, it, env, p, spec, fn, f"packed octets == reference layout ({tag})", extra_widths=widths(E, S, large))
    R.check_lin_equal(ck, read_path(it, env, pdu, "packet_len"), total, "FileDataPdu.packet_len", f"packet_len == packed size ({tag})")
    R.check_lin_equal(ck, read_path(it, env, pdu, "pdu_data_field_len"), tail_len, "FileDataPdu.pdu_data_field_len", f"data field length == octets after the header ({tag})")
    ck.verdict("G-RANGE", fn, f"offset packed untruncated ({tag})", PD.fss_not_truncated(p, {"offset"}), "bare value reaches struct.pack")
    if variant == "metadata":
        md = sym("metadata", ty="bytes")
        st, m = D.prove(env.facts, binop("<=", length(md), C(63)))
        cons = f"segment metadata longer than 63 octets is refused by pack ({tag})"
        if st == "proved":
            ck.proved("G-REFUSE", fn, cons, "normal return implies len(metadata) <= 63")
        elif st == "refutable":
            ck.refuted("G-REFUSE", fn, cons, f"packed with {m}", witness=m)
        else:
            ck.unknown("G-REFUSE", fn, cons, str(m))
        for r in it.raises[nr:]:
            if r["kind"] == "explicit" and not r["caught"] and r["func"].endswith("FileDataPdu.pack"):
                st, m = D.prove(r["facts"], binop(">", length(md), C(63)))
                ok = st == "proved" and it.exc_matches(r["exc"], ("ValueError",))
                ck.verdict("G-REFUSE", fn, f"refusal `{r['text'][:40]}` only for metadata longer than 63 octets, as ValueError ({tag})",
                           [] if ok else [f"{st}: {m}; raises {r['exc']}"], "path condition implies len(metadata) > 63")
    # helper: maximum file segment length
    if variant != "empty metadata":
        it2 = new_interp(P); env2 = Env()
        conf2 = CF.make_conf(it2, env2, P, E, S, crc=crc, large=large)
        kw = dict(pdu_conf=conf2, max_packet_len=sym("max_packet_len", ty="int"))
        if variant == "metadata":
            kw["segment_metadata"] = construct(it2, env2, f"{FD}.SegmentMetadata", dict(
                record_cont_state=CF.esym(P, "record_cont_state", f"{FD}.RecordContinuationState"), metadata=sym("metadata", ty="bytes")))
        try:
            r = it2.call_func(P.func(f"{FD}.get_max_file_seg_len_for_max_packet_len_and_pdu_cfg"), [], kw, env2)
            overhead = total - PD.blen("file_data")
            R.check_lin_equal(ck, r, Lin({sym("max_packet_len", ty="int"): 1}) - overhead, "get_max_file_seg_len_for_max_packet_len_and_pdu_cfg",
                              f"max segment length == max packet length - (layout without file data) ({tag})")
        except Unsupported as e:
            ck.unknown("L-LEN", "get_max_file_seg_len_for_max_packet_len_and_pdu_cfg", tag, str(e))


def setter_task(ck, task):
    """documented setters keep layout, flag and lengths in step (also part of C11)"""
    P = Program(ck.repo)
    (E, S, crc, large), (v0, v1, *which) = task
    which = which[0] if which else "both"        # which setters run: both | meta (segment_metadata only) | data (file_data only)
    it = new_interp(P); env = Env()
    tag = f"{v0} -> {v1} [{which}] E={E},S={S},crc={crc},large={large}"
    fn = "FileDataPdu.segment_metadata setter"
    try:
        conf = CF.make_conf(it, env, P, E, S, crc=crc, large=large)
        pdu = build(it, env, P, conf, v0)
        call_method(it, env, pdu, "pack")
        if which in ("both", "meta"):
            if v1 == "no metadata":
                new = NONE
            else:
                new = construct(it, env, f"{FD}.SegmentMetadata", dict(
                    record_cont_state=CF.esym(P, "record_cont_state_2", f"{FD}.RecordContinuationState"),
                    metadata=sym("metadata_2", ty="bytes") if v1 == "metadata" else C(b"")))
            it.setattr(pdu, "segment_metadata", new, env, None, None)
        if which in ("both", "data"):
            it.setattr(pdu, "file_data", sym("file_data_2", ty="bytes"), env, None, None)
        p = call_method(it, env, pdu, "pack")
    except Unsupported as e:
        ck.unknown("W-PACK", fn, tag, str(e))
        return
    names = {"offset": "offset"}       # values no setter touched keep their original symbol
    if which == "meta":
        names["file_data"] = "file_data"
    if which == "data":
        names.update(metadata="metadata", record_cont_state="record_cont_state")
    spec, tail_len, total = fd_spec(E, S, crc, large, v1, suffix="_2", names=names)
    w = widths(E, S, large)
    R.check_pack_layout(ck, it, env, p, spec, fn, f"pack() after the setters == layout of a fresh PDU with the final values ({tag})", extra_widths=w)
    R.check_lin_equal(ck, read_path(it, env, pdu, "packet_len"), total, fn, f"packet_len after the setters == packed size ({tag})")


def decode_task(ck, task):
    P = Program(ck.repo)
    i, (E, S, crc, large), seg_meta = task
    r = DEC.decode_one(ck, P, f"{FD}.FileDataPdu", "FileDataPdu", E, S, crc, large, direction=0, mode=i % 2, pdu_type=1, seg_meta=seg_meta, seg_ctrl=i % 2)
    if r is None:
        return
    it, env, dec, tag = r
    tag += f",segmeta={seg_meta}"
    fn = "FileDataPdu.unpack"
    ck.floor("file data decode analyses", 1, 0)
    H = CF.header_len(E, S)
    if env.dead:
        ck.refuted("W-UNPACK", fn, f"decoder accepts some input ({tag})", "every path raises")
        return
    N = DEC.generic_decoder_checks(ck, P, it, env, dec, fn, tag, H, crc)
    Nl = linearize(N)
    end = Nl - Lin({}, 2 * crc)
    w = 8 if large else 4
    _sc = {}; simp = lambda v: D.simplify(D.simplify(v, env.facts, _sc), env.facts, _sc)
    data = DEC.DATA
    if not seg_meta:
        R.check_field_bits(ck, it, simp(read_path(it, env, dec, "offset")), data_bits_be("data", H * 8, 8 * w), fn, f"decoded offset == octets {H}..{H + w - 1} ({tag})")
        R.check_slice_extent(ck, simp(read_path(it, env, dec, "file_data")), "data", Lin({}, H + w), end, fn, f"file data == data[{H + w} : N-{2 * crc}] ({tag})")
        v = read_path(it, env, dec, "segment_metadata")
        ck.verdict("W-UNPACK", fn, f"no segment metadata decoded when the flag is clear ({tag})", [] if v.k == "const" and v.a[0] is None else [show(v)[:80]], "None", nontrivial=False)
        need = H + w + 2 * crc
    else:
        L = binop("&", T("idx", data, C(H), ty="int"), C(0x3F))
        Ll = linearize(L)
        R.check_field_bits(ck, it, simp(read_path(it, env, dec, "segment_metadata.record_cont_state")), data_bits_be("data", H * 8, 2), fn,
                           f"record continuation state == bits 7..6 of octet {H} ({tag})")
        md = simp(read_path(it, env, dec, "segment_metadata.metadata"))
        # the metadata length is the low 6 bits of the same octet
        ok = False
        if md.k == "slice":
            hi = linearize(md.a[2]) - linearize(md.a[1])
            if len(hi.co) == 1 and hi.c == 0:
                (atom, coef), = hi.co.items()
                from ..bits import norm_bits
                bv = norm_bits(atom, BitCtx())
                ok = coef == 1 and bv is not None and bv.high_clear(6) and bv.take(6) == data_bits_be("data", H * 8 + 2, 6)
                if ok:
                    Ll = Lin({atom: 1})
        ck.verdict("W-UNPACK", fn, f"metadata length == bits 5..0 of octet {H} ({tag})", [] if ok else [f"metadata = {show(md)[:100]}"], "slice length is the 6-bit field")
        R.check_slice_extent(ck, md, "data", Lin({}, H + 1), Lin({}, H + 1) + Ll, fn, f"metadata == data[{H + 1} : {H + 1}+L] ({tag})")
        off = simp(read_path(it, env, dec, "offset"))
        probs = []
        if off.k != "unpacked" or off.a[0] != ("!Q" if large else "!I"):
            probs.append(f"offset = {show(off)[:100]}")
        else:
            p = buffer_pos(off.a[1], Lin({}, 0))
            if p is None or p[0].a[0] != "data" or p[1].key() != (Lin({}, H + 1) + Ll).key():
                probs.append(f"offset read at {p[1] if p else '?'}; reference {Lin({}, H + 1) + Ll!r}")
        ck.verdict("W-UNPACK", fn, f"offset == big-endian field at {H + 1}+L ({tag})", probs, show(off)[:100])
        R.check_slice_extent(ck, simp(read_path(it, env, dec, "file_data")), "data", Lin({}, H + 1 + w) + Ll, end, fn, f"file data == data[{H + 1 + w}+L : N-{2 * crc}] ({tag})")
        need = H + 1 + w + 2 * crc
    st, m = D.prove(env.facts, binop(">=", N, C(need)))
    cons = f"declared length too small for the mandatory fields is refused ({tag})"
    if st == "proved":
        ck.proved("G-REFUSE", fn, cons, f"normal return implies declared length >= {need}")
    elif st == "refutable":
        ck.refuted("G-REFUSE", fn, cons, f"accepted: {m}", witness=m)
    else:
        ck.unknown("G-REFUSE", fn, cons, str(m))
    # conversely, a too-short refusal is taken only for a buffer shorter than the declared PDU or a declared length that
    # cannot hold the mandatory fields (a PDU with empty file data is well-formed)
    if seg_meta:
        min_need = binop("+", binop("&", T("idx", data, C(H), ty="int"), C(0x3F)), C(need))
    else:
        min_need = C(need)
    D.check_short_refusals_justified(ck, it, fn, "data", N, f"the declared PDU, or declaring less than the mandatory fields need ({tag})",
                                     also=binop("<", N, min_need), exc_suffix=("BytesTooShortError", "ValueError"), only_func="FileDataPdu.unpack")
    # reported length of the decoded object equals the declared length
    pl = simp(read_path(it, env, dec, "packet_len"))
    R.check_lin_equal(ck, pl, Nl, fn, f"decoded packet_len == declared length ({tag})")


def run(ck):
    from ..report import run_parallel
    ck.explanation = (
        "Static check of the CFDP File Data PDU against a reference layout written from CCSDS 727.0-B-5 5.3, per configuration "
        "case (ID widths, CRC flag, large-file flag) and segment-metadata variant (absent, present, present with zero octets). "
        "Encoder: layout per bit (segment-metadata flag in the header, state<<6|length octet, metadata, big-endian offset, file "
        "data, CRC cell), data-field length and packet_len as linear forms, the 63-octet refusal, the max-segment-length helper "
        "and the two documented setters. Decoder: offset/metadata/file-data extents against the reference offsets up to the end "
        "of the declared PDU minus the CRC trailer, reads in bounds and inside the declared PDU, refusals, CRC verification, "
        "reported length == declared length.")
    for r, t in (("W-PACK", "layout of pack() == reference"), ("L-LEN", "lengths == layout length"), ("W-UNPACK", "decoded fields/extents == reference"),
                 ("G-REFUSE", "metadata > 63 refused; too-short PDUs refused"), ("G-RANGE", "offset untruncated"), ("X-BUF", "reads inside buffer"),
                 ("X-DECL", "reads inside the declared PDU"), ("E-ESC", "documented exceptions only"), ("P-MUST", "CRC verified iff flag"),
                 ("X-IND", "decoded object independent of len(buffer)")):
        ck.rule(r, t)
    ck.trusted += ["struct/bytearray/slice semantics as modelled", "reference layout fd_spec() in spverif/props/c07.py"]
    ck.assumptions += ["record continuation state is a member of its enum"]
    cases = PD.config_cases(ck.tier)
    run_parallel(ck, "spverif.props.c07", "pack_task", [(c, v) for c in cases for v in VARIANTS])
    run_parallel(ck, "spverif.props.c07", "setter_task", [(c, vv) for c in cases[:4] for vv in SETTER_SEQUENCES])
    run_parallel(ck, "spverif.props.c07", "decode_task", [(i, c, sm) for i, c in enumerate(cases) for sm in (0, 1)])
    for what, mn in (("file data pack analyses", len(cases) * 3), ("file data decode analyses", len(cases) * 2)):
        cnt = ck.analysed.get(what, 0)
        ck.floors = [f for f in ck.floors if f[0] != what]
        ck.floor(what, cnt, mn)
    # __eq__ sensitivity
    P = Program(ck.repo)
    it = new_interp(P); env = Env()
    ca = CF.make_conf(it, env, P, 1, 1, crc=0, large=0)
    cb = CF.make_conf(it, env, P, 1, 1, crc=0, large=0, prefix="b_")
    a = build(it, env, P, ca, "metadata")
    b = build(it, env, P, cb, "metadata", suffix="_b")
    eq = R.run_guarded(ck, "Q-EQ", "FileDataPdu.__eq__", "compare", lambda: it.compare("==", a, b, env, None))
    if eq is not None:
        R.check_eq_sensitive(ck, eq, ["file_data", "offset", "metadata", "record_cont_state", "source_entity_id", "dest_entity_id"],
                             ["file_data_b", "offset_b", "metadata_b", "record_cont_state_b", "b_source_entity_id", "b_dest_entity_id"], "FileDataPdu.__eq__")
