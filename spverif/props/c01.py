"""C01 - Space Packet primary header (CCSDS 133.0-B-2 section 4.1.3)."""
from __future__ import annotations

import ast

from ..index import Program
from ..gti import new_interp, call_method, construct, read_path, Env, Unsupported
from ..terms import T, C, sym, show, binop, is_const, NONE
from ..layout import F, K, A, B, CRC
from ..linear import Lin, linearize
from ..bits import data_bits_be, field_bits, BitCtx
from .. import rules as R
from .. import decode_rules as D

MOD = "ccsds.spacepacket"

# reference: CCSDS 133.0-B-2 4.1.3 -- names are the constructor keywords of SpacePacketHeader
SPH_SPEC = [F("ccsds_version", 3), F("packet_type", 1), F("sec_header_flag", 1), F("apid", 11),
            F("seq_flags", 2), F("seq_count", 14), F("data_len", 16)]
RANGES = {"apid": (0, 2047), "seq_count": (0, 16383), "data_len": (0, 65535)}


def sph_syms(P):
    pt = P.cls(f"{MOD}.PacketType").qual
    sf = P.cls(f"{MOD}.SequenceFlags").qual
    return dict(ccsds_version=sym("ccsds_version", ty="int"), packet_type=sym("packet_type", ty=pt),
                sec_header_flag=sym("sec_header_flag", ty="bool"), apid=sym("apid", ty="int"),
                seq_flags=sym("seq_flags", ty=sf), seq_count=sym("seq_count", ty="int"),
                data_len=sym("data_len", ty="int"))


def run(ck):
    P = Program(ck.repo)
    ck.explanation = (
        "Static check of the space packet primary header code against a reference layout table written from "
        "CCSDS 133.0-B-2 4.1.3. The pack/unpack/word-conversion functions are abstractly interpreted once (gated "
        "terms, no path enumeration); every output bit is reduced to its provenance (constant / bit j of a "
        "constructor argument / bit b of input octet k) and compared with the table, pack and unpack "
        "independently. Range refusals are decided from the guard facts by linear entailment in both "
        "directions (nothing out of range accepted, nothing in range refused). Covers all 2^48 header values "
        "because the argument is per bit, not per value.")
    ck.rule("W-PACK", "normalised bit layout of an encoder == reference layout")
    ck.rule("W-UNPACK", "each decoded field == the reference bits of the input octets, higher bits zero")
    ck.rule("W-VAL", "integer word helpers == reference bits")
    ck.rule("L-LEN", "reported length == data_len + 7 as a linear form")
    ck.rule("G-RANGE", "constructor/setter guards accept exactly the reference interval and refuse with ValueError")
    ck.trusted += ["CPython semantics of struct.pack/unpack('!H'), <<, >>, &, | on ints as modelled in spverif/bits.py",
                   "reference table SPH_SPEC in spverif/props/c01.py (written from CCSDS 133.0-B-2 4.1.3)"]
    ck.assumptions += ["field values are within their declared widths when packing (version 3 bits, enums are members); "
                       "for apid/seq_count/data_len this is established by G-RANGE"]
    st = P.stats()
    ck.floor("modules", st["modules"], 40)

    hdr_q = P.cls(f"{MOD}.SpacePacketHeader").qual
    # ---------------------------------------------------------------- W-PACK header
    it = new_interp(P)
    env = Env()
    kw = sph_syms(P)
    hdr = R.run_guarded(ck, "W-PACK", "SpacePacketHeader.__init__", "construct", lambda: construct(it, env, f"{MOD}.SpacePacketHeader", kw))
    if hdr is not None:
        ctor_facts = list(env.facts)
        ctor_raises = list(it.raises)
        packed = R.run_guarded(ck, "W-PACK", "SpacePacketHeader.pack", "pack", lambda: call_method(it, env, hdr, "pack"))
        if packed is not None:
            R.check_pack_layout(ck, it, env, packed, SPH_SPEC, "SpacePacketHeader.pack", "six header octets == reference layout")
        # L-LEN
        pl = R.run_guarded(ck, "L-LEN", "SpacePacketHeader.packet_len", "packet_len", lambda: read_path(it, env, hdr, "packet_len"))
        if pl is not None:
            R.check_lin_equal(ck, pl, Lin({kw["data_len"]: 1}, 7), "SpacePacketHeader.packet_len", "packet_len == data_len + 7")
        hl = read_path(it, env, hdr, "header_len")
        R.check_lin_equal(ck, hl, Lin({}, 6), "SpacePacketHeader.header_len", "header_len == 6", rule="K-CONST")
        # G-RANGE on the constructor
        R.check_range_guard(ck, it, ctor_facts, ctor_raises, {n: (kw[n], lo, hi) for n, (lo, hi) in RANGES.items()},
                            "SpacePacketHeader.__init__")
        # getters return the constructor arguments
        for name, getter in (("apid", "apid"), ("seq_count", "seq_count"), ("seq_flags", "seq_flags"),
                             ("packet_type", "packet_type"), ("sec_header_flag", "sec_header_flag"),
                             ("ccsds_version", "ccsds_version"), ("data_len", "data_len")):
            v = read_path(it, env, hdr, getter)
            if v == kw[name]:
                ck.proved("W-VAL", f"SpacePacketHeader.{getter}", f"getter {getter} returns constructor argument {name}", nontrivial=False)
            else:
                ck.refuted("W-VAL", f"SpacePacketHeader.{getter}", f"getter {getter} returns constructor argument {name}", f"returns {show(v)[:100]}")

    # ---------------------------------------------------------------- L-LEN helper
    it = new_interp(P); env = Env()
    lf = sym("len_field", ty="int")
    r = R.run_guarded(ck, "L-LEN", "get_total_space_packet_len_from_len_field", "call",
                      lambda: it.call_func(P.func(f"{MOD}.get_total_space_packet_len_from_len_field"), [lf], {}, env))
    if r is not None:
        R.check_lin_equal(ck, r, Lin({lf: 1}, 7), "get_total_space_packet_len_from_len_field", "total length == len_field + 7")

    # ---------------------------------------------------------------- W-UNPACK header
    it = new_interp(P); env = Env()
    data = sym("data", ty="bytes")
    dec = R.run_guarded(ck, "W-UNPACK", "SpacePacketHeader.unpack", "unpack",
                        lambda: call_method(it, env, T("class", hdr_q), "unpack", [data]))
    if dec is not None:
        off = 0
        for f in SPH_SPEC:
            v = read_path(it, env, dec, f.name)
            R.check_field_bits(ck, it, v, data_bits_be("data", off, f.width), "SpacePacketHeader.unpack",
                               f"decoded {f.name} == bits {off}..{off + f.width - 1} of the input")
            off += f.width
        # refusal of short input, and nothing longer is needed
        short = [r for r in it.raises if not r["caught"] and r["kind"] == "explicit"]
        from ..linear import entails
        from ..terms import length
        need = binop(">=", length(data), C(6))
        st, m = D.prove(env.facts, need)
        ck.verdict3("G-REFUSE", "SpacePacketHeader.unpack", "input shorter than 6 octets is refused", st, m, f"normal return implies {show(need)}")
        for r in short:
            if it.exc_matches(r["exc"], ("ValueError",)):
                ck.proved("G-REFUSE", "SpacePacketHeader.unpack", f"refusal `{r['text'][:60]}` is a ValueError", r["exc"], nontrivial=False)
            else:
                ck.refuted("G-REFUSE", "SpacePacketHeader.unpack", f"refusal `{r['text'][:60]}` is a ValueError", r["exc"])
    D.check_short_refusals_justified(ck, it, "SpacePacketHeader.unpack", "data", C(6), "the 6 header octets (any octet string of length >= 6 is decoded)")
    ck.floor("reads in SpacePacketHeader.unpack", len(it.reads), 4)

    # ---------------------------------------------------------------- W-VAL PacketId / PacketSeqCtrl
    pt = P.cls(f"{MOD}.PacketType").qual
    sf = P.cls(f"{MOD}.SequenceFlags").qual
    it = new_interp(P); env = Env()
    pid = construct(it, env, f"{MOD}.PacketId", dict(ptype=sym("ptype", ty=pt), sec_header_flag=sym("sec_header_flag", ty="bool"), apid=sym("apid", ty="int")))
    pid_facts, pid_raises = list(env.facts), list(it.raises)
    raw = call_method(it, env, pid, "raw")
    exp = field_bits("apid", 11) + field_bits("sec_header_flag", 1) + field_bits("ptype", 1)
    R.check_field_bits(ck, it, raw, exp, "PacketId.raw", "raw() == ptype<<12 | sec_header_flag<<11 | apid (13 bits)", rule="W-VAL",
                       ctx=BitCtx(widths={"apid": 11}, enum_width=R.enum_width_fn(it)))
    R.check_range_guard(ck, it, pid_facts, pid_raises, {"apid": (sym("apid", ty="int"), 0, 2047)}, "PacketId.__init__")
    it = new_interp(P); env = Env()
    rawsym = sym("raw", ty="int")
    pid2 = call_method(it, env, T("class", P.cls(f"{MOD}.PacketId").qual), "from_raw", [rawsym])
    ctx = lambda: BitCtx(widths={"raw": 16}, enum_width=R.enum_width_fn(it))
    R.check_field_bits(ck, it, read_path(it, env, pid2, "apid"), [("f", "raw", j) for j in range(11)], "PacketId.from_raw", "apid == raw[10..0]", rule="W-VAL", ctx=ctx())
    R.check_field_bits(ck, it, read_path(it, env, pid2, "sec_header_flag"), [("f", "raw", 11)], "PacketId.from_raw", "sec_header_flag == raw[11]", rule="W-VAL", ctx=ctx())
    R.check_field_bits(ck, it, read_path(it, env, pid2, "ptype"), [("f", "raw", 12)], "PacketId.from_raw", "ptype == raw[12]", rule="W-VAL", ctx=ctx())

    it = new_interp(P); env = Env()
    psc = construct(it, env, f"{MOD}.PacketSeqCtrl", dict(seq_flags=sym("seq_flags", ty=sf), seq_count=sym("seq_count", ty="int")))
    psc_facts, psc_raises = list(env.facts), list(it.raises)
    raw = call_method(it, env, psc, "raw")
    R.check_field_bits(ck, it, raw, field_bits("seq_count", 14) + field_bits("seq_flags", 2), "PacketSeqCtrl.raw",
                       "raw() == seq_flags<<14 | seq_count", rule="W-VAL", ctx=BitCtx(widths={"seq_count": 14}, enum_width=R.enum_width_fn(it)))
    R.check_range_guard(ck, it, psc_facts, psc_raises, {"seq_count": (sym("seq_count", ty="int"), 0, 16383)}, "PacketSeqCtrl.__init__")
    it = new_interp(P); env = Env()
    psc2 = call_method(it, env, T("class", P.cls(f"{MOD}.PacketSeqCtrl").qual), "from_raw", [rawsym])
    R.check_field_bits(ck, it, read_path(it, env, psc2, "seq_count"), [("f", "raw", j) for j in range(14)], "PacketSeqCtrl.from_raw", "seq_count == raw[13..0]", rule="W-VAL", ctx=ctx())
    R.check_field_bits(ck, it, read_path(it, env, psc2, "seq_flags"), [("f", "raw", 14), ("f", "raw", 15)], "PacketSeqCtrl.from_raw", "seq_flags == raw[15..14]", rule="W-VAL", ctx=ctx())

    # ---------------------------------------------------------------- W-VAL free helpers
    it = new_interp(P); env = Env()
    a = dict(packet_type=sym("packet_type", ty=pt), secondary_header_flag=sym("secondary_header_flag", ty="bool"),
             apid=sym("apid", ty="int"), version=sym("version", ty="int"))
    r = R.run_guarded(ck, "W-VAL", "get_space_packet_id_bytes", "call", lambda: it.call_func(P.func(f"{MOD}.get_space_packet_id_bytes"), [], a, env))
    if r is not None and r.k == "tuple" and len(r.a[0]) == 2:
        cx = lambda: BitCtx(widths={"apid": 11, "version": 3}, enum_width=R.enum_width_fn(it))
        R.check_field_bits(ck, it, r.a[0][0], [("f", "apid", 8), ("f", "apid", 9), ("f", "apid", 10), ("f", "secondary_header_flag", 0),
                                               ("f", "packet_type", 0), ("f", "version", 0), ("f", "version", 1), ("f", "version", 2)],
                           "get_space_packet_id_bytes", "first octet == version|type|flag|apid[10..8]", rule="W-VAL", ctx=cx())
        R.check_field_bits(ck, it, r.a[0][1], [("f", "apid", j) for j in range(8)], "get_space_packet_id_bytes", "second octet == apid[7..0]", rule="W-VAL", ctx=cx())
    elif r is not None:
        ck.refuted("W-VAL", "get_space_packet_id_bytes", "returns two octets", show(r)[:100])
    it = new_interp(P); env = Env()
    r = R.run_guarded(ck, "W-VAL", "get_sp_packet_id_raw", "call", lambda: it.call_func(P.func(f"{MOD}.get_sp_packet_id_raw"), [], dict(packet_type=a["packet_type"], secondary_header_flag=a["secondary_header_flag"], apid=a["apid"]), env))
    if r is not None:
        R.check_field_bits(ck, it, r, field_bits("apid", 11) + field_bits("secondary_header_flag", 1) + field_bits("packet_type", 1),
                           "get_sp_packet_id_raw", "== ptype<<12 | flag<<11 | apid", rule="W-VAL", ctx=BitCtx(widths={"apid": 11}, enum_width=R.enum_width_fn(it)))
    it = new_interp(P); env = Env()
    r = R.run_guarded(ck, "W-VAL", "get_sp_psc_raw", "call", lambda: it.call_func(P.func(f"{MOD}.get_sp_psc_raw"), [], dict(seq_flags=sym("seq_flags", ty=sf), seq_count=sym("seq_count", ty="int")), env))
    if r is not None:
        R.check_field_bits(ck, it, r, field_bits("seq_count", 14) + field_bits("seq_flags", 2), "get_sp_psc_raw", "== seq_flags<<14 | seq_count",
                           rule="W-VAL", ctx=BitCtx(widths={"seq_count": 14}, enum_width=R.enum_width_fn(it)))
    it = new_interp(P); env = Env()
    rp = sym("raw_packet", ty="bytes")
    r = R.run_guarded(ck, "W-VAL", "get_apid_from_raw_space_packet", "call", lambda: it.call_func(P.func(f"{MOD}.get_apid_from_raw_space_packet"), [rp], {}, env))
    if r is not None:
        R.check_field_bits(ck, it, r, data_bits_be("raw_packet", 5, 11), "get_apid_from_raw_space_packet", "== bits 5..15 of the packet", rule="W-VAL")

    # ---------------------------------------------------------------- G-RANGE: every other writer
    check_other_writers(ck, P)
    # ---------------------------------------------------------------- SpacePacket.pack
    check_space_packet_pack(ck, P)


def check_other_writers(ck, P):
    """every setter named apid / seq_count / data_len (on any class) must end in a validated store"""
    n = 0
    for cq, c in P.classes.items():
        for name, (lo, hi) in RANGES.items():
            st = c.setters.get(name)
            if st is None:
                continue
            n += 1
            it = new_interp(P); env = Env()
            fn = f"{c.name}.{name} setter"
            try:
                obj = it.new_object(cq, symbolic=True, root="self", path="self")
                v = sym("value", ty="int")
                it.call_func(st, [obj, v], {}, env)
            except Unsupported as e:
                ck.unknown("G-RANGE", fn, "setter analysed", str(e))
                continue
            R.check_range_guard(ck, it, env.facts, it.raises, {name: (v, lo, hi)}, fn)
            R.check_refusal_atomic(ck, it, fn, rule="G-RANGE")
    ck.floor("apid/seq_count/data_len setters", n, 7)
    # raw storage written outside the validating setters
    storage = {}
    for name in RANGES:
        for cls in ("PacketId", "PacketSeqCtrl", "SpacePacketHeader"):
            c = P.cls(f"{MOD}.{cls}")
            st = c.setters.get(name)
            if st is None:
                continue
            for node in ast.walk(st.node):
                if isinstance(node, ast.Attribute) and isinstance(node.ctx, ast.Store) and isinstance(node.value, ast.Name) and node.value.id == "self":
                    storage[node.attr] = (c.qual, st.qual)
    cnt = 0
    for fq, f in P.funcs.items():
        for node in ast.walk(f.node):
            if isinstance(node, ast.Attribute) and isinstance(node.ctx, ast.Store) and node.attr in storage:
                owner_cls, owner_fn = storage[node.attr]
                if fq == owner_fn:
                    cnt += 1
                    continue
                # only a problem if the receiver can be an instance of the owning class
                if f.cls and owner_cls in P.mro(f.cls) or not f.cls or True:
                    ck.refuted("G-RANGE", f.short, f"store into validated storage `{ast.unparse(node)}` outside its validating setter",
                               f"{node.attr} is written by {f.short}:{node.lineno} without the range check of {owner_fn}")
    ck.proved("G-RANGE", "spacepackets", f"raw storage {sorted(storage)} is written only by the validating setters", f"{cnt} validated store sites")
    ck.floor("validated storage attributes", len(storage), 3)


def check_space_packet_pack(ck, P):
    for flag in (True, False):
        for ud_none in (False, True):
            for sh_none in (False, True):
                it = new_interp(P); env = Env()
                kw = sph_syms(P)
                kw["sec_header_flag"] = C(flag)
                what = f"SpacePacket.pack with sec_header_flag={flag}, sec_header={'None' if sh_none else 'bytes'}, user_data={'None' if ud_none else 'bytes'}"
                try:
                    hdr = construct(it, env, f"{MOD}.SpacePacketHeader", kw)
                    sp = construct(it, env, f"{MOD}.SpacePacket", dict(sp_header=hdr, sec_header=NONE if sh_none else sym("sec_header", ty="bytes"),
                                                                        user_data=NONE if ud_none else sym("user_data", ty="bytes")))
                    n0 = len(it.raises)
                    packed = call_method(it, env, sp, "pack")
                except Unsupported as e:
                    ck.unknown("W-PACK", "SpacePacket.pack", what, str(e))
                    continue
                must_refuse = (flag and sh_none) or (not flag and ud_none)
                if env.dead:
                    rs = [r for r in it.raises[n0:] if not r["caught"]]
                    ok = must_refuse and rs and all(it.exc_matches(r["exc"], ("ValueError",)) for r in rs)
                    if ok:
                        ck.proved("G-REFUSE", "SpacePacket.pack", what + " is refused with ValueError", rs[0]["text"][:80])
                    else:
                        ck.refuted("G-REFUSE", "SpacePacket.pack", what + " packs", f"always raises {[r['exc'] for r in rs]}")
                    continue
                if must_refuse:
                    ck.refuted("G-REFUSE", "SpacePacket.pack", what + " is refused with ValueError", f"packs {show(packed)[:100]}")
                    continue
                spec = [F("ccsds_version", 3), F("packet_type", 1), K(1, int(flag)), F("apid", 11), F("seq_flags", 2), F("seq_count", 14), F("data_len", 16)]
                if flag:
                    spec.append(B("sec_header"))
                if not ud_none:
                    spec.append(B("user_data"))
                R.check_pack_layout(ck, it, env, packed, spec, "SpacePacket.pack", what + " == header | sec_header | user_data")
