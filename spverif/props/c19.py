"""C19 - sequence counters count modulo 2^width, stay in range, survive restarts."""
from __future__ import annotations

import ast

from ..index import Program
from ..gti import new_interp, call_method, construct, read_path, Env, Unsupported
from ..terms import T, C, sym, show, binop, length, NONE, substitute, evaluate, EvalError, subterms
from ..linear import Lin, linearize
from .. import rules as R
from .. import decode_rules as D

SQ = "seqcount"
WIDTHS_QUICK = (1, 2, 3, 4, 5, 8, 14)
WIDTHS_THOROUGH = tuple(range(1, 17))


def values_for(w, tier):
    M = 2 ** w - 1
    if w <= 8 or tier == "thorough" and w <= 12:
        return list(range(0, M + 1))
    return sorted({0, 1, 2, M // 2, M // 2 + 1, M - 2, M - 1, M})


def check_successor(ck, fn, what, next_term, ret_term, cname, wname, tier):
    """the stored next value == (c+1) mod 2^w and the returned value == c, for every c in [0, 2^w-1] (finite
    case analysis on the extracted terms; complete for the listed widths)"""
    n = 0
    bad = None
    for w in (WIDTHS_THOROUGH if tier == "thorough" else WIDTHS_QUICK):
        for c in values_for(w, tier):
            env = {cname: c, wname: w}
            try:
                nv = evaluate(next_term, env)
                rv = evaluate(ret_term, env) if ret_term is not None else c
            except EvalError as e:
                ck.unknown("I-INT", fn, what, f"extracted term not evaluable: {e}: {show(next_term)[:100]}")
                return 0
            n += 1
            if nv != (c + 1) % (2 ** w) or rv != c:
                bad = bad or (w, c, nv, rv)
    if bad:
        w, c, nv, rv = bad
        ck.refuted("I-INT", fn, what, f"width {w}, current {c}: stores {nv} (reference {(c + 1) % 2 ** w}), returns {rv} (reference {c}); "
                   f"next = {show(next_term)[:120]}", witness={"width": w, "count": c})
    else:
        ck.proved("I-INT", fn, what, f"{n} (width, count) pairs evaluated on next = {show(next_term)[:100]}")
    return n


def run(ck):
    P = Program(ck.repo)
    ck.explanation = (
        "Static check of the sequence-count providers. The successor function of both providers is extracted as a closed term "
        "of the current count c and the width w by abstract interpretation, and decided against (c+1) mod 2^w by finite case "
        "analysis over every count for widths up to 8 (boundary counts for wider ones, all up to 16 in the thorough tier); the "
        "returned value must be the old count; the initial state must be 0 (in memory and in the created file). For the "
        "file-backed provider the accepted interval of check_count is decided from its guard facts (exactly [0, 2^w-1], "
        "ValueError otherwise, non-digits refused), the write-back order (read, seek(0), write successor, return old value, "
        "all inside the with-block that closes the file) by a syntactic must-order check, and the missing-file refusals "
        "(FileNotFoundError) from the raise log. One step is inductive: every stored value lies in the accepted interval.")
    for r, t in (("I-INT", "successor == (c+1) mod 2^w, returns old value"), ("K-CONST", "initial count 0"), ("G-RANGE", "check_count accepts exactly [0, 2^w-1]"),
                 ("G-REFUSE", "missing file => FileNotFoundError, junk => ValueError"), ("P-MUST", "file write-back order"), ("D-TABLE", "__next__ -> get_and_increment, PUS width 14")):
        ck.rule(r, t)
    ck.trusted += ["Python file semantics (a with-block closes, hence flushes, the file)", "int()/str.isdigit()/rstrip() as documented"]
    ck.assumptions += ["crash points inside a call and OS-level durability are not modelled (the property speaks of points between calls)"]
    nev = 0
    # ---------------------------------------------------------------- in-memory provider
    it = new_interp(P); env = Env()
    w = sym("w", ty="int")
    prov = R.run_guarded(ck, "K-CONST", "SeqCountProvider.__init__", "construct", lambda: construct(it, env, f"{SQ}.SeqCountProvider", dict(bit_width=w)))
    if prov is not None:
        c0 = read_path(it, env, prov, "count")
        ck.verdict("K-CONST", "SeqCountProvider.__init__", "a new provider starts at 0", [] if c0 == C(0) else [show(c0)[:40]], "0")
        ck.verdict("K-CONST", "SeqCountProvider.__init__", "max_bit_width is the constructor argument", [] if read_path(it, env, prov, "max_bit_width") == w else ["differs"], "identity", nontrivial=False)
        for entry in ("get_and_increment", "__next__"):
            c = sym("c", ty="int")
            it.setattr(prov, "count", c, env, None, None)
            r = R.run_guarded(ck, "I-INT", f"SeqCountProvider.{entry}", "call", lambda: call_method(it, env, prov, entry))
            if r is None:
                continue
            nxt = read_path(it, env, prov, "count")
            nev += check_successor(ck, f"SeqCountProvider.{entry}", "stored count == (count+1) mod 2^width and the old count is returned", nxt, r, "c", "w", ck.tier)
    # ---------------------------------------------------------------- file provider: successor
    it = new_interp(P); env = Env()
    fp = it.new_object(P.cls(f"{SQ}.FileSeqCountProvider").qual, symbolic=True, root="self", path="self")
    env.heap[(fp.a[0], "_max_bit_width")] = w
    c = sym("c", ty="int")
    r = R.run_guarded(ck, "I-INT", "FileSeqCountProvider._increment_with_rollover", "call", lambda: call_method(it, env, fp, "_increment_with_rollover", [c]))
    if r is not None:
        nev += check_successor(ck, "FileSeqCountProvider._increment_with_rollover", "successor == (count+1) mod 2^width", r, None, "c", "w", ck.tier)
    # ---------------------------------------------------------------- check_count: accepted interval
    it = new_interp(P); env = Env()
    fp = it.new_object(P.cls(f"{SQ}.FileSeqCountProvider").qual, symbolic=True, root="self", path="self")
    env.heap[(fp.a[0], "_max_bit_width")] = w
    line = sym("line", ty="str")
    ret = R.run_guarded(ck, "G-RANGE", "FileSeqCountProvider.check_count", "call", lambda: call_method(it, env, fp, "check_count", [line]))
    if ret is not None:
        fn = "FileSeqCountProvider.check_count"
        v = sym("v", ty="int")
        facts = [substitute(f, {ret: v}) for f in env.facts]
        digit_guard = [f for f in env.facts if any(s.k == "call" and s.a[0] == "isdigit" for s in subterms(f))]
        ck.verdict("G-REFUSE", fn, "content that is not all digits is refused", [] if digit_guard else ["no isdigit() guard dominates the return"], show(digit_guard[0])[:60] if digit_guard else "")
        bad = None
        n = 0
        for k in (WIDTHS_THOROUGH if ck.tier == "thorough" else WIDTHS_QUICK):
            M = 2 ** k - 1
            for val in sorted({-2, -1, 0, 1, M - 1, M, M + 1, M + 2, 2 * M + 1}):
                acc = True
                for f in facts:
                    try:
                        if not evaluate(f, {"v": val, "w": k}):
                            acc = False
                            break
                    except EvalError:
                        continue
                n += 1
                if acc != (0 <= val <= M):
                    bad = bad or (k, val, acc)
        nev += n
        if bad:
            ck.refuted("G-RANGE", fn, "accepted counts are exactly [0, 2^width - 1]", f"width {bad[0]}: value {bad[1]} is {'accepted' if bad[2] else 'refused'}", witness={"width": bad[0], "value": bad[1]})
        else:
            ck.proved("G-RANGE", fn, "accepted counts are exactly [0, 2^width - 1]", f"{n} (width, value) pairs against the guard facts {[show(f)[:40] for f in facts][-3:]}")
        for x in it.raises:
            if x["kind"] == "explicit" and not x["caught"]:
                ck.verdict("G-REFUSE", fn, f"refusal `{x['text'][:50]}` is a ValueError", [] if it.exc_matches(x["exc"], ("ValueError",)) else [x["exc"]], x["exc"], nontrivial=False)
        ok = ret.k == "call" and ret.a[0] == "int"
        ck.verdict("W-VAL", fn, "returns int(line.rstrip())", [] if ok else [show(ret)[:60]], show(ret)[:50], nontrivial=False)
    # ---------------------------------------------------------------- missing file
    for meth in ("current", "get_and_increment"):
        it = new_interp(P); env = Env()
        fp = it.new_object(P.cls(f"{SQ}.FileSeqCountProvider").qual, symbolic=True, root="self", path="self")
        env.heap[(fp.a[0], "_max_bit_width")] = w
        r = R.run_guarded(ck, "G-REFUSE", f"FileSeqCountProvider.{meth}", "call", lambda: call_method(it, env, fp, meth))
        # raised by the method itself or by a helper it calls
        fnf = [x for x in it.raises if x["kind"] == "explicit" and x["exc"] == "FileNotFoundError" and not x["caught"]]
        ok = bool(fnf) and any("exists" in show(f) for f in fnf[0]["facts"])
        ck.verdict("G-REFUSE", f"FileSeqCountProvider.{meth}", "a missing file is reported with FileNotFoundError before anything is read", [] if ok else ["no FileNotFoundError under `not exists()`"],
                   "raise guarded by not file_name.exists()")
        exists_fact = [f for f in env.facts if "exists" in show(f)]
        ck.verdict("G-REFUSE", f"FileSeqCountProvider.{meth}", "normal return implies the file existed", [] if exists_fact else ["no exists() fact on return"], show(exists_fact[0])[:50] if exists_fact else "", nontrivial=False)
        if r is not None and meth == "current":
            ok = r.k == "call" and r.a[0] == "int"
            ck.verdict("W-VAL", "FileSeqCountProvider.current", "returns the validated count read from the file", [] if ok else [show(r)[:60]], show(r)[:50], nontrivial=False)
    # ---------------------------------------------------------------- write-back order (syntactic must-order)
    f = P.func(f"{SQ}.FileSeqCountProvider.get_and_increment")
    probs = []
    withs = [n for n in f.node.body if isinstance(n, ast.With)]
    if len(withs) != 1:
        probs.append(f"{len(withs)} with-blocks")
    else:
        wn = withs[0]
        ctx = ast.unparse(wn.items[0].context_expr)
        if "open(" not in ctx or "r+" not in ctx:
            probs.append(f"file opened as `{ctx}` (needs read/write without truncation)")
        fv = wn.items[0].optional_vars.id if isinstance(wn.items[0].optional_vars, ast.Name) else None
        import re as _re
        kinds = []
        var = None
        defs = {}           # local name -> expanded right-hand side (plain local definitions are looked through)

        def expand(txt):
            for _ in range(4):
                for nm, rhs in defs.items():
                    txt = _re.sub(rf"\b{_re.escape(nm)}\b", lambda _m, _r=rhs: f"({_r})", txt)
            return txt
        for st in wn.body:
            s = ast.unparse(st)
            sx = expand(s) if not isinstance(st, ast.Assign) else s
            if isinstance(st, ast.Assign) and "check_count" in s and f"{fv}.readline()" in expand(ast.unparse(st.value)) and isinstance(st.targets[0], ast.Name):
                kinds.append("read"); var = st.targets[0].id
            elif isinstance(st, ast.Assign) and len(st.targets) == 1 and isinstance(st.targets[0], ast.Name) and f"{fv}." not in ast.unparse(st.value):
                defs[st.targets[0].id] = expand(ast.unparse(st.value))        # neutral local definition
            elif isinstance(st, ast.Assign) and len(st.targets) == 1 and isinstance(st.targets[0], ast.Name) and ast.unparse(st.value) == f"{fv}.readline()":
                defs[st.targets[0].id] = f"{fv}.readline()"
            elif isinstance(st, ast.Expr) and sx.replace(" ", "").replace("(0)", "0") in (f"{fv}.seek0", f"{fv}.seek(0)") or (isinstance(st, ast.Expr) and s.replace(" ", "") == f"{fv}.seek(0)"):
                kinds.append("seek")
            elif isinstance(st, ast.Expr) and s.startswith(f"{fv}.write(") and "_increment_with_rollover" in sx and var and _re.search(rf"_increment_with_rollover\(\(?{var}\)?\)", sx) and "\\n" in sx:
                kinds.append("write")
            elif isinstance(st, ast.Return) and var and expand(ast.unparse(st.value)).strip("()") == var:
                kinds.append("return")
            elif isinstance(st, ast.Expr) and s.replace(" ", "") == f"{fv}.truncate()":
                pass        # cut at the current position, i.e. right after the text just written
            elif isinstance(st, ast.Expr) and s.startswith(f"{fv}.truncate(") and "write" in kinds:
                # truncate(n) after the write: n must be the length of the text just written
                wr = [x for x in wn.body if isinstance(x, ast.Expr) and ast.unparse(x).startswith(f"{fv}.write(")]
                written = expand(ast.unparse(wr[-1].value.args[0])) if wr and wr[-1].value.args else None
                arg = expand(ast.unparse(st.value.args[0])) if st.value.args else ""
                if written is None or arg.replace(" ", "") not in (f"len({written})".replace(" ", ""), f"len(({written}))".replace(" ", "")):
                    probs.append(f"`{s}` cuts the file to a length other than that of the text just written ({arg}); the stored count is damaged when the "
                                 "number of digits changes")
            else:
                kinds.append("other:" + s[:30])
        if any(k.startswith("other:") for k in kinds):
            ck.unknown("P-MUST", "FileSeqCountProvider.get_and_increment", "read count, seek(0), write successor + newline, return old count - in this order inside the with-block",
                       f"statement not recognised: {[k for k in kinds if k.startswith('other:')][:2]}")
            kinds = None
        elif kinds != ["read", "seek", "write", "return"]:
            probs.append(f"order of the file operations in the with-block is {kinds}; reference read, seek(0), write(successor), return old")
        outer_rets = [n for n in f.node.body if isinstance(n, ast.Return)]
        if outer_rets and kinds == ["read", "seek", "write"] and len(outer_rets) == 1 and f.node.body[-1] is outer_rets[0] \
                and var and ast.unparse(outer_rets[0].value) == var:
            kinds = ["read", "seek", "write", "return"]      # the old count is returned right after the with-block: same order
            probs[:] = [p_ for p_ in probs if not p_.startswith("order of the file operations")]
        elif outer_rets:
            probs.append("a return outside the with-block")
    if not (len(withs) == 1 and kinds is None):
        ck.verdict("P-MUST", "FileSeqCountProvider.get_and_increment", "read count, seek(0), write successor + newline, return old count - in this order inside the with-block", probs, "straight-line block")
    # ---------------------------------------------------------------- readers agree with the writer about what is stored
    # get_and_increment overwrites the count in place (seek(0) + write) without truncating, so after a shorter count has
    # replaced a longer one stale characters follow the first line: the stored count is the FIRST LINE only
    gi = ast.unparse(P.func(f"{SQ}.FileSeqCountProvider.get_and_increment").node)
    truncates = ".truncate(" in gi or "'w'" in gi or '"w"' in gi
    for meth in ("current", "get_and_increment"):
        fnode = P.func(f"{SQ}.FileSeqCountProvider.{meth}").node
        calls = [n for n in ast.walk(fnode) if isinstance(n, ast.Call) and isinstance(n.func, ast.Attribute) and n.func.attr == "check_count"]
        for c in calls:
            arg = ast.unparse(c.args[0]) if c.args else ""
            if c.args and isinstance(c.args[0], ast.Name):
                # a local that holds what was read: look through its definition
                dfs = [n_ for n_ in ast.walk(fnode) if isinstance(n_, ast.Assign) and len(n_.targets) == 1 and isinstance(n_.targets[0], ast.Name) and n_.targets[0].id == c.args[0].id]
                if len(dfs) == 1:
                    arg = ast.unparse(dfs[0].value)
            what = f"{meth} validates the stored count, i.e. the first line of the file"
            first_line = (arg.endswith(".readline()") or arg.endswith(".readlines()[0]") or arg.endswith(".splitlines()[0]") or arg.startswith("next("))
            whole = arg.endswith(".read()") or arg.endswith(".read_text()")
            if first_line or (whole and truncates):
                ck.proved("P-MUST", f"FileSeqCountProvider.{meth}", what, f"check_count({arg})")
            elif whole:
                ck.refuted("P-MUST", f"FileSeqCountProvider.{meth}", what, f"check_count({arg}) parses the whole file although the writer overwrites in place without truncating: "
                           "after the rollover 127 -> 0 of a 7-bit counter the file holds '0\\n7\\n' and the valid stored count 0 is refused", witness={"file_content": "0\n7\n", "width": 7})
            else:
                ck.unknown("P-MUST", f"FileSeqCountProvider.{meth}", what, f"unrecognised way of reading the count: check_count({arg})")
        if not calls:
            ck.unknown("P-MUST", f"FileSeqCountProvider.{meth}", "the stored count is validated", "no check_count call")
    f = P.func(f"{SQ}.FileSeqCountProvider.create_new")
    s = ast.unparse(f.node)
    ok = "'w'" in s and ".write('0\\n')" in s
    ck.verdict("K-CONST", "FileSeqCountProvider.create_new", "a new file holds the count 0", [] if ok else [s[-80:]], "write('0\\n')")
    f = P.func(f"{SQ}.FileSeqCountProvider.__init__")
    s = ast.unparse(f.node)
    ok = "if not self.file_name.exists():" in s and "self.create_new()" in s and s.count("create_new") == 1
    ck.verdict("K-CONST", "FileSeqCountProvider.__init__", "an existing file is never reset by a new instance", [] if ok else ["create_new is not guarded by `not exists()`"], "guarded")
    # ---------------------------------------------------------------- wrappers
    it = new_interp(P); env = Env()
    pp = R.run_guarded(ck, "D-TABLE", "PusFileSeqCountProvider.__init__", "construct",
                       lambda: construct(it, env, f"{SQ}.PusFileSeqCountProvider", dict(file_name=it.symbolic_value("file_name", None))))
    if pp is not None:
        mb = read_path(it, env, pp, "max_bit_width")
        ck.verdict("D-TABLE", "PusFileSeqCountProvider.__init__", "the PUS provider counts in 14 bits", [] if mb == C(14) else [show(mb)[:40]], "14")
    nx = P.func(f"{SQ}.ProvidesSeqCount.__next__")
    s = ast.unparse(nx.node.body[-1])
    ck.verdict("D-TABLE", "ProvidesSeqCount.__next__", "next(provider) is get_and_increment()", [] if s == "return self.get_and_increment()" else [s], s, nontrivial=False)
    ck.floor("successor / interval evaluations", nev, 200)
