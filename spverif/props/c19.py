"""C19 - sequence counters count modulo 2^width, stay in range, survive restarts."""
from __future__ import annotations

import ast

from ..index import Program
from ..gti import new_interp, call_method, construct, read_path, Env, Unsupported
from ..terms import T, C, sym, show, binop, length, NONE, substitute, evaluate, EvalError, subterms
from ..linear import Lin, linearize
from .. import rules as R
from .. import decode_rules as D

SQ = "seqcount"
WIDTHS_QUICK = (1, 2, 3, 4, 5, 8, 14)
WIDTHS_THOROUGH = tuple(range(1, 17))


def values_for(w, tier):
    M = 2 ** w - 1
    if w <= 8 or tier == "thorough" and w <= 12:
        return list(range(0, M + 1))
    return sorted({0, 1, 2, M // 2, M // 2 + 1, M - 2, M - 1, M})


def check_successor(ck, fn, what, next_term, ret_term, cname, wname, tier):
    """the stored next value == (c+1) mod 2^w and the returned value == c, for every c in [0, 2^w-1] (finite
    case analysis on the extracted terms; complete for the listed widths)"""
    n = 0
    bad = None
    for w in (WIDTHS_THOROUGH if tier == "thorough" else WIDTHS_QUICK):
        for c in values_for(w, tier):
            env = {cname: c, wname: w}
            try:
                nv = evaluate(next_term, env)
                rv = evaluate(ret_term, env) if ret_term is not None else c
            except EvalError as e:
                ck.unknown("I-INT", fn, what, f"extracted term not evaluable: {e}: {show(next_term)[:100]}")
                return 0
            n += 1
            if nv != (c + 1) % (2 ** w) or rv != c:
                bad = bad or (w, c, nv, rv)
    if bad:
        w, c, nv, rv = bad
        ck.refuted("I-INT", fn, what, f"width {w}, current {c}: stores {nv} (reference {(c + 1) % 2 ** w}), returns {rv} (reference {c}); "
                   f"next = {show(next_term)[:120]}", witness={"width": w, "count": c})
    else:
        ck.proved("I-INT", fn, what, f"{n} (width, count) pairs evaluated on next = {show(next_term)[:100]}")
    return n


def str_parts(t):
    """a string-valued term as a list of ('lit', text) / ('val', term) pieces (str(x) of an integer term x), or None"""
    if t.k == "const" and isinstance(t.a[0], str):
        return [("lit", t.a[0])] if t.a[0] else []
    if t.k == "call" and t.a[0] == "str" and len(t.a[1]) == 1:
        return [("val", t.a[1][0])]
    if t.k == "call" and t.a[0] == "fstring" and t.a[1]:
        out = []
        for p_ in t.a[1]:
            q = str_parts(p_)
            if q is None:
                return None
            out += q
        return merge_lits(out)
    if t.k == "call" and t.a[0] == ".join" and len(t.a[1]) == 2 and D.is_const(t.a[1][0], "") and t.a[1][1].k in ("tuple", "list"):
        out = []
        for p_ in t.a[1][1].a[0]:
            q = str_parts(p_)
            if q is None:
                return None
            out += q
        return merge_lits(out)
    if t.k == "op" and t.a[0] == "+":
        x, y = str_parts(t.a[1]), str_parts(t.a[2])
        if x is None or y is None:
            return None
        return merge_lits(x + y)
    return None


def merge_lits(parts):
    out = []
    for k, v in parts:
        if k == "val" and v.k == "const" and isinstance(v.a[0], int) and not isinstance(v.a[0], bool):
            k, v = "lit", str(v.a[0])       # str() of a constant integer
        if k == "lit" and out and out[-1][0] == "lit":
            out[-1] = ("lit", out[-1][1] + v)
        else:
            out.append((k, v))
    return out


WRITE_OPS = ("write", "write_text", "writelines", "write_bytes")
READ_OPS = ("readline", "readlines", "read", "read_text", "read_bytes")


def make_file_provider(P, w):
    """(interpreter, env, provider): the provider as its constructor leaves it (so that whatever it caches about the width is
    what it would really hold), with the logs of the construction discarded; a symbolic receiver if that is not possible"""
    it = new_interp(P); env = Env()
    try:
        it.quiet += 1
        try:
            fp = construct(it, env, f"{SQ}.FileSeqCountProvider", dict(max_bit_width=w, file_name=sym("self.file_name", ty=None)))
        finally:
            it.quiet -= 1
        if env.dead:
            raise Unsupported("constructor always raises")
        it.raises.clear(); it.reads.clear(); it.stores.clear(); it.fileops.clear(); it.calls.clear()
        env.facts = []
        env.pc = []
    except Unsupported:
        it = new_interp(P); env = Env()
        fp = it.new_object(P.cls(f"{SQ}.FileSeqCountProvider").qual, symbolic=True, root="self", path="self")
        env.heap[(fp.a[0], "_max_bit_width")] = w
    return it, env, fp


def run_file_method(P, w, meth):
    it, env, fp = make_file_provider(P, w)
    r = call_method(it, env, fp, meth)
    return it, env, r


def open_mode(op):
    """mode string of an open(...) / path.open(...) effect (None = not a constant)"""
    args = list(op["args"])
    if op["recv"] is None:
        args = args[1:]             # builtin open(path, mode)
    m = args[0] if args else op["kw"].get("mode", C("r"))
    return m.a[0] if m.k == "const" and isinstance(m.a[0], str) else None


def opened_by(ops, handle):
    """the open effect that produced a file handle term"""
    for o in ops:
        if o["op"] == "open":
            t = T("call", "open", o["args"], ty="file") if o["recv"] is None else T("call", ".open", (o["recv"],) + o["args"])
            if t == handle:
                return o
    return None


def first_line_read(ops, ret):
    """'first' if what is parsed is the first line of the file, 'whole' if it is the whole content, None if unrecognised"""
    reads = [o for o in ops if o["op"] in READ_OPS]
    if not reads:
        return None, None
    r0 = reads[0]
    if r0["op"] == "readline":
        return "first", r0
    if ret is not None:
        for x in subterms(ret):
            if x.k == "idx" and D.is_const(x.a[1], 0) and x.a[0].k == "call" and x.a[0].a[0] in (".readlines", ".splitlines"):
                return "first", r0
    if r0["op"] in ("read", "read_text", "readlines"):
        return "whole", r0
    return None, r0


def file_effects(ck, P, w):
    """The file provider is run over a symbolic provider object and the file-system effects it performs are taken in program
    order from the interpreter (open / read / seek / write / truncate / close, leaving a with-block), whatever statements or
    helpers produce them."""
    nev = 0
    FP = "FileSeqCountProvider"
    # ---- create_new: the file is (re)written to hold "0\n"
    fn = f"{FP}.create_new"
    try:
        it, env, r = run_file_method(P, w, "create_new")
    except Unsupported as e:
        ck.unknown("K-CONST", fn, "a new file holds the count 0", str(e))
        it = None
    if it is not None:
        writes = [o for o in it.fileops if o["op"] in WRITE_OPS]
        what = "a new file holds the count 0"
        if not writes:
            ck.refuted("K-CONST", fn, what, "nothing is written to the file")
        else:
            bad, unk = [], []
            for o in writes:
                txt = o["args"][0] if o["args"] else None
                if txt is not None and txt.k != "const":
                    pp_ = str_parts(txt)
                    if pp_ is not None and len(pp_) == 1 and pp_[0][0] == "lit":
                        txt = C(pp_[0][1])
                if txt is None or txt.k != "const":
                    unk.append(f"writes {show(txt)[:60] if txt is not None else '?'}")
                elif txt.a[0] not in ("0\n", b"0\n"):
                    bad.append(f"writes {txt.a[0]!r}, reference '0\\n'")
                if o["op"] == "write":
                    op = opened_by(it.fileops, o["recv"])
                    mode = open_mode(op) if op is not None else None
                    if mode is None:
                        unk.append("the mode the file is opened with is not a constant")
                    elif "w" not in mode:
                        (bad if "a" in mode else unk).append(f"the file is opened with mode {mode!r}: earlier content is kept")
            if len(writes) > 1:
                unk.append(f"{len(writes)} writes")
            if bad:
                ck.refuted("K-CONST", fn, what, "; ".join(bad))
            elif unk:
                ck.unknown("K-CONST", fn, what, "; ".join(unk))
            else:
                ck.proved("K-CONST", fn, what, f"{writes[0]['op']}('0\\n') on a truncated file")
    # ---- get_and_increment: read first line, seek(0), write successor + newline, closed before returning, old count returned
    fn = f"{FP}.get_and_increment"
    writer_truncates = False
    try:
        it, env, r = run_file_method(P, w, "get_and_increment")
    except Unsupported as e:
        ck.unknown("P-MUST", fn, "file effects of get_and_increment analysed", str(e))
        it = None
    if it is not None:
        ops = it.fileops
        opens = [o for o in ops if o["op"] == "open"]
        writes = [o for o in ops if o["op"] in WRITE_OPS]
        reads = [o for o in ops if o["op"] in READ_OPS]
        what = "the stored count is replaced in place by its successor: read, seek(0), write successor + newline, file closed before the call returns"
        probs, unk = [], []
        if len(opens) != 1 or len(writes) != 1 or not reads or writes[0]["op"] != "write":
            unk.append(f"{len(opens)} opens, {len(reads)} reads, {len(writes)} writes ({', '.join(o['op'] for o in writes)})")
        else:
            wr, rd = writes[0], reads[0]
            mode = open_mode(opens[0])
            if mode is None:
                unk.append("the open mode is not a constant")
            elif "w" in mode:
                probs.append(f"the file is opened with mode {mode!r}, which empties it before the count is read")
            elif not ("r" in mode and "+" in mode):
                probs.append(f"the file is opened with mode {mode!r}; reference 'r+' (read and write, no truncation)")
            if rd["seq"] > wr["seq"]:
                probs.append("the count is written before it is read")
            seeks = [o for o in ops if o["op"] == "seek" and rd["seq"] < o["seq"] < wr["seq"] and o["recv"] == wr["recv"]]
            if not seeks:
                probs.append("no seek between reading the count and writing its successor: the successor is written behind the old count, which stays the first line")
            elif not (seeks[-1]["args"] and D.is_const(seeks[-1]["args"][0], 0) and len(seeks[-1]["args"]) == 1):
                probs.append(f"seek({', '.join(show(a_)[:20] for a_ in seeks[-1]['args'])}) before the write; reference seek(0)")
            # what is written
            parts = str_parts(wr["args"][0]) if wr["args"] else None
            if parts is None:
                unk.append(f"written text not recognised: {show(wr['args'][0])[:80] if wr['args'] else '?'}")
            elif len(parts) != 2 or parts[0][0] != "val" or parts[1] != ("lit", "\n"):
                probs.append(f"the text written is {[(k_, v_ if k_ == 'lit' else show(v_)[:60]) for k_, v_ in parts]}; reference str(successor) followed by exactly one newline")
            elif r is None or r.k == "const":
                probs.append(f"the call returns {show(r)[:40] if r is not None else 'nothing'}, not the count that was read")
            else:
                c = sym("c", ty="int")
                nxt = substitute(parts[0][1], {r: c})
                if any(x.k == "call" and x.a[0].startswith(".read") for x in subterms(nxt)):
                    unk.append(f"the successor is not a function of the returned count alone: {show(nxt)[:100]}")
                else:
                    nev += check_successor(ck, fn, "the value written back == (returned count + 1) mod 2^width", nxt, None, "c", "w", ck.tier)
            # truncation
            for o in ops:
                if o["op"] != "truncate" or o["recv"] != wr["recv"]:
                    continue
                if not o["args"]:
                    writer_truncates = writer_truncates or o["seq"] > wr["seq"]
                    continue
                if o["seq"] > wr["seq"] and wr["args"] and o["args"][0] == length(wr["args"][0]):
                    writer_truncates = True
                    continue
                if D.is_const(o["args"][0], 0) and o["seq"] < wr["seq"]:
                    continue
                probs.append(f"truncate({show(o['args'][0])[:40]}) cuts the file to a length other than that of the text just written; the stored count is damaged when the "
                             "number of digits changes")
            # closed before returning
            closed = wr["recv"] in wr["withs"] or any(o["op"] == "close" and o["recv"] == wr["recv"] and o["seq"] > wr["seq"] for o in ops)
            if not closed:
                probs.append("the file is neither managed by a with-block nor closed after the write: the new count may not have reached the file when the call returns")
        if probs:
            ck.refuted("P-MUST", fn, what, "; ".join(probs[:4]))
        elif unk:
            ck.unknown("P-MUST", fn, what, "; ".join(unk))
        else:
            ck.proved("P-MUST", fn, what, "effect trace: " + " > ".join(o["op"] for o in ops))
    # ---- readers agree with the writer about what is stored: the count is the FIRST LINE (the writer overwrites in place)
    for meth in ("current", "get_and_increment"):
        fn = f"{FP}.{meth}"
        what = f"{meth} validates the stored count, i.e. the first line of the file"
        try:
            it, env, r = run_file_method(P, w, meth)
        except Unsupported as e:
            ck.unknown("P-MUST", fn, what, str(e))
            continue
        kind, rd = first_line_read(it.fileops, r)
        validated = any(callee.endswith("check_count") for _caller, callee in it.calls)
        if not validated:
            ck.unknown("P-MUST", fn, "the stored count is validated", "no check_count call")
        if kind == "first" or (kind == "whole" and writer_truncates):
            ck.proved("P-MUST", fn, what, f"{rd['op']}()")
        elif kind == "whole":
            ck.refuted("P-MUST", fn, what, f"{rd['op']}() parses the whole file although the writer overwrites in place without truncating: "
                       "after the rollover 127 -> 0 of a 7-bit counter the file holds '0\\n7\\n' and the valid stored count 0 is refused", witness={"file_content": "0\n7\n", "width": 7})
        else:
            ck.unknown("P-MUST", fn, what, "unrecognised way of reading the count: " + (rd["op"] if rd else "no read effect"))
    # ---- a new instance never resets an existing file
    fn = f"{FP}.__init__"
    what = "an existing file is never reset by a new instance"
    it = new_interp(P); env = Env()
    try:
        construct(it, env, f"{SQ}.{FP}", dict(max_bit_width=w, file_name=it.symbolic_value("file_name", None)))
    except Unsupported as e:
        ck.unknown("K-CONST", fn, what, str(e))
        it = None
    if it is not None:
        bad = []
        for o in it.fileops:
            destructive = o["op"] in WRITE_OPS or o["op"] in ("truncate", "unlink") or (o["op"] == "open" and "w" in (open_mode(o) or "r"))
            if destructive and not any(f_.k == "un" and f_.a[0] == "not" and "exists" in show(f_) for f_ in o["facts"]):
                bad.append(f"{o['op']} at {o['where']} is not guarded by `not exists()`")
        ck.verdict("K-CONST", fn, what, bad[:3], f"{sum(1 for o in it.fileops if o['op'] in WRITE_OPS)} writes, all under not exists()")
    return nev


def run(ck):
    P = Program(ck.repo)
    ck.explanation = (
        "Static check of the sequence-count providers. The successor function of both providers is extracted as a closed term "
        "of the current count c and the width w by abstract interpretation, and decided against (c+1) mod 2^w by finite case "
        "analysis over every count for widths up to 8 (boundary counts for wider ones, all up to 16 in the thorough tier); the "
        "returned value must be the old count; the initial state must be 0 (in memory and in the created file). For the "
        "file-backed provider the accepted interval of check_count is decided from its guard facts (exactly [0, 2^w-1], "
        "ValueError otherwise, non-digits refused), the write-back order (read, seek(0), write successor, return old value, "
        "all inside the with-block that closes the file) by a syntactic must-order check, and the missing-file refusals "
        "(FileNotFoundError) from the raise log. One step is inductive: every stored value lies in the accepted interval.")
    for r, t in (("I-INT", "successor == (c+1) mod 2^w, returns old value"), ("K-CONST", "initial count 0"), ("G-RANGE", "check_count accepts exactly [0, 2^w-1]"),
                 ("G-REFUSE", "missing file => FileNotFoundError, junk => ValueError"), ("P-MUST", "file write-back order"), ("D-TABLE", "__next__ -> get_and_increment, PUS width 14")):
        ck.rule(r, t)
    ck.trusted += ["Python file semantics (a with-block closes, hence flushes, the file)", "int()/str.isdigit()/rstrip() as documented"]
    ck.assumptions += ["crash points inside a call and OS-level durability are not modelled (the property speaks of points between calls)"]
    nev = 0
    # ---------------------------------------------------------------- in-memory provider
    it = new_interp(P); env = Env()
    w = sym("w", ty="int")
    prov = R.run_guarded(ck, "K-CONST", "SeqCountProvider.__init__", "construct", lambda: construct(it, env, f"{SQ}.SeqCountProvider", dict(bit_width=w)))
    if prov is not None:
        c0 = read_path(it, env, prov, "count")
        ck.verdict("K-CONST", "SeqCountProvider.__init__", "a new provider starts at 0", [] if c0 == C(0) else [show(c0)[:40]], "0")
        ck.verdict("K-CONST", "SeqCountProvider.__init__", "max_bit_width is the constructor argument", [] if read_path(it, env, prov, "max_bit_width") == w else ["differs"], "identity", nontrivial=False)
        for entry in ("get_and_increment", "__next__"):
            c = sym("c", ty="int")
            it.setattr(prov, "count", c, env, None, None)
            r = R.run_guarded(ck, "I-INT", f"SeqCountProvider.{entry}", "call", lambda: call_method(it, env, prov, entry))
            if r is None:
                continue
            nxt = read_path(it, env, prov, "count")
            nev += check_successor(ck, f"SeqCountProvider.{entry}", "stored count == (count+1) mod 2^width and the old count is returned", nxt, r, "c", "w", ck.tier)
    # ---------------------------------------------------------------- file provider: successor
    it, env, fp = make_file_provider(P, w)
    c = sym("c", ty="int")
    r = R.run_guarded(ck, "I-INT", "FileSeqCountProvider._increment_with_rollover", "call", lambda: call_method(it, env, fp, "_increment_with_rollover", [c]))
    if r is not None:
        nev += check_successor(ck, "FileSeqCountProvider._increment_with_rollover", "successor == (count+1) mod 2^width", r, None, "c", "w", ck.tier)
    # ---------------------------------------------------------------- check_count: accepted interval
    it, env, fp = make_file_provider(P, w)
    line = sym("line", ty="str")
    ret = R.run_guarded(ck, "G-RANGE", "FileSeqCountProvider.check_count", "call", lambda: call_method(it, env, fp, "check_count", [line]))
    if ret is not None:
        fn = "FileSeqCountProvider.check_count"
        v = sym("v", ty="int")
        facts = [substitute(f, {ret: v}) for f in env.facts]
        digit_guard = [f for f in env.facts if any(s.k == "call" and s.a[0] == "isdigit" for s in subterms(f))]
        ck.verdict("G-REFUSE", fn, "content that is not all digits is refused", [] if digit_guard else ["no isdigit() guard dominates the return"], show(digit_guard[0])[:60] if digit_guard else "")
        bad = None
        n = 0
        foreign = None
        for k in (WIDTHS_THOROUGH if ck.tier == "thorough" else WIDTHS_QUICK):
            M = 2 ** k - 1
            for val in sorted({-2, -1, 0, 1, M - 1, M, M + 1, M + 2, 2 * M + 1}):
                acc = True
                for f in facts:
                    try:
                        if not evaluate(f, {"v": val, "w": k}):
                            acc = False
                            break
                    except EvalError:
                        from ..terms import free_syms as _fs
                        if "v" in _fs(f) and (_fs(f) - {"v", "w", "line"}):
                            foreign = sorted(_fs(f) - {"v", "w", "line"})
                        continue
                n += 1
                if acc != (0 <= val <= M):
                    bad = bad or (k, val, acc)
        nev += n
        if foreign:
            ck.unknown("G-RANGE", fn, "accepted counts are exactly [0, 2^width - 1]", f"the guard compares the count with state the analysis could not tie to the width ({', '.join(foreign)[:80]})")
        elif bad:
            ck.refuted("G-RANGE", fn, "accepted counts are exactly [0, 2^width - 1]", f"width {bad[0]}: value {bad[1]} is {'accepted' if bad[2] else 'refused'}", witness={"width": bad[0], "value": bad[1]})
        else:
            ck.proved("G-RANGE", fn, "accepted counts are exactly [0, 2^width - 1]", f"{n} (width, value) pairs against the guard facts {[show(f)[:40] for f in facts][-3:]}")
        for x in it.raises:
            if x["kind"] == "explicit" and not x["caught"]:
                ck.verdict("G-REFUSE", fn, f"refusal `{x['text'][:50]}` is a ValueError", [] if it.exc_matches(x["exc"], ("ValueError",)) else [x["exc"]], x["exc"], nontrivial=False)
        ok = ret.k == "call" and ret.a[0] == "int"
        ck.verdict("W-VAL", fn, "returns int(line.rstrip())", [] if ok else [show(ret)[:60]], show(ret)[:50], nontrivial=False)
    # ---------------------------------------------------------------- missing file
    for meth in ("current", "get_and_increment"):
        it, env, fp = make_file_provider(P, w)
        r = R.run_guarded(ck, "G-REFUSE", f"FileSeqCountProvider.{meth}", "call", lambda: call_method(it, env, fp, meth))
        # raised by the method itself or by a helper it calls
        fnf = [x for x in it.raises if x["kind"] == "explicit" and x["exc"] == "FileNotFoundError" and not x["caught"]]
        ok = bool(fnf) and any("exists" in show(f) for f in fnf[0]["facts"])
        ck.verdict("G-REFUSE", f"FileSeqCountProvider.{meth}", "a missing file is reported with FileNotFoundError before anything is read", [] if ok else ["no FileNotFoundError under `not exists()`"],
                   "raise guarded by not file_name.exists()")
        exists_fact = [f for f in env.facts if "exists" in show(f)]
        ck.verdict("G-REFUSE", f"FileSeqCountProvider.{meth}", "normal return implies the file existed", [] if exists_fact else ["no exists() fact on return"], show(exists_fact[0])[:50] if exists_fact else "", nontrivial=False)
        if r is not None and meth == "current":
            ok = r.k == "call" and r.a[0] == "int"
            ck.verdict("W-VAL", "FileSeqCountProvider.current", "returns the validated count read from the file", [] if ok else [show(r)[:60]], show(r)[:50], nontrivial=False)
    # ---------------------------------------------------------------- what the file provider does to its file (effect trace)
    nev += file_effects(ck, P, w)
    # ---------------------------------------------------------------- wrappers
    it = new_interp(P); env = Env()
    pp = R.run_guarded(ck, "D-TABLE", "PusFileSeqCountProvider.__init__", "construct",
                       lambda: construct(it, env, f"{SQ}.PusFileSeqCountProvider", dict(file_name=it.symbolic_value("file_name", None))))
    if pp is not None:
        mb = read_path(it, env, pp, "max_bit_width")
        ck.verdict("D-TABLE", "PusFileSeqCountProvider.__init__", "the PUS provider counts in 14 bits", [] if mb == C(14) else [show(mb)[:40]], "14")
    nx = P.func(f"{SQ}.ProvidesSeqCount.__next__")
    s = ast.unparse(nx.node.body[-1])
    ck.verdict("D-TABLE", "ProvidesSeqCount.__next__", "next(provider) is get_and_increment()", [] if s == "return self.get_and_increment()" else [s], s, nontrivial=False)
    ck.floor("successor / interval evaluations", nev, 200)
