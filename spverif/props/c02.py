"""C02 - PUS-C telecommand (ECSS-E-ST-70-41C 7.4.3 / CCSDS 133.0-B-2)."""
from __future__ import annotations

from ..index import Program
from ..gti import new_interp, call_method, construct, read_path, Env, Unsupported
from ..terms import T, C, sym, show, binop, length, NONE
from ..layout import F, K, A, B, CRC
from ..linear import Lin, linearize
from ..bits import data_bits_be, BitCtx
from .. import rules as R
from .. import decode_rules as D

TC = "ecss.tc"
SP = "ccsds.spacepacket"

FIELDS = dict(service="int", subservice="int", apid="int", app_data="bytes", seq_count="int", source_id="int", ack_flags="int")
WIDTHS = {"service": 8, "subservice": 8, "apid": 11, "seq_count": 14, "source_id": 16, "ack_flags": 4}


def tc_spec(n):
    """reference layout of a PUS-C TC; n maps field -> symbol name (after setters the names change)"""
    body = [K(4, 2), F(n["ack_flags"], 4), F(n["service"], 8), F(n["subservice"], 8), F(n["source_id"], 16), B(n["app_data"])]
    total = R.spec_len([K(48, 0)] + body + [CRC()])
    return ([K(3, 0), K(1, 1), K(1, 1), F(n["apid"], 11), K(2, 3), F(n["seq_count"], 14), R.len_atom(16, total - Lin({}, 7))]
            + body + [CRC()])


def widths_for(n):
    return {n[k]: w for k, w in WIDTHS.items()}


def run(ck):
    P = Program(ck.repo)
    ck.explanation = (
        "Static check of the PUS-C telecommand encoder/decoder against a reference layout written from ECSS-E-ST-70-41C "
        "7.4.3 and CCSDS 133.0-B-2. pack(), pack() after every public setter, to_space_packet().pack() and unpack() are "
        "abstractly interpreted (gated terms); the packed octet stream is normalised to per-bit provenance and compared with "
        "the reference (constants TC/sec-header/unsegmented/PUS version 2, length field == total-7 as a linear form, CRC cell "
        "last and covering exactly all preceding cells); every decoded field is compared with the reference input bits; the "
        "app-data/CRC extents, the minimum-length refusal, the in-bounds proofs of all reads and the escape set are decided "
        "by linear entailment from the guard facts.")
    ck.rule("W-PACK", "normalised layout of pack()/to_space_packet().pack() == reference, before and after setters")
    ck.rule("W-UNPACK", "each decoded field == reference input bits / slice extents")
    ck.rule("G-REFUSE", "declared length < 13 is refused before anything is decoded")
    ck.rule("X-DECL", "no read beyond the declared packet length")
    ck.rule("X-BUF", "every read is inside the buffer")
    ck.rule("E-ESC", "only documented exception classes escape")
    ck.rule("P-MUST", "every normal return of unpack has verified the CRC over data[0:N]")
    ck.rule("Q-EQ", "__eq__ is sensitive to every field")
    ck.trusted += ["struct/bytearray/bit-operator semantics as modelled in spverif", "reference layout tc_spec() in spverif/props/c02.py",
                   "CRC function identity is checked by C04 (K-CONST)"]
    ck.assumptions += ["field values within their declared widths (service/subservice 8 bit, ack flags 4 bit, source id 16 bit)"]

    # ------------------------------------------------------------ secondary header
    it = new_interp(P); env = Env()
    sh_kw = dict(service=sym("service", ty="int"), subservice=sym("subservice", ty="int"), source_id=sym("source_id", ty="int"),
                 ack_flags=sym("ack_flags", ty="int"))
    sh = R.run_guarded(ck, "W-PACK", "PusTcDataFieldHeader.__init__", "construct", lambda: construct(it, env, f"{TC}.PusTcDataFieldHeader", sh_kw))
    if sh is not None:
        p = call_method(it, env, sh, "pack")
        R.check_pack_layout(ck, it, env, p, [K(4, 2), F("ack_flags", 4), F("service", 8), F("subservice", 8), F("source_id", 16)],
                            "PusTcDataFieldHeader.pack", "5 octets == version 2 | ack flags, service, subservice, source id")
        hs = call_method(it, env, sh, "get_header_size")
        R.check_lin_equal(ck, hs, Lin({}, 5), "PusTcDataFieldHeader.get_header_size", "secondary header size == 5", rule="K-CONST")
    it = new_interp(P); env = Env()
    data = sym("data", ty="bytes")
    dec = R.run_guarded(ck, "W-UNPACK", "PusTcDataFieldHeader.unpack", "unpack",
                        lambda: call_method(it, env, T("class", P.cls(f"{TC}.PusTcDataFieldHeader").qual), "unpack", [data]))
    if dec is not None:
        for name, off, w in (("ack_flags", 4, 4), ("service", 8, 8), ("subservice", 16, 8), ("source_id", 24, 16)):
            R.check_field_bits(ck, it, read_path(it, env, dec, name), data_bits_be("data", off, w), "PusTcDataFieldHeader.unpack",
                               f"decoded {name} == bits {off}..{off + w - 1}")
        D.check_xbuf(ck, it, "PusTcDataFieldHeader.unpack")
        D.check_escape(ck, it, "PusTcDataFieldHeader.unpack")
        D.check_xdecl(ck, it, "PusTcDataFieldHeader.unpack", "data", C(5))
        # version refusal
        st, m = D.prove(env.facts, binop("==", binop(">>", binop("&", T("idx", data, C(0), ty="int"), C(0xF0)), C(4)), C(2)))
        ck.verdict3("G-REFUSE", "PusTcDataFieldHeader.unpack", "PUS version != 2 is refused", st, m, "normal return implies version nibble == 2")

    # ------------------------------------------------------------ PusTc pack, before and after setters
    kw = {k: sym(k, ty=t) for k, t in FIELDS.items()}
    for order in ("pack first", "space packet first"):
      it = new_interp(P); env = Env()
      tc = R.run_guarded(ck, "W-PACK", "PusTc.__init__", "construct", lambda: construct(it, env, f"{TC}.PusTc", kw))
      names = {k: k for k in FIELDS}
      if tc is not None:
        def packs(tag, names):
            tag = f"{tag} ({order})"
            spec = tc_spec(names)
            w = widths_for(names)

            def do_pack():
                p = R.run_guarded(ck, "W-PACK", "PusTc.pack", f"pack {tag}", lambda: call_method(it, env, tc, "pack"))
                if p is not None:
                    R.check_pack_layout(ck, it, env, p, spec, "PusTc.pack", f"pack() {tag} == primary header | secondary header | app data | CRC16 of all before",
                                        extra_widths=w)

            def do_sp():
                sp = R.run_guarded(ck, "W-PACK", "PusTc.to_space_packet", f"to_space_packet {tag}", lambda: call_method(it, env, tc, "to_space_packet"))
                if sp is not None:
                    p3 = call_method(it, env, sp, "pack")
                    R.check_pack_layout(ck, it, env, p3, spec, "PusTc.to_space_packet", f"to_space_packet().pack() {tag} == same octets as pack()",
                                        extra_widths=w)
            pl = read_path(it, env, tc, "packet_len")
            R.check_lin_equal(ck, pl, R.spec_len(spec), "PusTc.packet_len", f"packet_len {tag} == number of packed octets")
            if order == "pack first":
                do_pack(); do_sp()
            else:
                do_sp(); do_pack()
            p4 = R.run_guarded(ck, "W-PACK", "PusTc.pack", f"pack recalc False {tag}", lambda: call_method(it, env, tc, "pack", [], {"recalc_crc": C(False)}))
            if p4 is not None:
                R.check_pack_layout(ck, it, env, p4, spec, "PusTc.pack", f"pack(recalc_crc=False) directly after pack() {tag} reproduces the octets",
                                    extra_widths=w)
        packs("after construction", names)
        # one setter at a time, each followed by the full comparison (cached CRC must never be reused)
        for attr in ("apid", "seq_count", "source_id", "app_data"):
            new = sym(attr + "_2", ty=FIELDS[attr])
            ok = R.run_guarded(ck, "W-PACK", f"PusTc.{attr} setter", "store", lambda: (it.setattr(tc, attr, new, env, None, None), True)[1])
            if ok:
                names = dict(names); names[attr] = attr + "_2"
                packs(f"after set {attr}", names)
        # calc_crc then change, then to_space_packet
        call_method(it, env, tc, "calc_crc")
        it.setattr(tc, "seq_count", sym("seq_count_3", ty="int"), env, None, None)
        names = dict(names); names["seq_count"] = "seq_count_3"
        packs("after calc_crc + set seq_count", names)

    # fresh object, pack(recalc_crc=False): CRC must still be computed (none cached)
    it = new_interp(P); env = Env()
    tc = construct(it, env, f"{TC}.PusTc", kw)
    p = call_method(it, env, tc, "pack", [], {"recalc_crc": C(False)})
    R.check_pack_layout(ck, it, env, p, tc_spec({k: k for k in FIELDS}), "PusTc.pack", "pack(recalc_crc=False) on a fresh object computes the CRC",
                        extra_widths=widths_for({k: k for k in FIELDS}))
    # constructor constants
    for path, want, what in (("sp_header.packet_type", 1, "packet type TC"), ("sp_header.sec_header_flag", True, "secondary header flag set"),
                             ("sp_header.seq_flags", 3, "unsegmented"), ("sp_header.ccsds_version", 0, "CCSDS version 0")):
        v = read_path(it, env, tc, path)
        if v.k == "const" and v.a[0] == want:
            ck.proved("K-CONST", "PusTc.__init__", f"{what}", f"{path} == {want}", nontrivial=False)
        else:
            ck.refuted("K-CONST", "PusTc.__init__", f"{what}", f"{path} is {show(v)[:60]}")
    # getters
    for g in ("service", "subservice", "apid", "seq_count", "source_id", "app_data"):
        v = read_path(it, env, tc, g)
        ck.verdict("W-VAL", f"PusTc.{g}", f"getter {g} returns the constructor argument", [] if v == kw[g] else [f"returns {show(v)[:80]}"], "identity", nontrivial=False)
    dl = it.call_func(P.func(f"{TC}.PusTc.get_data_length"), [], dict(app_data_len=sym("n", ty="int"), secondary_header_len=sym("h", ty="int")), Env())
    R.check_lin_equal(ck, dl, Lin({sym("n", ty="int"): 1, sym("h", ty="int"): 1}, 1), "PusTc.get_data_length", "data length == sec header + app data + 2 - 1")

    # ------------------------------------------------------------ Q-EQ
    it = new_interp(P); env = Env()
    a = construct(it, env, f"{TC}.PusTc", kw)
    b = construct(it, env, f"{TC}.PusTc", {k: sym(k + "_b", ty=t) for k, t in FIELDS.items()})
    eq = R.run_guarded(ck, "Q-EQ", "PusTc.__eq__", "compare", lambda: it.compare("==", a, b, env, None))
    if eq is not None:
        R.check_eq_sensitive(ck, eq, list(FIELDS), [k + "_b" for k in FIELDS], "PusTc.__eq__")

    # ------------------------------------------------------------ unpack
    it = new_interp(P); env = Env()
    tcq = P.cls(f"{TC}.PusTc").qual
    dec = R.run_guarded(ck, "W-UNPACK", "PusTc.unpack", "unpack", lambda: call_method(it, env, T("class", tcq), "unpack", [data]))
    if dec is not None:
        fn = "PusTc.unpack"
        dl = T("unpacked", "!H", T("slice", data, C(4), C(6), ty="bytes"), ty="int")
        N = binop("+", dl, C(7))
        Nl = linearize(N)
        for name, path, off, w in (("ccsds_version", "sp_header.ccsds_version", 0, 3), ("packet_type", "sp_header.packet_type", 3, 1),
                                   ("sec_header_flag", "sp_header.sec_header_flag", 4, 1), ("apid", "apid", 5, 11),
                                   ("seq_flags", "sp_header.seq_flags", 16, 2), ("seq_count", "seq_count", 18, 14),
                                   ("data_len", "sp_header.data_len", 32, 16), ("ack_flags", "pus_tc_sec_header.ack_flags", 52, 4),
                                   ("service", "service", 56, 8), ("subservice", "subservice", 64, 8), ("source_id", "source_id", 72, 16)):
            R.check_field_bits(ck, it, read_path(it, env, dec, path), data_bits_be("data", off, w), fn, f"decoded {name} == bits {off}..{off + w - 1}")
        _sc = {}; simp = lambda v: D.simplify(D.simplify(v, env.facts, _sc), env.facts, _sc)
        R.check_slice_extent(ck, simp(read_path(it, env, dec, "app_data")), "data", Lin({}, 11), Nl - Lin({}, 2), fn, "app_data == data[11 : N-2]")
        R.check_slice_extent(ck, simp(read_path(it, env, dec, "crc16")), "data", Nl - Lin({}, 2), Nl, fn, "crc16 == data[N-2 : N]")
        R.check_lin_equal(ck, read_path(it, env, dec, "packet_len"), Nl, fn, "reported packet_len == N = data_len field + 7")
        # refusals
        for goal, what in ((binop(">=", N, C(13)), "declared length N < 13 (no room for secondary header and CRC) is refused"),
                           (binop(">=", length(data), N), "buffer shorter than the declared length N is refused")):
            st, m = D.prove(env.facts, goal)
            if st == "proved":
                ck.proved("G-REFUSE", fn, what, f"normal return implies {show(goal)[:80]}")
            elif st == "refutable":
                ck.refuted("G-REFUSE", fn, what, f"accepted with {{{', '.join(f'{show(k)[:40]}={v}' for k, v in m.items())}}}", witness=m)
            else:
                ck.unknown("G-REFUSE", fn, what, str(m))
        D.check_crc_verified(ck, it, env, fn, "data", Lin({}, 0), Nl, f"{TC}.InvalidTcCrc16")
        n = D.check_xbuf(ck, it, fn)
        D.check_short_refusals_justified(ck, it, fn, "data", N, "the declared packet length (a complete packet, also one followed by further octets, is accepted)")
        D.check_xdecl(ck, it, fn, "data", N)
        D.check_escape(ck, it, fn, allowed=("ValueError", P.cls(f"{TC}.InvalidTcCrc16").qual))
        D.check_independent(ck, it, env, dec, "data", fn)
        ck.floor("reads in PusTc.unpack", len(it.reads), 12)
        ck.floor("raise sites in PusTc.unpack", len(it.raises), 6)
