"""C05 - CFDP fixed PDU header (CCSDS 727.0-B-5 5.1)."""
from __future__ import annotations

from ..index import Program
from ..gti import new_interp, call_method, construct, read_path, Env, Unsupported
from ..terms import T, C, sym, show, binop, length, NONE
from ..layout import F, K, A, B, CRC
from ..linear import Lin, linearize
from ..bits import data_bits_be, BitCtx, norm_bits, fmt_bits
from .. import rules as R
from .. import decode_rules as D
from .. import cfdp_common as CF

HDR = "cfdp.pdu.header"


def check_data_field_len_bound(ck, P):
    """the 16-bit PDU data field length: exactly the values 0..65535 are stored (shared with C11: every recomputed
    length goes through this setter)"""
    it = new_interp(P); env = Env()
    conf = CF.make_conf(it, env, P, 1, 1)
    n0 = len(it.raises)
    hdr = construct(it, env, f"{HDR}.PduHeader", dict(pdu_type=CF.esym(P, "pdu_type", f"{CF.DEFS}.PduType"),
                                                       segment_metadata_flag=CF.esym(P, "segment_metadata_flag", f"{CF.DEFS}.SegmentMetadataFlag"),
                                                       pdu_data_field_len=sym("pdu_data_field_len", ty="int"), pdu_conf=conf))
    dfl = sym("pdu_data_field_len", ty="int")
    st, m = D.prove(env.facts, binop("<=", dfl, C(65535)))
    if st == "proved":
        ck.proved("G-REFUSE", "PduHeader.pdu_data_field_len setter", "a data field length above 65535 is never stored", "guard facts entail pdu_data_field_len <= 65535")
    elif st == "refutable":
        ck.refuted("G-REFUSE", "PduHeader.pdu_data_field_len setter", "a data field length above 65535 is never stored", f"accepted: {m}", witness=m)
    else:
        ck.unknown("G-REFUSE", "PduHeader.pdu_data_field_len setter", "a data field length above 65535 is never stored", str(m))
    for r in it.raises[n0:]:
        if r["caught"] or r["kind"] != "explicit":
            continue
        st, m = D.prove(r["facts"], binop(">", dfl, C(65535)))
        cons = f"refusal `{r['text'][:50]}` only for a length above 65535, as ValueError"
        if st == "proved" and it.exc_matches(r["exc"], ("ValueError",)):
            ck.proved("G-REFUSE", "PduHeader.pdu_data_field_len setter", cons, r["exc"])
        elif st == "refutable":
            ck.refuted("G-REFUSE", "PduHeader.pdu_data_field_len setter", cons, f"in-range length refused: {m}", witness=m)
        elif st == "proved":
            ck.refuted("G-REFUSE", "PduHeader.pdu_data_field_len setter", cons, f"raises {r['exc']}")
        else:
            ck.unknown("G-REFUSE", "PduHeader.pdu_data_field_len setter", cons, str(m))


def run(ck):
    P = Program(ck.repo)
    ck.explanation = (
        "Static check of the CFDP fixed PDU header against a reference layout written from CCSDS 727.0-B-5 5.1. Encoder: for "
        "each pair of entity-ID / sequence-number widths in {1,2,4,8} the header is constructed with symbolic flag and ID values, "
        "pack() is abstractly interpreted and every output bit is compared with the table (version 001, flag bits, 16-bit length, "
        "width codes, IDs big-endian); header_len/packet_len are compared as linear forms. Decoder: octets 0-2 and the flag bits "
        "of octet 3 are checked symbolically per bit; the two width codes, which only steer control flow, are enumerated over all "
        "64 combinations (finite case analysis): valid codes must decode IDs from the reference offsets with all reads proven in "
        "bounds and inside the header, invalid codes must be refused with ValueError.")
    ck.rule("W-PACK", "normalised bit layout of PduHeader.pack == reference, per width pair")
    ck.rule("W-UNPACK", "decoded header fields == reference input bits at the reference offsets")
    ck.rule("W-VAL", "header_len_from_raw reads exactly the two width codes")
    ck.rule("L-LEN", "header_len == 4 + 2*E + S, packet_len == header_len + data field length")
    ck.rule("G-REFUSE", "width mismatch, length > 65535, version != 1, invalid width code are refused with the documented class")
    ck.rule("X-BUF", "all reads inside the buffer"); ck.rule("X-DECL", "no read beyond the header length")
    ck.rule("E-ESC", "only documented exception classes escape")
    ck.trusted += ["struct/bytearray/bit semantics as modelled", "reference layout cfdp_common.header_spec()"]
    ck.assumptions += ["enum-typed constructor arguments are members of their enums; ID values are validated by the byte-field classes (C20)"]
    pairs = CF.width_pairs(ck.tier)
    hq = P.cls(f"{HDR}.PduHeader").qual

    # ------------------------------------------------------------ encoder
    for E, S in pairs:
        it = new_interp(P); env = Env()
        tag = f"E={E},S={S}"

        def build():
            conf = CF.make_conf(it, env, P, E, S)
            return conf, construct(it, env, f"{HDR}.PduHeader", dict(
                pdu_type=CF.esym(P, "pdu_type", f"{CF.DEFS}.PduType"), segment_metadata_flag=CF.esym(P, "segment_metadata_flag", f"{CF.DEFS}.SegmentMetadataFlag"),
                pdu_data_field_len=sym("pdu_data_field_len", ty="int"), pdu_conf=conf))
        r = R.run_guarded(ck, "W-PACK", "PduHeader.__init__", f"construct {tag}", build)
        if r is None:
            continue
        conf, hdr = r
        p = call_method(it, env, hdr, "pack")
        R.check_pack_layout(ck, it, env, p, CF.header_spec(E, S, F("pdu_data_field_len", 16)), "PduHeader.pack",
                            f"header octets == reference layout ({tag})", extra_widths=CF.header_widths(E, S))
        want = Lin({}, CF.header_len(E, S))
        R.check_lin_equal(ck, read_path(it, env, hdr, "header_len"), want, "PduHeader.header_len", f"header_len == 4+2E+S ({tag})")
        R.check_lin_equal(ck, call_method(it, env, conf, "header_len"), want, "PduConfig.header_len", f"header_len() == 4+2E+S ({tag})")
        R.check_lin_equal(ck, read_path(it, env, hdr, "packet_len"), want + Lin({sym("pdu_data_field_len", ty="int"): 1}), "PduHeader.packet_len",
                          f"packet_len == header_len + pdu_data_field_len ({tag})")
    # data field length bound
    check_data_field_len_bound(ck, P)
    # mismatching entity id widths
    for Es, Ed in ((1, 2), (4, 2), (8, 1)):
        it = new_interp(P); env = Env()
        src = construct(it, env, CF.WIDTH_CLASS[Es], dict(val=sym("s", ty="int")))
        dst = construct(it, env, CF.WIDTH_CLASS[Ed], dict(val=sym("d", ty="int")))
        seq = construct(it, env, CF.WIDTH_CLASS[1], dict(val=sym("q", ty="int")))
        conf = construct(it, env, "cfdp.conf.PduConfig", dict(source_entity_id=src, dest_entity_id=dst, transaction_seq_num=seq,
                                                                trans_mode=CF.esym(P, "trans_mode", f"{CF.DEFS}.TransmissionMode")))
        n0 = len(it.raises)
        construct(it, env, f"{HDR}.PduHeader", dict(pdu_type=CF.esym(P, "pdu_type", f"{CF.DEFS}.PduType"),
                                                     segment_metadata_flag=CF.esym(P, "segment_metadata_flag", f"{CF.DEFS}.SegmentMetadataFlag"),
                                                     pdu_data_field_len=C(0), pdu_conf=conf))
        rs = [r for r in it.raises[n0:] if not r["caught"] and r["kind"] == "explicit"]
        cons = f"source ID width {Es} with destination ID width {Ed} is refused with ValueError"
        if env.dead and rs and all(it.exc_matches(r["exc"], ("ValueError",)) for r in rs):
            ck.proved("G-REFUSE", "PduHeader.set_entity_ids", cons, rs[0]["text"][:60])
        else:
            ck.refuted("G-REFUSE", "PduHeader.set_entity_ids", cons, "constructor returns normally" if not env.dead else f"raises {[r['exc'] for r in rs]}")

    # a refused mutation of an existing header leaves it as it was ("refused" instead of being encoded)
    for Es, Ed in ((1, 2), (4, 2)):
        it = new_interp(P); env = Env()
        conf = CF.make_conf(it, env, P, 1, 1)
        hdr = construct(it, env, f"{HDR}.PduHeader", dict(pdu_type=CF.esym(P, "pdu_type", f"{CF.DEFS}.PduType"),
                                                           segment_metadata_flag=CF.esym(P, "segment_metadata_flag", f"{CF.DEFS}.SegmentMetadataFlag"),
                                                           pdu_data_field_len=C(0), pdu_conf=conf))
        src = construct(it, env, CF.WIDTH_CLASS[Es], dict(val=sym("s2", ty="int")))
        dst = construct(it, env, CF.WIDTH_CLASS[Ed], dict(val=sym("d2", ty="int")))
        s0, r0 = len(it.stores), len(it.raises)
        r = R.run_guarded(ck, "G-REFUSE", "PduHeader.set_entity_ids", "call on an existing header", lambda: call_method(it, env, hdr, "set_entity_ids", [src, dst]))
        R.check_refusal_atomic(ck, it, f"PduHeader.set_entity_ids [widths {Es}/{Ed} on an existing header]", s0, r0, rule="G-REFUSE")
    it = new_interp(P); env = Env()
    conf = CF.make_conf(it, env, P, 1, 1)
    hdr = construct(it, env, f"{HDR}.PduHeader", dict(pdu_type=CF.esym(P, "pdu_type", f"{CF.DEFS}.PduType"),
                                                       segment_metadata_flag=CF.esym(P, "segment_metadata_flag", f"{CF.DEFS}.SegmentMetadataFlag"),
                                                       pdu_data_field_len=C(0), pdu_conf=conf))
    s0, r0 = len(it.stores), len(it.raises)
    try:
        it.setattr(hdr, "pdu_data_field_len", sym("new_len", ty="int"), env, None, None)
        R.check_refusal_atomic(ck, it, "PduHeader.pdu_data_field_len setter [existing header]", s0, r0, rule="G-REFUSE")
    except Unsupported as e:
        ck.unknown("G-REFUSE", "PduHeader.pdu_data_field_len setter", "setter analysed", str(e))

    # ------------------------------------------------------------ decoder: symbolic bits
    data = sym("data", ty="bytes")
    it = new_interp(P); env = Env()
    dec = R.run_guarded(ck, "W-UNPACK", "PduHeader.unpack", "unpack (symbolic)", lambda: call_method(it, env, T("class", hq), "unpack", [data]))
    if dec is not None:
        fn = "PduHeader.unpack"
        for name, path, off, w in (("pdu_type", "pdu_type", 3, 1), ("direction", "direction", 4, 1), ("trans_mode", "transmission_mode", 5, 1),
                                   ("crc_flag", "crc_flag", 6, 1), ("file_flag", "file_flag", 7, 1), ("pdu_data_field_len", "pdu_data_field_len", 8, 16),
                                   ("seg_ctrl", "seg_ctrl", 24, 1), ("segment_metadata_flag", "segment_metadata_flag", 28, 1)):
            R.check_field_bits(ck, it, read_path(it, env, dec, path), data_bits_be("data", off, w), fn, f"decoded {name} == bits {off}..{off + w - 1}")
        ver = binop("&", binop(">>", T("idx", data, C(0), ty="int"), C(5)), C(7))
        st, m = D.prove(env.facts, binop("==", ver, C(1)))
        ck.verdict3("G-REFUSE", fn, "version != 001 is refused", st, m, "normal return implies version bits == 1")
        ucv = P.cls(f"{CF.DEFS}.UnsupportedCfdpVersion").qual
        hit = [r for r in it.raises if r["kind"] == "explicit" and r["exc"] == ucv]
        ck.verdict("G-REFUSE", fn, "unsupported version raises UnsupportedCfdpVersion", [] if hit else ["no raise of UnsupportedCfdpVersion found"], "raise site present")
        D.check_escape(ck, it, fn, allowed=("ValueError", ucv))

    # ------------------------------------------------------------ decoder: all 64 width-code combinations
    valid = {0: 1, 1: 2, 3: 4, 7: 8}
    ncases = 0
    for ec in range(8):
        for sc in range(8):
            flags = (0, 0) if (ec + sc) % 2 == 0 else (1, 1)
            b3 = (flags[0] << 7) | (ec << 4) | (flags[1] << 3) | sc
            it = CF.decode_interp(P, "data", b3=b3)
            env = Env()
            tag = f"width codes {ec},{sc}"
            fn = "PduHeader.unpack"
            try:
                dec = call_method(it, env, T("class", hq), "unpack", [data])
            except Unsupported as e:
                ck.unknown("W-UNPACK", fn, f"unpack ({tag})", str(e))
                continue
            ncases += 1
            if ec not in valid or sc not in valid:
                rs = [r for r in it.raises if not r["caught"] and r["kind"] == "explicit"]
                ok = env.dead and rs and all(it.exc_matches(r["exc"], ("ValueError", P.cls(f"{CF.DEFS}.UnsupportedCfdpVersion").qual)) for r in rs)
                ck.verdict("G-REFUSE", fn, f"unsupported {tag} are refused with ValueError", [] if ok else ["decoder returns normally" if not env.dead else "wrong class"],
                           "all paths raise")
                continue
            E, S = valid[ec], valid[sc]
            if ck.tier != "thorough" and (E, S) not in pairs and (E + S) % 3 != 0:
                # quick tier: refusals for all 48 invalid combinations, full field check for a subset of the 16 valid ones
                continue
            off = 32
            for name, path, w in (("source_entity_id", "source_entity_id", E), ("transaction_seq_num", "transaction_seq_num", S), ("dest_entity_id", "dest_entity_id", E)):
                R.check_field_bits(ck, it, read_path(it, env, dec, path + ".value"), data_bits_be("data", off, 8 * w), fn,
                                   f"decoded {name} == octets {off // 8}..{off // 8 + w - 1} ({tag})")
                bl = read_path(it, env, dec, path + ".byte_len")
                R.check_lin_equal(ck, bl, Lin({}, w), fn, f"decoded {name} width == {w} ({tag})", rule="W-UNPACK")
                off += 8 * w
            for path, want in (("seg_ctrl", flags[0]), ("segment_metadata_flag", flags[1])):
                v = read_path(it, env, dec, path)
                ck.verdict("W-UNPACK", fn, f"decoded {path} == its bit of octet 3 ({tag})", [] if v.k == "const" and v.a[0] == want else [f"{show(v)} != {want}"], "constant folded", nontrivial=False)
            N = C(CF.header_len(E, S))
            R.check_lin_equal(ck, read_path(it, env, dec, "header_len"), Lin({}, CF.header_len(E, S)), fn, f"decoded header_len == 4+2E+S ({tag})")
            st, m = D.prove(env.facts, binop(">=", length(data), N))
            ck.verdict3("G-REFUSE", fn, f"buffer shorter than the header is refused ({tag})", st, m, f"normal return implies len(data) >= {CF.header_len(E, S)}")
            # the converse: the too-short refusal is taken only for buffers that really are shorter than this header
            for x in it.raises:
                if x["caught"] or x["kind"] != "explicit" or not x["exc"].endswith("BytesTooShortError"):
                    continue
                cons = f"`{x['text'][:50]}` refuses only buffers shorter than the {CF.header_len(E, S)}-octet header ({tag})"
                st, m = D.prove(x["facts"], binop("<", length(data), N))
                if st == "proved":
                    ck.proved("G-REFUSE", fn, cons, "path condition implies len(data) < header length")
                elif st == "refutable":
                    ck.refuted("G-REFUSE", fn, cons, f"a complete header is refused as too short: {m}", witness=m)
                else:
                    ck.unknown("G-REFUSE", fn, cons, str(m))
            D.check_xbuf(ck, it, fn + f" [{tag}]")
            D.check_xdecl(ck, it, fn + f" [{tag}]", "data", N)
            D.check_escape(ck, it, fn + f" [{tag}]", allowed=("ValueError", P.cls(f"{CF.DEFS}.UnsupportedCfdpVersion").qual))
            D.check_independent(ck, it, env, dec, "data", fn + f" [{tag}]")
    ck.floor("width-code combinations analysed", ncases, 64)

    # ------------------------------------------------------------ header_len_from_raw
    it = new_interp(P); env = Env()
    r = R.run_guarded(ck, "W-VAL", "AbstractPduBase.header_len_from_raw", "call",
                      lambda: it.call_func(P.func(f"{HDR}.AbstractPduBase.header_len_from_raw"), [], {"data": data}, env))
    if r is not None:
        fn = "AbstractPduBase.header_len_from_raw"
        lin = linearize(r)
        probs = []
        ctx = BitCtx()
        seen = {}
        for a, coef in lin.co.items():
            bv = norm_bits(a, ctx)
            if bv is None or not bv.high_clear(3):
                probs.append(f"term {show(a)} is not a 3-bit field of octet 3")
                continue
            seen[tuple(bv.take(3))] = coef
        e_bits = tuple(data_bits_be("data", 25, 3))
        s_bits = tuple(data_bits_be("data", 29, 3))
        if seen.get(e_bits) != 2:
            probs.append(f"entity-ID width code (bits 6..4 of octet 3) must enter with factor 2; found {[(fmt_bits(list(k)), v) for k, v in seen.items()]}")
        if seen.get(s_bits) != 1:
            probs.append(f"sequence-number width code (bits 2..0 of octet 3) must enter with factor 1; found {[(fmt_bits(list(k)), v) for k, v in seen.items()]}")
        if lin.c != 7:
            probs.append(f"constant part {lin.c} != 4 + 2 + 1")
        ck.verdict("W-VAL", fn, "header length == 4 + 2*(code(6..4)+1) + (code(2..0)+1)", probs, f"{lin!r}")
        D.check_xbuf(ck, it, fn)
        D.check_escape(ck, it, fn)
