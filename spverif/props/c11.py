"""C11 - lengths track mutations, pack is repeatable, caller inputs are not modified."""
from __future__ import annotations

from ..index import Program
from ..gti import new_interp, call_method, construct, read_path, Env, Unsupported
from ..terms import T, C, sym, show, binop, un, length, NONE, free_syms, subterms
from ..layout import flatten_any, resolve_crc_cells, stream_str, cell_str
from ..linear import Lin, linearize
from ..bits import BitCtx
from .. import rules as R
from .. import decode_rules as D
from .. import cfdp_common as CF
from .. import pdus as PD
from . import c07
from .c02 import FIELDS as TC_FIELDS
from .c03 import FIELDS as TM_FIELDS

FD = "cfdp.pdu.file_data"
WIDE = {"apid": 11, "seq_count": 14, "source_id": 16, "ack_flags": 4, "service": 8, "subservice": 8, "message_counter": 16, "space_time_ref": 4,
        "destination_id": 16, "packet_version": 3, "condition_code": 4, "status1": 4, "status2": 4, "status9": 4, "checksum_type": 4, "file_size": 32,
        "start_of_scope": 32, "end_of_scope": 32, "seg1_start": 32, "seg1_end": 32, "seg2_start": 32, "seg2_end": 32, "progress": 32, "offset": 32,
        "scid": 16, "vcid": 6, "map_id": 4, "frame_len": 16}


def cells_of(it, packed, extra=None):
    w = dict(WIDE)
    w.update(CF.header_widths(1, 1))
    if extra:
        w.update(extra)
    ctx = BitCtx(widths=w, enum_width=R.enum_width_fn(it))
    probs = []
    # arithmetic length fields get an ad-hoc width: any non-negative atom is laid out with 16 bits of its own key
    cells = resolve_crc_cells(flatten_any(packed, _AtomCtx(ctx), probs), _AtomCtx(ctx), probs)
    return cells


class _AtomCtx(BitCtx):
    """like BitCtx, but every arithmetic atom gets a width large enough for the field it is written to (the comparison
    is between two packed streams, so only equality of the atoms matters)"""

    def __init__(self, base):
        super().__init__(widths=base.widths, atom_widths=base.atom_widths, enum_width=base.enum_width)

    def atom(self, t):
        key, w = super().atom(t)
        return key, (w if w is not None else 64)

    def sym_width(self, t):
        w = super().sym_width(t)
        return w if w is not None else 64


def same_stream(ck, it_a, pa, it_b, pb, fn, what, extra=None):
    ca, cb = cells_of(it_a, pa, extra), cells_of(it_b, pb, extra)
    if ca == cb:
        ck.proved("W-PACK", fn, what, f"{len(ca)} cells identical")
        return True
    j = 0
    while j < min(len(ca), len(cb)) and ca[j] == cb[j]:
        j += 1
    da = cell_str(ca[j]) if j < len(ca) else "end of stream"
    db = cell_str(cb[j]) if j < len(cb) else "end of stream"
    ck.refuted("W-PACK", fn, what, f"streams differ at cell {j}: after the setter {da}, fresh object {db} | mutated {stream_str(ca, 160)} | fresh {stream_str(cb, 160)}")
    return False


def same_len(ck, la, lb, fn, what):
    if linearize(la).key() == linearize(lb).key():
        ck.proved("L-LEN", fn, what, f"{linearize(la)!r}")
    else:
        ck.refuted("L-LEN", fn, what, f"after the setter {linearize(la)!r}, fresh object {linearize(lb)!r}")


def packed_len(ck, it, env, reported, stream, fn, what):
    """reported length == number of octets of the packed stream (term level; gated items compared under the path facts)"""
    from ..terms import bcat_len
    try:
        n = bcat_len(stream) if stream.k == "bcat" else length(stream)
    except Exception as e:          # noqa: BLE001 - an unsupported stream item is an undecided obligation, not a verdict
        ck.assume("L-LEN", fn, what, f"stream length not expressible: {e}")
        return
    a, b = linearize(reported), linearize(n)
    if a.key() == b.key():
        ck.proved("L-LEN", fn, what, f"{a!r}")
        return
    st, m = D.budgeted_prove(list(env.facts), binop("==", reported, n))
    if st == "proved":
        ck.proved("L-LEN", fn, what, f"{a!r} == {b!r} under the path facts")
    elif st == "refutable":
        ck.refuted("L-LEN", fn, what, f"reported {a!r}, packed {b!r} with {m}", witness=m)
    else:
        ck.assume("L-LEN", fn, what, f"reported {a!r}, packed {b!r}: {str(m)[:120]}")


def conf_oids(it, env, conf):
    out = {conf.a[0]}
    for (oid, attr), v in env.heap.items():
        if oid == conf.a[0] and isinstance(v, T) and v.k == "obj":
            out.add(v.a[0])
    return out


def pdu_task(ck, task):
    """setters / aliasing / repeatability of one PDU kind under one configuration (worker process)"""
    P = Program(ck.repo)
    kind_name, (E, S, crc, large) = task
    tag = f"E={E},S={S},crc={crc},large={large}"

    def fresh(variant, large_=large, mutate=None):
        it = new_interp(P); env = Env()
        conf = CF.make_conf(it, env, P, E, S, crc=crc, large=large_)
        if kind_name == "File Data":
            obj = c07.build(it, env, P, conf, variant)
            v = None
        else:
            kind = [k for k in PD.DIRECTIVES if k.name == kind_name][0]
            v = kind.builder(it, env, P, conf, large_, variant)
            obj = v.obj
        return it, env, conf, obj, v
    cls = "FileDataPdu" if kind_name == "File Data" else [k for k in PD.DIRECTIVES if k.name == kind_name][0].cls.split(".")[-1]
    # ---------------- A-ALIAS: constructing and packing never writes into the caller's configuration
    variants = c07.VARIANTS if kind_name == "File Data" else [k for k in PD.DIRECTIVES if k.name == kind_name][0].variants
    for variant in variants[:2]:
        it = new_interp(P); env = Env()
        try:
            conf = CF.make_conf(it, env, P, E, S, crc=crc, large=large, direction=1 if variant == variants[0] else 0)
            mine = conf_oids(it, env, conf)
            n0 = len(it.stores)
            if kind_name == "File Data":
                obj = c07.build(it, env, P, conf, variant)
            else:
                obj = [k for k in PD.DIRECTIVES if k.name == kind_name][0].builder(it, env, P, conf, large, variant).obj
            p1 = call_method(it, env, obj, "pack")
            p2 = call_method(it, env, obj, "pack")
        except Unsupported as e:
            ck.unknown("A-ALIAS", f"{cls}.__init__", f"{variant} {tag}", str(e))
            continue
        ck.floor("PDU alias analyses", 1, 0)
        bad = [s_ for s_ in it.stores[n0:] if s_["oid"] in mine and not (s_["old"] is not None and s_["old"] == s_["val"])]
        ck.verdict("A-ALIAS", f"{cls}.__init__", f"constructing and packing a {kind_name} PDU ({variant}, {tag}) stores nothing into the caller's PduConfig or its ID objects",
                   [f"`{s_['text']}` in {s_['func']} writes {s_['attr']} of the caller's object" for s_ in bad[:2]], f"{len(it.stores) - n0} stores, none into the caller's objects")
        ck.verdict("W-PACK", f"{cls}.pack", f"packing twice without changes yields identical octets ({variant}, {tag})", [] if p1 == p2 else ["second pack differs"], "identical terms", nontrivial=False)
    # ---------------- setters: mutated object == fresh object with the final values
    def check(setter_desc, mut, ref_variant, ref_large=large, ref_fix=None, extra=None):
        try:
            it_a, env_a, conf_a, obj_a, _ = fresh(mut[0])
            call_method(it_a, env_a, obj_a, "pack")
            for attr, val_fn in mut[1]:
                it_a.setattr(obj_a, attr, val_fn(it_a, env_a), env_a, None, None)
            pa = call_method(it_a, env_a, obj_a, "pack")
            it_b, env_b, conf_b, obj_b, _ = fresh(ref_variant, ref_large)
            if ref_fix:
                ref_fix(it_b, env_b, obj_b)
            pb = call_method(it_b, env_b, obj_b, "pack")
        except Unsupported as e:
            ck.unknown("W-PACK", f"{cls} setters", f"{setter_desc} {tag}", str(e))
            return
        ck.floor("setter sequences", 1, 0)
        if env_a.dead or env_b.dead:
            ck.unknown("W-PACK", f"{cls} setters", f"{setter_desc} {tag}", "construction refused")
            return
        same_stream(ck, it_a, pa, it_b, pb, f"{cls}.{setter_desc.split(' ')[0]} setter", f"after {setter_desc}: pack() == pack() of a freshly constructed PDU with the final values ({tag})", extra)
        same_len(ck, read_path(it_a, env_a, obj_a, "packet_len"), read_path(it_b, env_b, obj_b, "packet_len"), f"{cls}.{setter_desc.split(' ')[0]} setter",
                 f"after {setter_desc}: packet_len == that of a fresh PDU ({tag})")
        packed_len(ck, it_a, env_a, read_path(it_a, env_a, obj_a, "packet_len"), pa, f"{cls}.{setter_desc.split(' ')[0]} setter",
                   f"after {setter_desc}: packet_len == number of octets pack() emits ({tag})")
    ent = lambda it, env: PD.entity_id_tlv(it, env, P, "fault_entity")[0]
    if kind_name == "EOF":
        check("fault_location := TLV", ("plain", [("fault_location", ent)]), "fault location")
        check("fault_location := None", ("fault location", [("fault_location", lambda it, env: NONE)]), "plain")
    elif kind_name == "Finished":
        def two(it, env):
            return T("list", tuple(PD.fs_response_tlv(it, env, P, n)[0] for n in (1, 2)), ty=("list", None))
        check("file_store_responses := two responses", ("plain", [("file_store_responses", two)]), "two responses")
        check("file_store_responses := None", ("two responses", [("file_store_responses", lambda it, env: NONE)]), "plain")
        def fl_fix(it, env, obj):
            it.setattr(obj, "file_store_responses", T("list", (), ty=("list", None)), env, None, None)
        check("fault_location := None", ("fault location", [("fault_location", lambda it, env: NONE)]), "two responses",
              ref_fix=None) if False else None
        # the two condition codes for which the fault location is not transmitted: packed octets and lengths agree
        check("fault_location := TLV (under NO_ERROR)", ("fault location omitted", [("fault_location", ent)]), "fault location omitted")
        check("fault_location := TLV (under UNSUPPORTED_CHECKSUM_TYPE)", ("fault location omitted (unsupported checksum type)", [("fault_location", ent)]),
              "fault location omitted (unsupported checksum type)")
        check("condition_code := UNSUPPORTED_CHECKSUM_TYPE (with a fault location)", ("fault location omitted", [("condition_code", lambda it, env: CF.enumc(P, f"{CF.DEFS}.ConditionCode", 0b1011))]),
              "fault location omitted (unsupported checksum type)")
        # an error code with responses and a fault location, then NO_ERROR: the fault location leaves the octets *and* the lengths;
        # and back: an error code makes the stored fault location reappear in both
        check("condition_code := NO_ERROR (with responses and a fault location)", ("fault location", [("condition_code", lambda it, env: CF.enumc(P, f"{CF.DEFS}.ConditionCode", 0))]),
              "two responses, fault location omitted")
        check("condition_code := FILE_CHECKSUM_FAILURE (with responses and an omitted fault location)",
              ("two responses, fault location omitted", [("condition_code", lambda it, env: CF.enumc(P, f"{CF.DEFS}.ConditionCode", 4))]), "fault location")
    elif kind_name == "Metadata":
        def opts(it, env):
            return T("list", tuple(PD.generic_tlv(it, env, P, n)[0] for n in (1, 2)), ty=("list", None))
        check("options := two TLVs", ("plain", [("options", opts)]), "two options")
        check("options := None", ("two options", [("options", lambda it, env: NONE)]), "plain")
        check("source_file_name / dest_file_name := None", ("plain", [("source_file_name", lambda it, env: NONE), ("dest_file_name", lambda it, env: NONE)]), "no file names")
        check("source_file_name / dest_file_name := names", ("no file names", [("source_file_name", lambda it, env: sym("source_file_name", ty="str")),
                                                                                 ("dest_file_name", lambda it, env: sym("dest_file_name", ty="str"))]), "plain")
    elif kind_name == "NAK":
        def segs(it, env):
            return T("list", tuple(T("tuple", (sym(f"seg{n}_start", ty="int"), sym(f"seg{n}_end", ty="int"))) for n in (1, 2)), ty=("list", None))
        check("segment_requests := two requests", ("plain", [("segment_requests", segs)]), "two segment requests")
        check("segment_requests := None", ("two segment requests", [("segment_requests", lambda it, env: NONE)]), "plain")
        new_large = 1 - large
        check(f"file_flag := {'LARGE' if new_large else 'NORMAL'}", ("two segment requests", [("file_flag", lambda it, env: CF.enumc(P, f"{CF.DEFS}.LargeFileFlag", new_large))]),
              "two segment requests", ref_large=new_large, extra={k: 64 for k in WIDE if k.startswith(("seg", "start_of", "end_of"))})
    elif kind_name == "Keep Alive":
        new_large = 1 - large
        check(f"file_flag := {'LARGE' if new_large else 'NORMAL'}", ("plain", [("file_flag", lambda it, env: CF.enumc(P, f"{CF.DEFS}.LargeFileFlag", new_large))]), "plain",
              ref_large=new_large, extra={"progress": 64})
    elif kind_name == "File Data":
        def md(it, env):
            return construct(it, env, f"{FD}.SegmentMetadata", dict(record_cont_state=CF.esym(P, "record_cont_state", f"{FD}.RecordContinuationState"), metadata=sym("metadata", ty="bytes")))
        check("segment_metadata := metadata", ("no metadata", [("segment_metadata", md)]), "metadata", extra={"offset": 64})
        check("segment_metadata := None", ("metadata", [("segment_metadata", lambda it, env: NONE)]), "no metadata", extra={"offset": 64})
        def md_empty(it, env):
            return construct(it, env, f"{FD}.SegmentMetadata", dict(record_cont_state=CF.esym(P, "record_cont_state", f"{FD}.RecordContinuationState"), metadata=C(b"")))
        check("segment_metadata := metadata without octets", ("no metadata", [("segment_metadata", md_empty)]), "empty metadata", extra={"offset": 64})
        check("segment_metadata := metadata without octets (replacing metadata)", ("metadata", [("segment_metadata", md_empty)]), "empty metadata", extra={"offset": 64})
        check("segment_metadata := metadata (replacing metadata without octets)", ("empty metadata", [("segment_metadata", md)]), "metadata", extra={"offset": 64})
        check("file_data := same symbol after a pack", ("metadata", [("file_data", lambda it, env: sym("file_data", ty="bytes"))]), "metadata", extra={"offset": 64})


# setters whose recomputation can refuse the new value (the length no longer fits its field): (class, setter)
REFUSING_SETTERS = (("ecss.tc.PusTc", "app_data"), ("ecss.tm.PusTm", "tm_data"),
                    ("cfdp.pdu.file_data.FileDataPdu", "file_data"), ("cfdp.pdu.file_data.FileDataPdu", "segment_metadata"),
                    ("cfdp.pdu.finished.FinishedPdu", "condition_code"), ("cfdp.pdu.finished.FinishedPdu", "file_store_responses"),
                    ("cfdp.pdu.finished.FinishedPdu", "fault_location"), ("cfdp.pdu.metadata.MetadataPdu", "options"),
                    ("cfdp.pdu.metadata.MetadataPdu", "source_file_name"), ("cfdp.pdu.metadata.MetadataPdu", "dest_file_name"),
                    ("cfdp.pdu.nak.NakPdu", "segment_requests"), ("cfdp.pdu.nak.NakPdu", "file_flag"))


def refused_setters(ck, P):
    """a sequence of setter calls may contain refused ones (ValueError: the new length does not fit its field); after
    such a call the object must be what it was, otherwise its reported length and its packed octets disagree"""
    for cls, name in REFUSING_SETTERS:
        c = P.cls(cls)
        st = c.setters.get(name)
        fn = f"{c.name}.{name} setter"
        if st is None:
            ck.unknown("G-REFUSE", fn, "setter analysed", "setter not found")
            continue
        it = new_interp(P); env = Env()
        try:
            obj = it.new_object(c.qual, symbolic=True, root="self", path="self")
            first = it.next_oid()
            it.call_func(st, [obj, sym("value")], {}, env)
        except Unsupported as e:
            ck.unknown("G-REFUSE", fn, "setter analysed", str(e))
            continue
        n = R.check_refusal_atomic(ck, it, fn, fresh_from=first)
        ck.verdict("G-REFUSE", fn, "the setter has a refusing path (its recomputation validates the new length)", [] if n else ["no feasible explicit raise found"],
                   f"{n} refusing paths", nontrivial=False)


def run(ck):
    from ..report import run_parallel
    P = Program(ck.repo)
    ck.explanation = (
        "Static check of the mutation clauses. For every documented setter an object is constructed with symbolic parameters, packed "
        "once (so that caches exist), mutated through the setter, and packed again; the resulting octet stream and reported length "
        "are compared cell for cell with those of an object freshly constructed with the final values - no reference table is "
        "involved, the comparison is mutated-versus-fresh, which is what the property states. Covered: TC application data, TM "
        "source data, EOF fault location, Finished responses, Metadata options and file names, NAK segment requests and file flag, "
        "Keep Alive file flag, File Data payload and segment metadata (each under every configuration case), USLP data zone and "
        "frame-length update. Aliasing: the store log of constructor + pack() is searched for any store that reaches the caller's "
        "PduConfig object or the ID objects it holds. Repeatability: pack() twice yields identical terms and equality does not read "
        "the caches.")
    for r, t in (("W-PACK", "pack() after setters == pack() of a fresh object with the final values; pack twice identical"), ("L-LEN", "reported length likewise"),
                 ("A-ALIAS", "no store reaches an object owned by the caller"), ("G-REFUSE", "a setter that refuses its value leaves nothing stored"), ("Q-EQ", "equality unaffected by packing")):
        ck.rule(r, t)
    ck.trusted += ["store log of the abstract interpreter (every attribute store goes through setattr)"]
    ck.assumptions += ["setter sequences of length one or two per field; longer sequences follow because every setter ends in the same recomputation from current field values"]
    # ---------------------------------------------------------------- TC / TM
    for cls, fields, setter, key in (("ecss.tc.PusTc", TC_FIELDS, "app_data", "app_data"), ("ecss.tm.PusTm", TM_FIELDS, "tm_data", "source_data")):
        short = cls.split(".")[-1]
        it_a = new_interp(P); env_a = Env()
        a = construct(it_a, env_a, cls, {k: sym(k, ty=t) for k, t in fields.items()})
        call_method(it_a, env_a, a, "pack")
        eq0 = it_a.compare("==", a, a, env_a, None)
        it_a.setattr(a, setter, sym("new_data", ty="bytes"), env_a, None, None)
        pa = call_method(it_a, env_a, a, "pack")
        it_b = new_interp(P); env_b = Env()
        kw = {k: sym(k, ty=t) for k, t in fields.items()}
        kw[key] = sym("new_data", ty="bytes")
        b = construct(it_b, env_b, cls, kw)
        pb = call_method(it_b, env_b, b, "pack")
        same_stream(ck, it_a, pa, it_b, pb, f"{short}.{setter} setter", f"after {setter} := new data (with a cached CRC): pack() == pack() of a fresh {short} with that data")
        same_len(ck, read_path(it_a, env_a, a, "packet_len"), read_path(it_b, env_b, b, "packet_len"), f"{short}.{setter} setter", f"after {setter} := new data: packet_len == that of a fresh {short}")
        p2 = call_method(it_a, env_a, a, "pack")
        ck.verdict("W-PACK", f"{short}.pack", "packing twice without changes yields identical octets", [] if p2 == pa else ["differs"], "identical terms", nontrivial=False)
        # equality does not look at the CRC cache
        it_c = new_interp(P); env_c = Env()
        c1 = construct(it_c, env_c, cls, {k: sym(k, ty=t) for k, t in fields.items()})
        c2 = construct(it_c, env_c, cls, {k: sym(k + "_b", ty=t) for k, t in fields.items()})
        e_before = it_c.compare("==", c1, c2, env_c, None)
        call_method(it_c, env_c, c1, "pack")
        e_after = it_c.compare("==", c1, c2, env_c, None)
        ck.verdict("Q-EQ", f"{short}.__eq__", "equality is the same before and after pack() (the CRC cache is not compared)", [] if e_before == e_after else [f"{show(e_after)[:80]}"], "identical terms")
    # ---------------------------------------------------------------- refused mutations leave the object unchanged
    refused_setters(ck, P)
    # every recomputed PDU length is stored through PduHeader.pdu_data_field_len: what it accepts must fit the 16-bit field
    from .c05 import check_data_field_len_bound
    check_data_field_len_bound(ck, P)
    # ---------------------------------------------------------------- USLP
    U = "uslp.frame"
    from .c17 import mk_header
    it_a = new_interp(P); env_a = Env()
    rq = P.cls(f"{U}.TfdzConstructionRules").qual
    mk_tf = lambda it, env, name: construct(it, env, f"{U}.TransferFrameDataField", dict(tfdz_cnstr_rules=T("const", 7, ty=rq), uslp_ident=sym("uslp_ident", ty=P.cls(f"{U}.UslpProtocolIdentifier").qual), tfdz=sym(name, ty="bytes")))
    ta = mk_tf(it_a, env_a, "tfdz")
    it_a.setattr(ta, "tfdz", sym("tfdz_new", ty="bytes"), env_a, None, None)
    it_b = new_interp(P); env_b = Env()
    tb = mk_tf(it_b, env_b, "tfdz_new")
    same_stream(ck, it_a, call_method(it_a, env_a, ta, "pack"), it_b, call_method(it_b, env_b, tb, "pack"), "TransferFrameDataField.tfdz setter", "after tfdz := new zone: pack() == pack() of a fresh data field")
    same_len(ck, call_method(it_a, env_a, ta, "len"), call_method(it_b, env_b, tb, "len"), "TransferFrameDataField.tfdz setter", "after tfdz := new zone: len() == that of a fresh data field")
    ha = mk_header(it_a, env_a, P, 2, op=False)
    fr = construct(it_a, env_a, f"{U}.TransferFrame", dict(header=ha, tfdf=ta, insert_zone=sym("insert_zone", ty="bytes"), fecf=sym("fecf", ty="bytes")))
    call_method(it_a, env_a, fr, "set_frame_len_in_header")
    fl = read_path(it_a, env_a, ha, "frame_len")
    tot = call_method(it_a, env_a, fr, "len")
    ck.verdict("L-LEN", "TransferFrame.set_frame_len_in_header", "after the update (and after a data-zone change) the header's frame_len == len() - 1",
               [] if linearize(fl).key() == (linearize(tot) - Lin({}, 1)).key() else [f"{linearize(fl)!r} vs {linearize(tot)!r} - 1"], f"{linearize(fl)!r}")
    # ---------------------------------------------------------------- PDUs
    cases = PD.config_cases(ck.tier)
    names = ["EOF", "Finished", "ACK", "Metadata", "NAK", "Prompt", "Keep Alive", "File Data"]
    tasks = [(n, c) for n in names for c in (cases if ck.tier == "thorough" else cases[:4])]
    run_parallel(ck, "spverif.props.c11", "pdu_task", tasks)
    for what, mn in (("PDU alias analyses", len(tasks)), ("setter sequences", 20)):
        cnt = ck.analysed.get(what, 0)
        ck.floors = [f for f in ck.floors if f[0] != what]
        ck.floor(what, cnt, mn)
