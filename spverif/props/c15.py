"""C15 - request IDs and service-1 verification reports (ECSS-E-ST-70-41C 6.1 / 8.1)."""
from __future__ import annotations

from ..index import Program
from ..gti import new_interp, call_method, construct, read_path, Env, Unsupported
from ..terms import T, C, sym, show, binop, un, length, NONE, free_syms, as_bcat
from ..layout import F, K, A, B, CRC
from ..linear import Lin, linearize
from ..bits import data_bits_be, BitCtx, field_bits
from .. import rules as R
from .. import decode_rules as D
from .c01 import SPH_SPEC

V1 = "ecss.pus_1_verification"
RQ = "ecss.req_id"
FL = "ecss.fields"
SP = "ccsds.spacepacket"
RID_SPEC = SPH_SPEC[:6]          # the first four octets of the C01 table: version, type, flag, apid, seq flags, seq count
RID_W = {"apid": 11, "seq_count": 14, "ccsds_version": 3}
PFC_BYTES = {8: 1, 16: 2, 32: 4, 64: 8}


def mk_req_id(it, env, P, sfx=""):
    pt = P.cls(f"{SP}.PacketType").qual
    sf = P.cls(f"{SP}.SequenceFlags").qual
    pid = construct(it, env, f"{SP}.PacketId", dict(ptype=sym("packet_type" + sfx, ty=pt), sec_header_flag=sym("sec_header_flag" + sfx, ty="bool"), apid=sym("apid" + sfx, ty="int")))
    psc = construct(it, env, f"{SP}.PacketSeqCtrl", dict(seq_flags=sym("seq_flags" + sfx, ty=sf), seq_count=sym("seq_count" + sfx, ty="int")))
    return construct(it, env, f"{RQ}.RequestId", dict(tc_packet_id=pid, tc_psc=psc, ccsds_version=sym("ccsds_version" + sfx, ty="int")))


def rid_spec(sfx=""):
    return [F(c.name + sfx, c.width) for c in RID_SPEC]


def rid_widths(sfx=""):
    return {k + sfx: v for k, v in RID_W.items()}


def decode_task(ck, task):
    """one (timestamp length, field widths, subservice) decoder analysis; runs in a worker process"""
    P = Program(ck.repo)
    Tl, S, Ec, sub = task
    data = sym("data", ty="bytes")
    s1q = P.cls(f"{V1}.Service1Tm").qual
    tmexc = P.cls("ecss.tm.InvalidTmCrc16").qual
    it = new_interp(P); env = Env()
    it.concrete_bytes[("data", 8)] = sub
    up = construct(it, env, f"{V1}.UnpackParams", dict(timestamp_len=C(Tl), bytes_step_id=C(S), bytes_err_code=C(Ec)))
    tag = f"subservice {sub}, T={Tl}, step width {S}, code width {Ec}"
    fn = "Service1Tm.unpack"
    try:
        dec = call_method(it, env, T("class", s1q), "unpack", [data, up])
    except Unsupported as e:
        ck.unknown("W-UNPACK", fn, tag, str(e))
        return
    ck.floor("service-1 decode analyses", 1, 0)
    D.check_escape(ck, it, f"{fn} [{tag}]", allowed=("ValueError", tmexc))
    D.check_no_shared_writes(ck, it, f"{fn} [{tag}]")
    if sub in (0, 9):
        ck.verdict("G-REFUSE", fn, f"undefined {tag} is refused", [] if env.dead else ["accepted"], "every path raises", nontrivial=False)
        return
    if env.dead:
        ck.refuted("W-UNPACK", fn, f"decoder accepts some input ({tag})", "every path raises")
        return
    D.check_xbuf(ck, it, f"{fn} [{tag}]")
    dl = T("unpacked", "!H", T("slice", data, C(4), C(6), ty="bytes"), ty="int")
    N = binop("+", dl, C(7))
    D.check_xdecl(ck, it, f"{fn} [{tag}]", "data", N, extra_facts=env.facts)
    _sc = {}
    simp = lambda v: D.simplify(D.simplify(v, env.facts, _sc), env.facts, _sc)
    base = (13 + Tl) * 8
    off = base
    for c, path in zip(RID_SPEC, ("ccsds_version", "tc_packet_id.ptype", "tc_packet_id.sec_header_flag", "tc_packet_id.apid", "tc_psc.seq_flags", "tc_psc.seq_count")):
        R.check_field_bits(ck, it, simp(read_path(it, env, dec, "tc_req_id." + path)), data_bits_be("data", off, c.width), fn, f"request id {c.name} == bits {off}..{off + c.width - 1} ({tag})")
        off += c.width
    pos = 13 + Tl + 4
    if sub in (5, 6):
        R.check_field_bits(ck, it, simp(read_path(it, env, dec, "step_id.val")), data_bits_be("data", pos * 8, 8 * S), fn, f"step id == {S} octets at {pos} ({tag})")
        pos += S
    else:
        v = read_path(it, env, dec, "step_id")
        ck.verdict("W-UNPACK", fn, f"no step id for a non-step report ({tag})", [] if v.k == "const" and v.a[0] is None else [show(v)[:40]], "None", nontrivial=False)
    if sub % 2 == 0:
        R.check_field_bits(ck, it, simp(read_path(it, env, dec, "failure_notice.code.val")), data_bits_be("data", pos * 8, 8 * Ec), fn, f"failure code == {Ec} octets at {pos} ({tag})")
        R.check_slice_extent(ck, simp(read_path(it, env, dec, "failure_notice.data")), "data", Lin({}, pos + Ec), linearize(N) - Lin({}, 2), fn, f"failure data == data[{pos + Ec} : N-2] ({tag})")
    else:
        v = read_path(it, env, dec, "failure_notice")
        ck.verdict("W-UNPACK", fn, f"no failure notice for a success report ({tag})", [] if v.k == "const" and v.a[0] is None else [show(v)[:40]], "None", nontrivial=False)
    D.check_independent(ck, it, env, dec, "data", f"{fn} [{tag}]")


def run(ck):
    P = Program(ck.repo)
    ck.explanation = (
        "Static check of RequestId, PacketFieldEnum, VerificationParams/FailureNotice, Service1Tm and the eight create_*_tm "
        "helpers. The request ID's packed form, 32-bit integer form, decoded form and its construction from a space packet header "
        "are each compared per bit with the first four octets of the C01 reference table (all 2^32 values at once); __eq__ and "
        "__hash__ must both key on as_u32(). Packet-field enums: big-endian unsigned of pfc/8 octets both ways, width table. "
        "Report source data: request ID, then step ID for step reports, then failure code and data for failure reports, checked "
        "per bit for every presence combination and for each helper; the acceptance table of verify_against_subservice is "
        "decided for all 8 x 2 x 2 combinations; the decoder is analysed per subservice (concrete subservice octet) and field "
        "width choice: offsets 13+T, +4, +S per bit, reads in bounds and inside the declared packet; the equality closure "
        "Service1Tm -> VerificationParams -> RequestId / PacketFieldEnum / FailureNotice must be sensitive to every field.")
    for r, t in (("W-PACK", "packed layouts == reference"), ("W-VAL", "as_u32 bits"), ("W-UNPACK", "decoded fields == reference bits/offsets"),
                 ("M-MODEL", "subservice/parameter acceptance table"), ("D-TABLE", "helper table, width table"), ("Q-EQ", "eq/hash key, eq-closure"),
                 ("L-LEN", "len() == layout length"), ("X-BUF", "reads in bounds"), ("X-DECL", "reads inside declared packet"), ("E-ESC", "documented exceptions")):
        ck.rule(r, t)
    ck.trusted += ["reference layout = first four octets of the CCSDS primary header (C01 table)", "ECSS-E-ST-70-41C 8.1.2 report structure"]
    rq = P.cls(f"{RQ}.RequestId").qual
    data = sym("data", ty="bytes")

    # ---------------------------------------------------------------- RequestId
    it = new_interp(P); env = Env()
    rid = R.run_guarded(ck, "W-PACK", "RequestId.__init__", "construct", lambda: mk_req_id(it, env, P))
    if rid is not None:
        R.check_pack_layout(ck, it, env, call_method(it, env, rid, "pack"), rid_spec(), "RequestId.pack", "4 octets == version | packet id | sequence control", extra_widths=rid_widths())
        u = call_method(it, env, rid, "as_u32")
        exp = []
        for c in reversed(RID_SPEC):
            exp += field_bits(c.name, c.width)
        R.check_field_bits(ck, it, u, exp, "RequestId.as_u32", "32-bit integer == the same 32 bits", rule="W-VAL", ctx=BitCtx(widths=rid_widths(), enum_width=R.enum_width_fn(it)))
        rid2 = mk_req_id(it, env, P, "_b")
        eq = it.compare("==", rid, rid2, env, None)
        u2 = call_method(it, env, rid2, "as_u32")
        ck.verdict("Q-EQ", "RequestId.__eq__", "equality compares the two 32-bit forms", [] if eq == binop("==", u, u2) else [show(eq)[:100]], "as_u32() == as_u32()")
        h = it.call_builtin("hash", [rid], {}, env, None)
        ok = h.k == "call" and u in list(h.a[1]) + ([h.a[1][0]] if h.a[1] else [])
        ck.verdict("Q-EQ", "RequestId.__hash__", "hash is the hash of as_u32()", [] if ok else [show(h)[:100]], "hash(as_u32())")
    it = new_interp(P); env = Env()
    dec = R.run_guarded(ck, "W-UNPACK", "RequestId.unpack", "decode", lambda: call_method(it, env, T("class", rq), "unpack", [data]))
    if dec is not None:
        off = 0
        for c, path in zip(RID_SPEC, ("ccsds_version", "tc_packet_id.ptype", "tc_packet_id.sec_header_flag", "tc_packet_id.apid", "tc_psc.seq_flags", "tc_psc.seq_count")):
            R.check_field_bits(ck, it, read_path(it, env, dec, path), data_bits_be("data", off, c.width), "RequestId.unpack", f"decoded {c.name} == bits {off}..{off + c.width - 1}")
            off += c.width
        D.check_xbuf(ck, it, "RequestId.unpack"); D.check_xdecl(ck, it, "RequestId.unpack", "data", C(4)); D.check_escape(ck, it, "RequestId.unpack")
        D.check_short_refusals_justified(ck, it, "RequestId.unpack", "data", C(4), "the 4 octets of a request ID")
        D.check_independent(ck, it, env, dec, "data", "RequestId.unpack")
    it = new_interp(P); env = Env()
    from .c01 import sph_syms
    kw = sph_syms(P)
    hdr = construct(it, env, f"{SP}.SpacePacketHeader", kw)
    for how in ("from_sp_header",):
        r = R.run_guarded(ck, "W-PACK", f"RequestId.{how}", "call", lambda: call_method(it, env, T("class", rq), how, [hdr]))
        if r is not None:
            R.check_pack_layout(ck, it, env, call_method(it, env, r, "pack"), rid_spec(), f"RequestId.{how}", "request ID of a header == the header's first four octets", extra_widths=rid_widths())

    # ---------------------------------------------------------------- PacketFieldEnum
    pfq = P.cls(f"{FL}.PacketFieldEnum").qual
    for pfc, nb in PFC_BYTES.items():
        it = new_interp(P); env = Env()
        v = sym("val", ty="int")
        f = R.run_guarded(ck, "W-PACK", "PacketFieldEnum.__init__", f"pfc {pfc}", lambda: construct(it, env, f"{FL}.PacketFieldEnum", dict(pfc=C(pfc), val=v)))
        if f is None:
            continue
        R.check_pack_layout(ck, it, env, call_method(it, env, f, "pack"), [F("val", pfc)], "PacketFieldEnum.pack", f"pfc {pfc}: {nb} octets big-endian unsigned", extra_widths={"val": pfc})
        R.check_lin_equal(ck, call_method(it, env, f, "len"), Lin({}, nb), "PacketFieldEnum.len", f"pfc {pfc}: len() == {nb}")
        it = new_interp(P); env = Env()
        d = R.run_guarded(ck, "W-UNPACK", "PacketFieldEnum.unpack", f"pfc {pfc}", lambda: call_method(it, env, T("class", pfq), "unpack", [data, C(pfc)]))
        if d is not None:
            R.check_field_bits(ck, it, D.simplify(read_path(it, env, d, "val"), env.facts), data_bits_be("data", 0, pfc), "PacketFieldEnum.unpack", f"pfc {pfc}: value == first {nb} octets, unsigned big-endian")
            ck.verdict("W-UNPACK", "PacketFieldEnum.unpack", f"pfc {pfc}: decoded pfc", [] if read_path(it, env, d, "pfc") == C(pfc) else ["differs"], str(pfc), nontrivial=False)
            D.check_xbuf(ck, it, f"PacketFieldEnum.unpack [{pfc}]"); D.check_xdecl(ck, it, f"PacketFieldEnum.unpack [{pfc}]", "data", C(nb)); D.check_escape(ck, it, f"PacketFieldEnum.unpack [{pfc}]")
    for pfc in (0, 24, 40, 48, 128):
        it = new_interp(P); env = Env()
        it.call_func(P.func(f"{FL}.PacketFieldEnum.check_pfc"), [], dict(pfc=C(pfc)), env)
        rs = [x for x in it.raises if not x["caught"]]
        ck.verdict("D-TABLE", "PacketFieldEnum.check_pfc", f"pfc {pfc} (not 1/2/4/8 octets) is refused with ValueError", [] if env.dead and all(it.exc_matches(x["exc"], ("ValueError",)) for x in rs) else ["accepted"], "raises", nontrivial=False)
    for cls, pfc in (("PacketFieldU8", 8), ("PacketFieldU16", 16), ("PacketFieldU32", 32)):
        it = new_interp(P); env = Env()
        f = construct(it, env, f"{FL}.{cls}", dict(val=sym("val", ty="int")))
        ck.verdict("D-TABLE", cls, f"{cls} has pfc {pfc}", [] if read_path(it, env, f, "pfc") == C(pfc) else ["differs"], str(pfc), nontrivial=False)

    # ---------------------------------------------------------------- VerificationParams / FailureNotice
    def mk_params(it, env, step, fail, sfx="", step_pfc=16, err_pfc=8):
        kw = dict(req_id=mk_req_id(it, env, P, sfx))
        spec = rid_spec(sfx)
        w = rid_widths(sfx)
        if step:
            kw["step_id"] = construct(it, env, f"{FL}.PacketFieldEnum", dict(pfc=C(step_pfc), val=sym("step" + sfx, ty="int")))
            spec.append(F("step" + sfx, step_pfc)); w["step" + sfx] = step_pfc
        if fail:
            code = construct(it, env, f"{FL}.PacketFieldEnum", dict(pfc=C(err_pfc), val=sym("err" + sfx, ty="int")))
            kw["failure_notice"] = construct(it, env, f"{V1}.FailureNotice", dict(code=code, data=sym("fdata" + sfx, ty="bytes")))
            spec += [F("err" + sfx, err_pfc), B("fdata" + sfx)]; w["err" + sfx] = err_pfc
        return construct(it, env, f"{V1}.VerificationParams", kw), spec, w
    for step in (False, True):
        for fail in (False, True):
            it = new_interp(P); env = Env()
            tag = f"step id {'set' if step else 'absent'}, failure notice {'set' if fail else 'absent'}"
            r = R.run_guarded(ck, "W-PACK", "VerificationParams.pack", tag, lambda: mk_params(it, env, step, fail))
            if r is None:
                continue
            vp, spec, w = r
            R.check_pack_layout(ck, it, env, call_method(it, env, vp, "pack"), spec, "VerificationParams.pack", f"source data == request id | step id | failure code | failure data ({tag})", extra_widths=w)
            R.check_lin_equal(ck, call_method(it, env, vp, "len"), R.spec_len(spec), "VerificationParams.len", f"len() == packed size ({tag})")
            # acceptance table
            for sub in range(1, 9):
                it2 = new_interp(P); env2 = Env()
                vp2, _s, _w = mk_params(it2, env2, step, fail)
                n0 = len(it2.raises)
                call_method(it2, env2, vp2, "verify_against_subservice", [T("const", sub, ty=P.cls(f"{V1}.Subservice").qual)])
                want_ok = (fail == (sub % 2 == 0)) and (step == (sub in (5, 6)))
                rs = [x for x in it2.raises[n0:] if not x["caught"]]
                if want_ok:
                    ck.verdict("M-MODEL", "VerificationParams.verify_against_subservice", f"subservice {sub} with {tag} is accepted", [] if not env2.dead else [f"refused: {rs[0]['text'][:50] if rs else ''}"], "returns")
                else:
                    ok = env2.dead and rs and all(x["exc"] == P.cls(f"{V1}.InvalidVerifParams").qual for x in rs)
                    ck.verdict("M-MODEL", "VerificationParams.verify_against_subservice", f"subservice {sub} with {tag} is refused with InvalidVerifParams", [] if ok else ["accepted" if not env2.dead else str([x['exc'] for x in rs])], "raises")

    # ---------------------------------------------------------------- helpers
    helpers = {"create_acceptance_success_tm": (1, 0, 0), "create_acceptance_failure_tm": (2, 0, 1), "create_start_success_tm": (3, 0, 0), "create_start_failure_tm": (4, 0, 1),
               "create_step_success_tm": (5, 1, 0), "create_step_failure_tm": (6, 1, 1), "create_completion_success_tm": (7, 0, 0), "create_completion_failure_tm": (8, 0, 1)}
    for name, (sub, step, fail) in helpers.items():
        it = new_interp(P); env = Env()

        def call():
            tc = construct(it, env, "ecss.tc.PusTc", dict(service=sym("tc_service", ty="int"), subservice=sym("tc_subservice", ty="int"), apid=sym("tc_apid", ty="int"),
                                                           seq_count=sym("tc_seq_count", ty="int"), app_data=sym("tc_app_data", ty="bytes")))
            kw = dict(apid=sym("apid", ty="int"), pus_tc=tc, timestamp=sym("timestamp", ty="bytes"))
            if step:
                kw["step_id"] = construct(it, env, f"{FL}.PacketFieldEnum", dict(pfc=C(16), val=sym("step", ty="int")))
            if fail:
                code = construct(it, env, f"{FL}.PacketFieldEnum", dict(pfc=C(8), val=sym("err", ty="int")))
                kw["failure_notice"] = construct(it, env, f"{V1}.FailureNotice", dict(code=code, data=sym("fdata", ty="bytes")))
            return it.call_func(P.func(f"{V1}.{name}"), [], kw, env)
        tm = R.run_guarded(ck, "D-TABLE", name, "call", call)
        if tm is None:
            continue
        if env.dead:
            ck.refuted("D-TABLE", name, "helper builds a report", "constructor refuses its own parameters")
            continue
        s = read_path(it, env, tm, "subservice")
        ck.verdict("D-TABLE", name, f"subservice == {sub}", [] if s.k == "const" and s.a[0] == sub else [show(s)[:40]], str(sub))
        sv = read_path(it, env, tm, "service")
        ck.verdict("D-TABLE", name, "service == 1", [] if sv.k == "const" and sv.a[0] == 1 else [show(sv)[:40]], "1", nontrivial=False)
        spec = [K(3, 0), K(1, 1), K(1, 1), F("tc_apid", 11), K(2, 3), F("tc_seq_count", 14)]
        w = {"tc_apid": 11, "tc_seq_count": 14}
        if step:
            spec.append(F("step", 16)); w["step"] = 16
        if fail:
            spec += [F("err", 8), B("fdata")]; w["err"] = 8
        R.check_pack_layout(ck, it, env, as_bcat(read_path(it, env, tm, "source_data")), spec, name, "source data == request id of the telecommand | step id | failure code | failure data", extra_widths=w)

    # ---------------------------------------------------------------- decoder
    from ..report import run_parallel
    tasks = [(Tl, S, Ec, sub) for Tl in (0, 7) for (S, Ec) in (((1, 1), (2, 4)) if ck.tier != "thorough" else ((1, 1), (2, 4), (4, 2), (1, 8)))
             for sub in (0, 1, 2, 3, 4, 5, 6, 7, 8, 9)]
    run_parallel(ck, "spverif.props.c15", "decode_task", tasks)
    cnt = ck.analysed.get("service-1 decode analyses", 0)
    ck.floors = [f for f in ck.floors if f[0] != "service-1 decode analyses"]
    ck.floor("service-1 decode analyses", cnt, 40)

    # ---------------------------------------------------------------- equality closure
    it = new_interp(P); env = Env()

    def mk_tm(sfx):
        vp, _s, _w = mk_params(it, env, True, True, sfx)
        return construct(it, env, f"{V1}.Service1Tm", dict(apid=sym("tm_apid" + sfx, ty="int"), subservice=T("const", 6, ty=P.cls(f"{V1}.Subservice").qual),
                                                            timestamp=sym("timestamp" + sfx, ty="bytes"), verif_params=vp, seq_count=sym("tm_seq" + sfx, ty="int")))
    r = R.run_guarded(ck, "Q-EQ", "Service1Tm.__eq__", "compare", lambda: it.compare("==", mk_tm(""), mk_tm("_b"), env, None))
    if r is not None:
        names = ["apid", "seq_count", "ccsds_version", "step", "err", "fdata", "tm_apid", "tm_seq", "timestamp"]
        R.check_eq_sensitive(ck, r, names, [n + "_b" for n in names], "Service1Tm.__eq__",
                             "report equality depends on request id, step id, failure code, failure data and the TM fields of both operands")
