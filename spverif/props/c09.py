"""C09 - decoders never read past the declared unit; trailing octets cannot leak in."""
from __future__ import annotations

from ..index import Program
from ..terms import T, C, sym, show, binop, un, length, NONE
from ..gti import Unsupported
from .. import decode_rules as D
from .. import targets as TG


def task(ck, t):
    P = Program(ck.repo)
    try:
        for run in TG.runs_for(P, ck.tier, t):
            if run.root is None:
                continue
            fnn = f"{run.entry} [{run.tag}]" if run.tag else run.entry
            if run.env.dead:
                continue
            ck.floor("decoder runs", 1, 0)
            if run.N is not None:
                D.check_xdecl(ck, run.it, fnn, run.root, run.N, extra_facts=run.env.facts)
            if run.independent and run.result is not None:
                D.check_independent(ck, run.it, run.env, run.result, run.root, fnn)
            # what a call decodes must not depend on earlier calls either: no decoder writes into process-wide objects
            D.check_no_shared_writes(ck, run.it, fnn)
    except Unsupported as e:
        ck.unknown("X-DECL", str(t), "target group analysed", f"unsupported construct: {e}")


def run(ck):
    from ..report import run_parallel
    P = Program(ck.repo)
    ck.explanation = (
        "Static check that decoding depends only on the first N octets, N being the length the unit itself declares. Every "
        "catalogued decoder of a self-delimiting unit (space packet header, PUS TC/TM and the service-1/17 wrappers, CDS "
        "timestamp, request id, packet-field enum, CFDP fixed header, the eight PDUs and the factory, TLV/LV and the six concrete "
        "TLVs, USLP headers, data field and frame) is abstractly interpreted (symbolically or by finite case analysis over its "
        "structure-determining octets). Extent half: for every read of the entry buffer the absolute end position - or the end of "
        "a closed slice the read goes through - is proven <= N from the facts in force at the read together with the facts of the "
        "normal return (a read matters only on accepted executions). Independence half: no heap cell reachable from the decoded "
        "object mentions len(buffer) or an open-ended slice of the buffer (guards may; values may not). Refutations carry a "
        "concrete octet string. Per-format extent equalities (file data ends at N-2*crc, timestamp/source data/CRC extents, TFDZ "
        "extent, reported length == N) are decided in C02, C03, C06, C07, C08, C15, C17 and are not repeated here.")
    for r, t in (("X-DECL", "every read ends at or before the declared length"), ("X-IND", "decoded state independent of len(buffer) / open slices"),
                 ("A-ALIAS", "no decoder stores into a module-level object (nothing is carried from one call to the next)")):
        ck.rule(r, t)
    ck.trusted += ["the read log of the interpreter (every index, slice and struct.unpack on an octet string is logged)"]
    ck.assumptions += ["reads inside summarised loops whose bound needs an inductive invariant are listed as undecided"]
    tasks = TG.all_tasks(ck.tier)
    run_parallel(ck, "spverif.props.c09", "task", tasks)
    cnt = ck.analysed.get("decoder runs", 0)
    ck.floors = [f for f in ck.floors if f[0] != "decoder runs"]
    ck.floor("decoder runs", cnt, 10)
