"""C04 - a corrupted CRC-protected packet is never accepted: coverage structure of the CRC."""
from __future__ import annotations

import ast

from ..index import Program
from ..gti import new_interp, call_method, construct, read_path, Env, Unsupported
from ..terms import T, C, sym, show, binop, length, NONE
from ..layout import F, K, A, B, CRC, flatten_any, resolve_crc_cells, stream_len_lin, stream_str, cell_str
from ..linear import Lin, linearize
from ..bits import BitCtx, norm_bits
from .. import rules as R
from .. import decode_rules as D
from .. import cfdp_common as CF
from .. import pdus as PD
from .. import pdu_decode as DEC
from .c02 import FIELDS as TC_FIELDS, WIDTHS as TC_WIDTHS
from .c03 import FIELDS as TM_FIELDS, WIDTHS as TM_WIDTHS
from . import c07

CRC_NAME = "crc-ccitt-false"


def crc_last_and_total(ck, it, packed, fn, tag, widths, must_have_crc=True):
    """spec-free structure check: the stream ends in a CRC cell that covers exactly all preceding cells"""
    ctx = BitCtx(widths=dict(widths), enum_width=R.enum_width_fn(it))
    probs = []
    cells = resolve_crc_cells(flatten_any(packed, ctx, probs), ctx, probs)
    crc_idx = [i for i, c in enumerate(cells) if c[0] == "crc16"]
    cons = f"the CRC16 is the last item and covers exactly all preceding octets ({tag})"
    if not must_have_crc:
        ck.verdict("W-PACK", fn, f"no CRC trailer is emitted without the CRC flag ({tag})", [f"CRC cell at {crc_idx}"] if crc_idx else [], "no crc cell", nontrivial=False)
        return cells
    if len(crc_idx) != 1 or crc_idx[0] != len(cells) - 1:
        ck.refuted("W-PACK", fn, cons, f"CRC cells at positions {crc_idx} of {len(cells)} cells: {stream_str(cells, 200)}")
        return cells
    cov = cells[-1][1]
    if isinstance(cov, list) and cov == cells[:-1]:
        ck.proved("W-PACK", fn, cons, f"{len(cells) - 1} preceding cells covered")
    else:
        j = 0
        while isinstance(cov, list) and j < min(len(cov), len(cells) - 1) and cov[j] == cells[j]:
            j += 1
        ck.refuted("W-PACK", fn, cons, f"coverage differs from the packed prefix at cell {j}: covered "
                   f"{cell_str(cov[j]) if isinstance(cov, list) and j < len(cov) else 'nothing'}, packed {cell_str(cells[j]) if j < len(cells) - 1 else 'nothing'}"
                   f" ({len(cov) if isinstance(cov, list) else '?'} cells covered, {len(cells) - 1} precede)")
    return cells


def stream_len(cells):
    """length Lin of a flat stream in terms of the payload lengths"""
    from ..terms import length as L
    bits = 0
    lin = Lin({}, 0)
    for c in cells:
        if c[0] == "bit":
            bits += 1
        elif c[0] == "crc16":
            bits += 16
        elif c[0] == "bytes":
            lin = lin + Lin({T("sym", "LEN:" + c[2]): 1}) if False else lin
            lin = lin + _parse_lenkey(c)
        else:
            return None
    if bits % 8:
        return None
    return lin + Lin({}, bits // 8)


_LEN_TERMS = {}


def _parse_lenkey(c):
    # the flattener stored repr(linearize(length(term))); keep a registry from the canonical key to the Lin
    return _LEN_TERMS.get(c[2], Lin({T("sym", "len:" + str(c[1])): 1}))


def register_lens(packed):
    """remember the Lin of every opaque byte-string length occurring in a packed term"""
    from ..terms import subterms
    for s in subterms(packed):
        if s.k == "bytes":
            l = linearize(length(s.a[0]))
            _LEN_TERMS[repr(l)] = l


def apply_len_facts(lin, facts):
    """use constructor facts of the form len(x) == c (e.g. the 4-octet checksum) as equalities"""
    m = {}
    for f in facts:
        if f.k == "op" and f.a[0] == "==" and f.a[2].k == "const" and isinstance(f.a[2].a[0], int):
            l = linearize(f.a[1])
            if len(l.co) == 1 and l.c == 0:
                (a, c), = l.co.items()
                if c == 1:
                    m[a] = Lin({}, f.a[2].a[0])
    return lin.subst(m)


def pdu_pack_task(ck, task):
    P = Program(ck.repo)
    kind_name, (E, S, crc, large), variant = task
    it = new_interp(P); env = Env()
    tag = f"{kind_name}/{variant} E={E},S={S},crc={crc},large={large}"
    try:
        conf = CF.make_conf(it, env, P, E, S, crc=crc, large=large)
        if kind_name == "File Data":
            obj = c07.build(it, env, P, conf, variant)
            widths = c07.widths(E, S, large)
            fn = "FileDataPdu.pack"
        else:
            kind = [k for k in PD.DIRECTIVES if k.name == kind_name][0]
            v = kind.builder(it, env, P, conf, large, variant)
            obj = v.obj
            widths = dict(CF.header_widths(E, S)); widths.update(v.widths)
            fn = f"{kind.cls.split('.')[-1]}.pack"
        p = call_method(it, env, obj, "pack")
    except Unsupported as e:
        ck.unknown("W-PACK", kind_name, f"pack {tag}", str(e))
        return
    ck.floor("PDU pack analyses", 1, 0)
    register_lens(p)
    # arithmetic atoms (length fields) need a width to be laid out
    from ..terms import subterms
    ctxw = dict(widths)
    cells = crc_last_and_total(ck, it, p, fn, tag, ctxw, must_have_crc=bool(crc))
    # declared data field length == packed octets after the header (so the decoder's extent [0,N) ends with the trailer)
    total = stream_len(cells)
    dfl = linearize(read_path(it, env, obj, "pdu_header.pdu_data_field_len"))
    cons = f"declared data field length == octets packed after the header, CRC trailer included ({tag})"
    if total is not None:
        total = apply_len_facts(total, env.facts)
    if total is None:
        ck.unknown("L-LEN", fn, cons, f"stream not flat: {stream_str(cells, 120)}")
    elif (total - Lin({}, CF.header_len(E, S))).key() == dfl.key():
        ck.proved("L-LEN", fn, cons, f"{dfl!r}")
    else:
        ck.refuted("L-LEN", fn, cons, f"declared {dfl!r}, packed {total - Lin({}, CF.header_len(E, S))!r}")


def pdu_decode_task(ck, task):
    P = Program(ck.repo)
    kind_name, cls, i, (E, S, crc, large) = task
    short = cls.split(".")[-1]
    ptype = 1 if kind_name == "File Data" else 0
    r = DEC.decode_one(ck, P, cls, short, E, S, crc, large, direction=i % 2, mode=(i // 2) % 2, pdu_type=ptype)
    if r is None:
        return
    it, env, dec, tag = r
    fn = f"{short}.unpack"
    ck.floor("PDU decode analyses", 1, 0)
    if env.dead:
        ck.refuted("P-MUST", fn, f"decoder accepts some input ({tag})", "every path raises")
        return
    H = CF.header_len(E, S)
    N = binop("+", CF.data_field_len_term(DEC.DATA), C(H))
    if crc:
        D.check_crc_verified(ck, it, env, f"{fn} [{tag}]", "data", Lin({}, 0), linearize(N), "cfdp.exceptions.InvalidCrc")
        # the refusal itself must be the documented error: reads made while the checksum is verified and while the error
        # is built stay in bounds, and nothing else escapes from that routine
        D.check_xbuf(ck, it, f"{fn} [{tag}]", only_funcs=("verify_length_and_checksum",))
        bad = [x for x in it.raises if not x["caught"] and x["func"].endswith("verify_length_and_checksum") and not it.exc_matches(x["exc"], DEC.allowed_classes(P))]
        ck.verdict("E-ESC", f"{fn} [{tag}]", "the checksum routine refuses only with documented classes", [f"{x['exc']} at {x['text'][:50]}" for x in bad[:2]], "raise log")
    else:
        got = D.crc_facts(env.facts, "data", True)
        ck.verdict("P-MUST", f"{fn} [{tag}]", "no CRC is demanded when the flag is clear", [f"CRC facts {got}"] if got else [], "none", nontrivial=False)
    st, m = D.prove(env.facts, binop(">=", length(DEC.DATA), N))
    ck.verdict3("G-REFUSE", fn, f"buffer shorter than the declared PDU is refused ({tag})", st, m, "len(data) >= N on return")


def run(ck):
    from ..report import run_parallel
    P = Program(ck.repo)
    ck.explanation = (
        "Static check of the structure that makes CRC protection effective, independent of the per-format reference tables: "
        "(1) in each of the ten encoders (PUS TC, PUS TM, eight CFDP PDU kinds, every parameter variant and configuration case) the "
        "packed stream ends in one CRC16 item whose coverage term is exactly the sequence of all preceding items - also after "
        "setters have changed fields and a CRC is cached; without the CRC flag no trailer is emitted; (2) the declared length "
        "field equals the packed length, so the decoder's extent [0,N) ends with the trailer; (3) every decoder, and every wrapper "
        "that reaches one, establishes CRC16(data[0:N]) == 0 on every path to a normal return and raises its documented checksum "
        "error otherwise; (4) every CRC object in the package is created with the name crc-ccitt-false and check_pus_crc compares "
        "the CRC of the whole packet with 0. That CRC-16/CCITT-FALSE detects all bursts up to 16 bits is mathematics and trusted.")
    for r, t in (("W-PACK", "CRC item last, coverage == all preceding items"), ("L-LEN", "declared length == packed length"),
                 ("P-MUST", "CRC over data[0:N] verified before every normal return"), ("K-CONST", "CRC algorithm name"),
                 ("G-REFUSE", "short buffers refused before the CRC is evaluated"), ("X-BUF", "reads of the checksum routine (also while building its error) in bounds"),
                 ("E-ESC", "the checksum routine raises documented classes only")):
        ck.rule(r, t)
    ck.trusted += ["CRC-16/CCITT-FALSE detects every burst of up to 16 bits (polynomial property)", "crcmod implements the named algorithm",
                   "for this CRC (no final XOR) crc16(m + t) == 0 exactly when t is the big-endian crc16(m): a comparison of the computed CRC with the trailer word counts as the verification"]
    ck.assumptions += ["corruption outside the length-determining octets (as the property states)"]

    # ---------------------------------------------------------------- K-CONST
    n = 0
    for mod, (tree, path, _p) in P.mods.items():
        for node in ast.walk(tree):
            if isinstance(node, ast.Call):
                fname = ast.unparse(node.func).split(".")[-1]
                if fname in ("mkPredefinedCrcFun", "PredefinedCrc", "mkCrcFun", "Crc"):
                    n += 1
                    args = [a for a in node.args] + [k.value for k in node.keywords if k.arg in ("crc_name", None)]
                    val = args[0].value if args and isinstance(args[0], ast.Constant) else None
                    where = f"{mod.replace('spacepackets.', '')}:{fname}"
                    if fname in ("mkCrcFun", "Crc"):
                        ck.refuted("K-CONST", where, "CRC objects are created from the predefined CCITT-FALSE definition", f"custom polynomial call `{ast.unparse(node)[:80]}`")
                    else:
                        ck.verdict("K-CONST", where, f"`{ast.unparse(node)[:60]}` names crc-ccitt-false", [] if val == CRC_NAME else [f"names {val!r}"], "literal")
    ck.floor("CRC object creations", n, 1)
    # every name bound to a CRC function is one of those; decoders/encoders call only these (interpreter maps them to crc16)
    it = new_interp(P); env = Env()
    pk = sym("tc_packet", ty="bytes")
    r = R.run_guarded(ck, "P-MUST", "check_pus_crc", "call", lambda: it.call_func(P.func("ecss.check_pus_crc"), [], {"tc_packet": pk}, env))
    if r is not None:
        ok = r.k == "op" and r.a[0] == "==" and D._crc_extent(r.a[1], "tc_packet") == (Lin({}, 0), None) and r.a[2].k == "const" and r.a[2].a[0] == 0
        # `not crc(packet)` is the same test
        ok = ok or (r.k == "un" and r.a[0] == "not" and D._crc_extent(r.a[1].a[1] if (r.a[1].k == "un" and r.a[1].a[0] == "bool") else r.a[1], "tc_packet") == (Lin({}, 0), None))
        ck.verdict("P-MUST", "check_pus_crc", "returns CRC16(whole packet) == 0", [] if ok else [f"returns {show(r)[:100]}"], show(r)[:80])

    # ---------------------------------------------------------------- TC / TM encoders incl. stale-cache sequences
    for cls, fields, widths, setters in (("ecss.tc.PusTc", TC_FIELDS, TC_WIDTHS, ("apid", "seq_count", "source_id", "app_data")),
                                         ("ecss.tm.PusTm", TM_FIELDS, TM_WIDTHS, ("apid", "tm_data"))):
        short = cls.split(".")[-1]
        # one object per (first call, observed serialisation): observing through pack() refreshes the cached CRC, which
        # would hide a stale trailer on the to_space_packet() path (and vice versa)
        for first, only in ((f_, h_) for f_ in ("pack", "calc_crc", "to_space_packet") for h_ in ("pack", "to_space_packet")):
            it = new_interp(P); env = Env()
            kw = {k: sym(k, ty=t) for k, t in fields.items()}
            try:
                obj = construct(it, env, cls, kw)
                w = dict(widths)
                hdr = read_path(it, env, obj, "sp_header")

                def all_forms(tag):
                    for how in (only,):
                        if how == "pack":
                            p = call_method(it, env, obj, "pack")
                        else:
                            p = call_method(it, env, call_method(it, env, obj, "to_space_packet"), "pack")
                        register_lens(p)
                        wd = dict(w)
                        cells = crc_last_and_total(ck, it, p, f"{short}.{how}", f"{tag}, first call {first}", wd)
                        total = stream_len(cells)
                        dl = linearize(read_path(it, env, obj, "sp_header.data_len"))
                        cons = f"space packet data length field == packed octets - 7 ({tag}, first call {first}, via {how})"
                        if total is not None and (total - Lin({}, 7)).key() == dl.key():
                            ck.proved("L-LEN", f"{short}.{how}", cons, f"{dl!r}")
                        else:
                            ck.refuted("L-LEN", f"{short}.{how}", cons, f"field {dl!r}, packed {total!r}")
                if first == "pack":
                    call_method(it, env, obj, "pack")
                elif first == "calc_crc":
                    call_method(it, env, obj, "calc_crc")
                else:
                    call_method(it, env, obj, "to_space_packet")
                all_forms("unchanged object")
                for s_ in setters:
                    ty = "bytes" if s_ in ("app_data", "tm_data") else "int"
                    it.setattr(obj, s_, sym(s_ + "_new", ty=ty), env, None, None)
                    w[s_ + "_new"] = widths.get(s_, 16)
                    all_forms(f"after set {s_}")
            except Unsupported as e:
                ck.unknown("W-PACK", short, f"sequence starting with {first}", str(e))

    # ---------------------------------------------------------------- PDU encoders / decoders
    cases = PD.config_cases(ck.tier)
    tasks = [(k.name, c, v) for k in PD.DIRECTIVES for c in cases for v in k.variants] + [("File Data", c, v) for c in cases for v in c07.VARIANTS]
    run_parallel(ck, "spverif.props.c04", "pdu_pack_task", tasks)
    dtasks = [(k.name, k.cls, i, c) for k in PD.DIRECTIVES for i, c in enumerate(cases)] + [("File Data", "cfdp.pdu.file_data.FileDataPdu", i, c) for i, c in enumerate(cases)]
    run_parallel(ck, "spverif.props.c04", "pdu_decode_task", dtasks)
    for what, mn in (("PDU pack analyses", len(tasks)), ("PDU decode analyses", len(dtasks))):
        cnt = ck.analysed.get(what, 0)
        ck.floors = [f for f in ck.floors if f[0] != what]
        ck.floor(what, cnt, mn)

    # ---------------------------------------------------------------- TC / TM decoders and wrappers
    data = sym("data", ty="bytes")
    tl = sym("timestamp_len", ty="int")
    dlf = T("unpacked", "!H", T("slice", data, C(4), C(6), ty="bytes"), ty="int")
    Nl = linearize(binop("+", dlf, C(7)))
    for cls, args, exc in (("ecss.tc.PusTc", [data], "ecss.tc.InvalidTcCrc16"), ("ecss.tm.PusTm", [data, tl], "ecss.tm.InvalidTmCrc16"),
                           ("ecss.pus_17_test.Service17Tm", [data, tl], "ecss.tm.InvalidTmCrc16"),
                           ("ecss.pus_1_verification.Service1Tm", None, "ecss.tm.InvalidTmCrc16")):
        it = new_interp(P); env = Env()
        env.add_fact(binop(">=", tl, C(0)))
        short = cls.split(".")[-1]
        try:
            if args is None:
                up = it.symbolic_value("params", P.cls("ecss.pus_1_verification.UnpackParams").qual)
                args = [data, up]
            dec = call_method(it, env, T("class", P.cls(cls).qual), "unpack", args)
        except Unsupported as e:
            ck.unknown("P-MUST", f"{short}.unpack", "decode", str(e))
            continue
        D.check_crc_verified(ck, it, env, f"{short}.unpack", "data", Lin({}, 0), Nl, exc)
    # PduFactory.from_raw reaches the decoders: every kind, one case with CRC
    for kind_name, cls, code in [(k.name, k.cls, k.code) for k in PD.DIRECTIVES] + [("File Data", "cfdp.pdu.file_data.FileDataPdu", None)]:
        E, S = 1, 1
        H = CF.header_len(E, S)
        it = CF.decode_interp(P, "data", b0=CF.octet0(1 if code is None else 0, 0, 0, 1, 0), b3=CF.octet3(E, S))
        if code is not None:
            it.concrete_bytes[("data", H)] = code
        env = Env()
        try:
            dec = call_method(it, env, T("class", P.cls("cfdp.pdu.helper.PduFactory").qual), "from_raw", [data])
        except Unsupported as e:
            ck.unknown("P-MUST", "PduFactory.from_raw", kind_name, str(e))
            continue
        N = binop("+", CF.data_field_len_term(data), C(H))
        D.check_crc_verified(ck, it, env, f"PduFactory.from_raw [{kind_name}]", "data", Lin({}, 0), linearize(N), "cfdp.exceptions.InvalidCrc")
