"""C12 - PDU factory, raw-buffer inspectors and holder."""
from __future__ import annotations

from ..index import Program
from ..gti import new_interp, call_method, construct, read_path, Env, Unsupported
from ..terms import T, C, sym, show, binop, length, NONE
from ..linear import Lin, linearize
from ..bits import data_bits_be, BitCtx
from .. import rules as R
from .. import decode_rules as D
from .. import cfdp_common as CF
from .. import pdus as PD
from .. import pdu_decode as DEC
from . import c07

HELPER = "cfdp.pdu.helper"
ACCESSOR = {"EOF": "to_eof_pdu", "Finished": "to_finished_pdu", "ACK": "to_ack_pdu", "Metadata": "to_metadata_pdu", "NAK": "to_nak_pdu",
            "Prompt": "to_prompt_pdu", "Keep Alive": "to_keep_alive_pdu", "File Data": "to_file_data_pdu"}


def kinds():
    return [(k.name, k.cls, k.code) for k in PD.DIRECTIVES] + [("File Data", "cfdp.pdu.file_data.FileDataPdu", None)]


def factory_task(ck, task):
    P = Program(ck.repo)
    (name, cls, code), (E, S, crc, large), *sm = task
    sm = sm[0] if sm else 0          # segment metadata flag (File Data only)
    H = CF.header_len(E, S)
    data = DEC.DATA
    fq = P.cls(f"{HELPER}.PduFactory").qual
    tag = f"{name} E={E},S={S},crc={crc},large={large}" + (",segmeta=1" if sm else "")

    def interp():
        it = CF.decode_interp(P, "data", b0=CF.octet0(1 if code is None else 0, 0, 0, crc, large), b3=CF.octet3(E, S, seg_meta=sm))
        if code is not None:
            it.concrete_bytes[("data", H)] = code
        return it
    it = interp(); env = Env()
    try:
        got = call_method(it, env, T("class", fq), "from_raw", [data])
    except Unsupported as e:
        ck.unknown("D-TABLE", "PduFactory.from_raw", tag, str(e))
        return
    ck.floor("factory analyses", 1, 0)
    want = P.cls(cls).qual
    ok = got.k == "obj" and got.ty == want
    ck.verdict("D-TABLE", "PduFactory.from_raw", f"a packed {name} PDU decodes to an instance of {cls.split('.')[-1]} ({tag})",
               [] if ok else [f"returns {show(got)[:80]} of type {got.ty}"], f"{got.ty}")
    if not ok:
        return
    # the factory adds no transformation: same decoded state as the kind's own decoder
    it2 = interp(); env2 = Env()
    own = call_method(it2, env2, T("class", want), "unpack", [data])
    a = {p: t for p, t in D.reachable_cells(it, env, got)}
    b = {p: t for p, t in D.reachable_cells(it2, env2, own)}
    diff = [p for p in sorted(set(a) | set(b)) if show(a.get(p)) != show(b.get(p))]
    # object ids differ between the two runs; compare printed terms with ids normalised
    import re
    norm = lambda t: re.sub(r"undef\(\d+,", "undef(#,", re.sub(r"#\d+", "#", show(t))) if t is not None else None
    diff = [p for p in sorted(set(a) | set(b)) if norm(a.get(p)) != norm(b.get(p))]
    ck.verdict("D-TABLE", "PduFactory.from_raw", f"result has exactly the state {cls.split('.')[-1]}.unpack produces ({tag})",
               [f"{p}: {norm(a.get(p))} vs {norm(b.get(p))}"[:160] for p in diff[:3]], f"{len(a)} cells identical")
    D.check_escape(ck, it, f"PduFactory.from_raw [{tag}]", allowed=DEC.allowed_classes(P))
    # the header the factory result carries is the one the octets encode (IDs at 4, 4+E, 4+E+S)
    DEC.check_fields(ck, it, env, got, "PduFactory.from_raw", tag, [
        ("pdu_header.source_entity_id.value", "bits", 32, 8 * E), ("pdu_header.transaction_seq_num.value", "bits", 32 + 8 * E, 8 * S),
        ("pdu_header.dest_entity_id.value", "bits", 32 + 8 * E + 8 * S, 8 * E)])
    if code is None and not env.dead:
        # re-packing identically needs the decoded object to report (and re-emit) the declared length; for File Data the
        # length is recomputed by the setters the decoder runs, so it is compared with the declared one here
        _sc = {}
        pl = D.simplify(D.simplify(read_path(it, env, got, "packet_len"), env.facts, _sc), env.facts, _sc)
        from ..linear import linearize, Lin
        R.check_lin_equal(ck, pl, linearize(CF.data_field_len_term(data)) + Lin({}, H), "PduFactory.from_raw",
                          f"the decoded File Data PDU reports the declared length, so that it re-packs to the same octets ({tag})", rule="L-LEN")
    # inspectors on the same octets
    it3 = interp(); env3 = Env()
    pt = call_method(it3, env3, T("class", fq), "pdu_type", [data])
    ck.verdict("W-VAL", "PduFactory.pdu_type", f"inspector reports the PDU type the octets carry ({tag})",
               [] if pt.k == "const" and pt.a[0] == (1 if code is None else 0) else [show(pt)[:60]], show(pt)[:40], nontrivial=False)
    dt = call_method(it3, env3, T("class", fq), "pdu_directive_type", [data])
    wantd = None if code is None else code
    ck.verdict("W-VAL", "PduFactory.pdu_directive_type", f"inspector reports the directive code the octets carry ({tag})",
               [] if dt.k == "const" and dt.a[0] == wantd else [show(dt)[:60]], show(dt)[:40], nontrivial=False)
    dtp = read_path(it, env, got, "directive_type") if code is not None else None
    if code is not None:
        ok = dtp.k == "const" and dtp.a[0] == code or (dtp.k == "idx")
        ck.verdict("D-TABLE", "PduFactory.from_raw", f"decoded directive_type == {code:#x} ({tag})", [] if ok else [show(dtp)[:60]], show(dtp)[:40], nontrivial=False)


def holder_task(ck, task):
    P = Program(ck.repo)
    held_name, = task
    hq = f"{HELPER}.PduHolder"
    for acc_name, acc in ACCESSOR.items():
        it = new_interp(P); env = Env()
        try:
            conf = CF.make_conf(it, env, P, 1, 1, crc=0, large=0)
            if held_name == "File Data":
                obj = c07.build(it, env, P, conf, "no metadata")
            else:
                kind = [k for k in PD.DIRECTIVES if k.name == held_name][0]
                obj = kind.builder(it, env, P, conf, 0, kind.variants[0]).obj
            holder = construct(it, env, hq, dict(pdu=obj))
            n0 = len(it.raises)
            r = call_method(it, env, holder, acc)
        except Unsupported as e:
            ck.unknown("G-REFUSE", f"PduHolder.{acc}", f"holding {held_name}", str(e))
            continue
        rs = [x for x in it.raises[n0:] if not x["caught"]]
        if held_name == acc_name:
            ok = (not env.dead) and r == obj
            ck.verdict("D-TABLE", f"PduHolder.{acc}", f"holder of a {held_name} PDU returns it", [] if ok else [f"dead={env.dead}, returns {show(r)[:60]}"], "same object")
        else:
            ok = env.dead and rs and all(it.exc_matches(x["exc"], ("TypeError",)) for x in rs)
            why = "returns " + show(r)[:60] if not env.dead else f"raises {[x['exc'] for x in rs]}"
            ck.verdict("G-REFUSE", f"PduHolder.{acc}", f"holder of a {held_name} PDU raises TypeError", [] if ok else [why], "all paths raise TypeError")


def run(ck):
    from ..report import run_parallel
    P = Program(ck.repo)
    ck.explanation = (
        "Static check of PduFactory/PduHolder. For each of the eight PDU kinds and each configuration case the factory is "
        "abstractly interpreted with octet 0, octet 3 and the directive-code octet concrete: the result must be an instance of "
        "exactly the kind's class whose reachable state is term-for-term the state the kind's own decoder produces (the factory "
        "adds no transformation), the inspectors must report the same PDU type and directive code, undefined directive codes are "
        "refused with ValueError. The code -> class table is checked against each class's directive_type and for exhaustiveness "
        "over the DirectiveType enum. The holder's eight accessors are run against holders of each of the eight kinds (64 pairs): "
        "identity on the diagonal, TypeError on every path elsewhere. pdu_type / pdu_directive_type are checked per bit "
        "symbolically and for all 16 width pairs.")
    for r, t in (("D-TABLE", "factory / holder tables agree with the classes and are exhaustive"), ("W-VAL", "inspectors read the reference bits / offset"),
                 ("G-REFUSE", "wrong kind => TypeError on all paths; undefined codes => ValueError"), ("E-ESC", "documented exceptions only"), ("L-LEN", "decoded File Data PDU reports the declared length"), ("X-BUF", "reads in bounds")):
        ck.rule(r, t)
    ck.trusted += ["reference code table in spverif/pdus.py (CCSDS 727.0-B-5 table 5-4)"]
    ck.assumptions += ["round-trip equality of the decoded PDU with the packed one is inherited from C06/C07 (the factory's result is shown to be the decoder's result)"]
    cases = PD.config_cases(ck.tier)
    sel = cases if ck.tier == "thorough" else cases[:3] + cases[4:5]
    run_parallel(ck, "spverif.props.c12", "factory_task", [(k, c) for k in kinds() for c in sel] + [(k, c, 1) for k in kinds() if k[2] is None for c in sel])
    run_parallel(ck, "spverif.props.c12", "holder_task", [(k[0],) for k in kinds()])
    cnt = ck.analysed.get("factory analyses", 0)
    ck.floors = [f for f in ck.floors if f[0] != "factory analyses"]
    ck.floor("factory analyses", cnt, 9 * 4)

    # ---------------------------------------------------------------- exhaustiveness of the code table
    it = new_interp(P)
    members = {n: v.a[0] for n, v in it.class_namespace(P.cls("cfdp.pdu.file_directive.DirectiveType").qual).items() if v.k == "const" and isinstance(v.a[0], int)}
    table = {k.code for k in PD.DIRECTIVES}
    enum_codes = {v for n, v in members.items() if n != "NONE"}
    ck.verdict("D-TABLE", "DirectiveType", "directive codes of the enum (minus NONE) == the seven codes of the reference table",
               [] if enum_codes == table else [f"enum {sorted(enum_codes)} vs table {sorted(table)}"], f"{sorted(table)}")
    # undefined / NONE codes
    data = DEC.DATA
    fq = P.cls(f"{HELPER}.PduFactory").qual
    for code in sorted(set(range(0, 16)) - table):
        it = CF.decode_interp(P, "data", b0=CF.octet0(0, 0, 0, 0, 0), b3=CF.octet3(1, 1))
        it.concrete_bytes[("data", 7)] = code
        env = Env()
        try:
            r = call_method(it, env, T("class", fq), "from_raw", [data])
        except Unsupported as e:
            ck.unknown("G-REFUSE", "PduFactory.from_raw", f"code {code}", str(e))
            continue
        rs = [x for x in it.raises if not x["caught"]]
        if code == members.get("NONE"):
            ok = (not env.dead) and r.k == "const" and r.a[0] is None
            ck.verdict("D-TABLE", "PduFactory.from_raw", f"directive code {code:#x} (NONE) yields no PDU", [] if ok else [show(r)[:60]], "None", nontrivial=False)
        else:
            ok = env.dead and all(it.exc_matches(x["exc"], ("ValueError",)) for x in rs)
            ck.verdict("G-REFUSE", "PduFactory.from_raw", f"undefined directive code {code:#x} is refused with ValueError", [] if ok else [f"dead={env.dead} {show(r)[:40]}"], "enum cast refuses")

    # ---------------------------------------------------------------- inspectors
    it = new_interp(P); env = Env()
    pt = R.run_guarded(ck, "W-VAL", "PduFactory.pdu_type", "call", lambda: call_method(it, env, T("class", fq), "pdu_type", [data]))
    if pt is not None:
        R.check_field_bits(ck, it, pt, data_bits_be("data", 3, 1), "PduFactory.pdu_type", "PDU type == bit 4 of octet 0", rule="W-VAL")
        D.check_xbuf(ck, it, "PduFactory.pdu_type"); D.check_escape(ck, it, "PduFactory.pdu_type")
    for E, S in CF.width_pairs("thorough"):
        it = CF.decode_interp(P, "data", b0=CF.octet0(0, 0, 0, 0, 0), b3=CF.octet3(E, S, seg_ctrl=(E + S) % 2, seg_meta=(E * S) % 2))
        env = Env()
        dt = R.run_guarded(ck, "W-VAL", "PduFactory.pdu_directive_type", "call", lambda: call_method(it, env, T("class", fq), "pdu_directive_type", [data]))
        if dt is None:
            continue
        H = CF.header_len(E, S)
        R.check_field_bits(ck, it, dt, data_bits_be("data", H * 8, 8), "PduFactory.pdu_directive_type", f"directive code == octet {H} = 4+2E+S (E={E},S={S})", rule="W-VAL")
        D.check_xbuf(ck, it, f"PduFactory.pdu_directive_type [E={E},S={S}]")
        D.check_escape(ck, it, f"PduFactory.pdu_directive_type [E={E},S={S}]")
    it = CF.decode_interp(P, "data", b0=CF.octet0(1, 0, 0, 0, 0)); env = Env()
    dt = call_method(it, env, T("class", fq), "pdu_directive_type", [data])
    ck.verdict("W-VAL", "PduFactory.pdu_directive_type", "a File Data PDU has no directive code (None)", [] if dt.k == "const" and dt.a[0] is None else [show(dt)[:60]], "None", nontrivial=False)
