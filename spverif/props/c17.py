"""C17 - USLP primary headers and transfer frames (CCSDS 732.1-B-2 4.1)."""
from __future__ import annotations

from ..index import Program
from ..gti import new_interp, call_method, construct, read_path, Env, Unsupported
from ..terms import T, C, sym, show, binop, un, length, NONE, as_bcat
from ..layout import F, K, A, B, CRC
from ..linear import Lin, linearize
from ..bits import data_bits_be, BitCtx
from .. import rules as R
from .. import decode_rules as D

HQ = "uslp.header"
FQ = "uslp.frame"
HW = {"scid": 16, "vcid": 6, "map_id": 4, "frame_len": 16}
FP_RULES = (0, 1, 2)


def allowed(P):
    return ("ValueError",) + tuple(P.cls(f"uslp.defs.{n}").qual for n in ("UslpInvalidFrameHeader", "UslpInvalidRawPacketOrFrameLen", "UslpInvalidConstructionRules",
                                                                         "UslpFhpVhopFieldMissing", "UslpTruncatedFrameNotAllowed", "UslpVersionMissmatch", "UslpTypeMissmatch"))


def common_spec(trunc):
    return [K(4, 0b1100), F("scid", 16), F("src_dest", 1), F("vcid", 6), F("map_id", 4), K(1, int(trunc))]


def header_spec(n):
    s = common_spec(False) + [F("frame_len", 16), F("bypass", 1), F("prot", 1), K(2, 0), F("op_ctrl_flag", 1), K(3, n)]
    if n:
        s.append(F("vcf_count", 8 * n))
    return s


def mk_header(it, env, P, n, trunc=False, op=None):
    kw = dict(scid=sym("scid", ty="int"), src_dest=sym("src_dest", ty=P.cls(f"{HQ}.SourceOrDestField").qual), vcid=sym("vcid", ty="int"), map_id=sym("map_id", ty="int"))
    if trunc:
        return construct(it, env, f"{HQ}.TruncatedPrimaryHeader", kw)
    kw.update(frame_len=sym("frame_len", ty="int"), bypass_seq_ctrl_flag=sym("bypass", ty=P.cls(f"{HQ}.BypassSequenceControlFlag").qual),
              prot_ctrl_cmd_flag=sym("prot", ty=P.cls(f"{HQ}.ProtocolCommandFlag").qual), op_ctrl_flag=sym("op_ctrl_flag", ty="bool") if op is None else C(op),
              vcf_count_len=C(n), vcf_count=sym("vcf_count", ty="int") if n else NONE)
    return construct(it, env, f"{HQ}.PrimaryHeader", kw)


def hw(n):
    w = dict(HW)
    w["vcf_count"] = 8 * n if n else 8
    return w


def check_refusal(ck, env, fn, goal, what):
    st, m = D.prove(env.facts, goal)
    if st == "proved":
        ck.proved("G-REFUSE", fn, what, f"normal return implies {show(goal)[:80]}")
    elif st == "refutable":
        ck.refuted("G-REFUSE", fn, what, f"accepted: {m}", witness=m)
    else:
        ck.unknown("G-REFUSE", fn, what, str(m))


def frame_unpack_task(ck, task):
    P = Program(ck.repo)
    ftype, n, op, has_iz, has_fz, trunc = task
    raw = sym("raw_frame", ty="bytes")
    it = new_interp(P); env = Env()
    it.concrete_bytes[("raw_frame", 3)] = 1 if trunc else 0
    if not trunc:
        it.concrete_bytes[("raw_frame", 6)] = (op << 3) | n
    iz, fz, tl, fl = sym("iz", ty="int"), sym("fz", ty="int"), sym("truncated_frame_len", ty="int"), sym("fixed_len", ty="int")
    for s_ in (iz, fz, tl, fl):
        env.add_fact(binop(">=", s_, C(0)))
    tag = f"{ftype} frame, vcf count length {n}, OCF {op}, insert zone {has_iz}, FECF {has_fz}, truncated {trunc}"
    fn = "TransferFrame.unpack"
    try:
        kw = dict(has_insert_zone=C(has_iz), has_fecf=C(has_fz), insert_zone_len=iz if has_iz else NONE, fecf_len=fz if has_fz else NONE)
        if ftype == "FIXED":
            props = construct(it, env, f"{FQ}.FixedFrameProperties", dict(fixed_len=fl, **kw))
        else:
            props = construct(it, env, f"{FQ}.VarFrameProperties", dict(truncated_frame_len=tl, **kw))
        ft = T("const", f"FrameType.{ftype}", ty=P.cls(f"{FQ}.FrameType").qual)
        fr = call_method(it, env, T("class", P.cls(f"{FQ}.TransferFrame").qual), "unpack", [raw, ft, props])
    except Unsupported as e:
        ck.unknown("W-UNPACK", fn, tag, str(e))
        return
    ck.floor("frame decode analyses", 1, 0)
    D.check_escape(ck, it, f"{fn} [{tag}]", allowed=allowed(P))
    if trunc and ftype == "FIXED":
        rs = [x for x in it.raises if not x["caught"] and x["kind"] == "explicit"]
        ok = env.dead and any(x["exc"].endswith("UslpTruncatedFrameNotAllowed") for x in rs)
        ck.verdict("G-REFUSE", fn, f"a truncated header in a fixed-length frame raises UslpTruncatedFrameNotAllowed ({tag})", [] if ok else ["accepted or other error"], "raise")
        return
    if env.dead:
        ck.refuted("W-UNPACK", fn, f"decoder accepts some input ({tag})", "every path raises")
        return
    D.check_xbuf(ck, it, f"{fn} [{tag}]")
    H = 4 if trunc else 7 + n
    frame_len = binop("|", binop("<<", T("idx", raw, C(4), ty="int"), C(8)), T("idx", raw, C(5), ty="int"))
    N = tl if trunc else binop("+", frame_len, C(1))
    Nl = linearize(N)
    D.check_xdecl(ck, it, f"{fn} [{tag}]", "raw_frame", N, extra_facts=env.facts)
    check_refusal(ck, env, fn, binop(">=", length(raw), N), f"a buffer shorter than the declared frame is refused ({tag})")
    if ftype == "FIXED":
        check_refusal(ck, env, fn, binop("==", N, fl), f"a frame length field that disagrees with the managed fixed length is refused ({tag})")
    _sc = {}
    simp = lambda v: D.simplify(D.simplify(v, env.facts, _sc), env.facts, _sc)
    izl = Lin({iz: 1}) if has_iz else Lin({}, 0)
    fzl = Lin({fz: 1}) if has_fz else Lin({}, 0)
    ocl = Lin({}, 4 if (op and not trunc) else 0)
    pos = Lin({}, H)
    if has_iz:
        R.check_slice_extent(ck, simp(read_path(it, env, fr, "insert_zone")), "raw_frame", pos, pos + izl, fn, f"insert zone == raw[{H} : {H}+iz] ({tag})")
    else:
        v = read_path(it, env, fr, "insert_zone")
        ck.verdict("W-UNPACK", fn, f"no insert zone ({tag})", [] if v.k == "const" and v.a[0] is None else [show(v)[:40]], "None", nontrivial=False)
    pos = pos + izl
    tf_end = Nl - ocl - fzl
    # the data zone: after the 1-octet TFDF header (variable frames never carry the pointer; fixed frames: FP rules do)
    tfdz = simp(read_path(it, env, fr, "tfdf.tfdz"))
    if ftype == "VARIABLE":
        R.check_slice_extent(ck, tfdz, "raw_frame", pos + Lin({}, 1), tf_end, fn, f"data zone == raw[tfdf start + 1 : N - OCF - FECF] ({tag})")
    else:
        # FIXED: the start depends on the construction rule octet; accept start+1 or start+3 and check the end
        ok_end = False
        from ..bits import buffer_pos
        leaves = D_leaves(tfdz)
        probs = []
        for leaf in leaves:
            if leaf.k != "slice":
                probs.append(f"not a slice: {show(leaf)[:60]}")
                continue
            p = buffer_pos(T("slice", leaf.a[0], leaf.a[2], NONE), Lin({}, 0)) if not D.is_const(leaf.a[2], None) else None
            lo = buffer_pos(leaf, Lin({}, 0))
            if p is None or lo is None or p[1].key() != tf_end.key():
                probs.append(f"data zone ends at {p[1] if p else 'end of buffer'}; reference {tf_end!r}")
            else:
                d = lo[1] - pos
                okd = d.key() in (Lin({}, 1).key(), Lin({}, 3).key())
                if not okd and d.c == 0 and len(d.co) == 1:
                    (atom, coef), = d.co.items()
                    okd = coef == 1 and atom.k == "gamma" and {show(x) for x in D_leaves(atom)} <= {"1", "3"}
                if not okd:
                    probs.append(f"data zone starts {d!r} after the TFDF start; reference 1 or 3")
        ck.verdict("W-UNPACK", fn, f"data zone == raw[tfdf start + 1|3 : N - OCF - FECF] ({tag})", probs, f"{len(leaves)} alternatives")
    if op and not trunc:
        R.check_slice_extent(ck, simp(read_path(it, env, fr, "op_ctrl_field")), "raw_frame", tf_end, tf_end + Lin({}, 4), fn, f"OCF == 4 octets after the data field ({tag})")
    if has_fz:
        R.check_slice_extent(ck, simp(read_path(it, env, fr, "fecf")), "raw_frame", tf_end + ocl, tf_end + ocl + fzl, fn, f"FECF == last fz octets of the declared frame ({tag})")
    hl = call_method(it, env, read_path(it, env, fr, "header"), "len")
    R.check_lin_equal(ck, hl, Lin({}, H), fn, f"decoded header reports its length {H} ({tag})")
    D.check_independent(ck, it, env, fr, "raw_frame", f"{fn} [{tag}]")


def D_leaves(t):
    if t.k == "gamma":
        return D_leaves(t.a[1]) + D_leaves(t.a[2])
    return [t]


def run(ck):
    from ..report import run_parallel
    P = Program(ck.repo)
    ck.explanation = (
        "Static check of the USLP primary headers, the transfer frame data field and the transfer frame against CCSDS 732.1-B-2 "
        "4.1. Headers: pack() per bit for the truncated header and for each VCF-count length 0..7 (the length only steers control "
        "flow, so it is enumerated; fields straddling octets are handled by bit provenance); decoders per bit with the structure "
        "octets concrete, reads in bounds and inside 7+n, version / header-type refusals, out-of-range ID refusals. Data field: "
        "pack() for all 8 construction rules x truncated x frame type against the pointer-presence table, len() against the "
        "layout, decoder offsets and extents. Frame: pack order header | insert zone | data field | OCF | FECF, len() and "
        "set_frame_len_in_header against the layout, decoder offset chain for fixed/variable frames with symbolic insert-zone and "
        "FECF sizes, the USLP refusals.")
    for r, t in (("W-PACK", "layouts"), ("W-UNPACK", "decoded bits / extents"), ("L-LEN", "len() == layout length"), ("G-RANGE", "ID ranges"),
                 ("G-REFUSE", "USLP error conditions"), ("X-BUF", "reads in bounds"), ("X-DECL", "reads inside declared unit"), ("E-ESC", "documented exceptions"), ("D-TABLE", "pointer-presence table")):
        ck.rule(r, t)
    ck.trusted += ["reference layouts in spverif/props/c17.py (CCSDS 732.1-B-2 figures 4-2, 4-3, 4-5)"]
    ck.assumptions += ["flag arguments are members of their enums / booleans", "managed sizes (insert zone, FECF) are non-negative"]
    AL = allowed(P)
    # ---------------------------------------------------------------- header encoders
    it = new_interp(P); env = Env()
    th = mk_header(it, env, P, 0, trunc=True)
    n0 = len(it.raises)
    p = call_method(it, env, th, "pack")
    R.check_pack_layout(ck, it, env, p, common_spec(True), "TruncatedPrimaryHeader.pack", "4 octets == TFVN 1100 | SCID | src/dest | VCID | MAP | end-of-header 1", extra_widths=HW)
    R.check_lin_equal(ck, call_method(it, env, th, "len"), Lin({}, 4), "TruncatedPrimaryHeader.len", "len() == 4")
    for name, hi in (("scid", 65535), ("vcid", 63), ("map_id", 15)):
        v = sym(name, ty="int")
        st, m = D.prove(env.facts, binop("<=", v, C(hi)))
        ck.verdict3("G-RANGE", "PrimaryHeaderBase._pack_common_header", f"{name} above {hi} is refused", st, m, "guard")
    for x in it.raises[n0:]:
        if x["kind"] == "explicit" and not x["caught"]:
            ck.verdict("G-RANGE", "PrimaryHeaderBase._pack_common_header", "out-of-range IDs raise ValueError", [] if it.exc_matches(x["exc"], ("ValueError",)) else [x["exc"]], x["exc"], nontrivial=False)
    for n in range(8):
        it = new_interp(P); env = Env()
        h = R.run_guarded(ck, "W-PACK", "PrimaryHeader.__init__", f"n={n}", lambda: mk_header(it, env, P, n))
        if h is None:
            continue
        p = call_method(it, env, h, "pack")
        R.check_pack_layout(ck, it, env, p, header_spec(n), "PrimaryHeader.pack", f"{7 + n} octets == reference layout (VCF count length {n})", extra_widths=hw(n))
        R.check_lin_equal(ck, call_method(it, env, h, "len"), Lin({}, 7 + n), "PrimaryHeader.len", f"len() == {7 + n}")
    # ---------------------------------------------------------------- header decoders
    data = sym("raw_packet", ty="bytes")
    for trunc in (True, False):
        for n in ((0,) if trunc else range(8)):
            for flags in ((0, 0, 0), (1, 1, 1)) if not trunc else ((0, 0, 0),):
                it = new_interp(P); env = Env()
                if not trunc:
                    it.concrete_bytes[("raw_packet", 6)] = (flags[0] << 7) | (flags[1] << 6) | (flags[2] << 3) | n
                cls = "TruncatedPrimaryHeader" if trunc else "PrimaryHeader"
                fn = f"{cls}.unpack"
                tag = "truncated" if trunc else f"VCF count length {n}, flags {flags}"
                dec = R.run_guarded(ck, "W-UNPACK", fn, tag, lambda: call_method(it, env, T("class", P.cls(f"{HQ}.{cls}").qual), "unpack", [data]))
                if dec is None:
                    continue
                D.check_escape(ck, it, f"{fn} [{tag}]", allowed=AL)
                D.check_xbuf(ck, it, f"{fn} [{tag}]")
                D.check_xdecl(ck, it, f"{fn} [{tag}]", "raw_packet", C(4 if trunc else 7 + n), extra_facts=env.facts)
                for name, off, w in (("scid", 4, 16), ("src_dest", 20, 1), ("vcid", 21, 6), ("map_id", 27, 4)):
                    R.check_field_bits(ck, it, read_path(it, env, dec, name), data_bits_be("raw_packet", off, w), fn, f"decoded {name} == bits {off}..{off + w - 1} ({tag})")
                b0 = T("idx", data, C(0), ty="int"); b3 = T("idx", data, C(3), ty="int")
                check_refusal(ck, env, fn, binop("==", binop(">>", binop("&", b0, C(0xF0)), C(4)), C(0b1100)), f"a version other than 1100 is refused ({tag})")
                check_refusal(ck, env, fn, binop("==", binop("&", b3, C(1)), C(1 if trunc else 0)), f"the wrong end-of-header flag is refused ({tag})")
                check_refusal(ck, env, fn, binop(">=", length(data), C(4 if trunc else 7 + n)), f"a buffer shorter than the header is refused ({tag})")
                if not trunc:
                    R.check_field_bits(ck, it, read_path(it, env, dec, "frame_len"), data_bits_be("raw_packet", 32, 16), fn, f"decoded frame_len == octets 4..5 ({tag})")
                    for name, want in (("bypass_seq_ctrl_flag", flags[0]), ("prot_ctrl_cmd_flag", flags[1]), ("op_ctrl_flag", flags[2]), ("vcf_count_len", n)):
                        v = read_path(it, env, dec, name)
                        ck.verdict("W-UNPACK", fn, f"decoded {name} == its bits of octet 6 ({tag})", [] if v.k == "const" and v.a[0] == want else [f"{show(v)[:40]} != {want}"], "folded", nontrivial=False)
                    if n:
                        R.check_field_bits(ck, it, read_path(it, env, dec, "vcf_count"), data_bits_be("raw_packet", 56, 8 * n), fn, f"decoded VCF count == {n} octets big-endian at 7 ({tag})")
                    R.check_lin_equal(ck, call_method(it, env, dec, "len"), Lin({}, 7 + n), fn, f"decoded header len() == {7 + n} ({tag})")
                D.check_independent(ck, it, env, dec, "raw_packet", f"{fn} [{tag}]")
    # octet 6 bit positions, symbolically
    it = new_interp(P); env = Env()
    dec = R.run_guarded(ck, "W-UNPACK", "PrimaryHeader.unpack", "symbolic", lambda: call_method(it, env, T("class", P.cls(f"{HQ}.PrimaryHeader").qual), "unpack", [data]))
    if dec is not None:
        for name, off, w in (("bypass_seq_ctrl_flag", 48, 1), ("prot_ctrl_cmd_flag", 49, 1), ("op_ctrl_flag", 52, 1), ("vcf_count_len", 53, 3)):
            R.check_field_bits(ck, it, read_path(it, env, dec, name), data_bits_be("raw_packet", off, w), "PrimaryHeader.unpack", f"decoded {name} == bits {off}..{off + w - 1}")
    it = new_interp(P); env = Env()
    hs = sym("header_start", ty="bytes")
    r = R.run_guarded(ck, "W-VAL", "determine_header_type", "call", lambda: it.call_func(P.func(f"{HQ}.determine_header_type"), [], {"header_start": hs}, env))
    if r is not None:
        ok = r.k == "gamma" and show(r.a[1]).find("TRUNCATED") >= 0 and show(r.a[1]).find("NON_") < 0
        cond = r.a[0] if r.k == "gamma" else None
        from ..bits import norm_bits
        # the join of the normal exits carries the length guard as a conjunct; the deciding conjunct is the bit test
        conj = []
        stack = [cond] if cond is not None else []
        while stack:
            x = stack.pop()
            if x.k == "op" and x.a[0] == "and":
                stack += [x.a[1], x.a[2]]
            else:
                conj.append(x)
        bitc = [x for x in conj if "len(" not in show(x)]
        bv = norm_bits(bitc[0], BitCtx()) if len(bitc) == 1 else None
        ok = ok and bv is not None and bv.take(1) == data_bits_be("header_start", 31, 1)
        ck.verdict("W-VAL", "determine_header_type", "TRUNCATED exactly when bit 0 of octet 3 is set", [] if ok else [show(r)[:80]], show(r)[:60])
        D.check_xbuf(ck, it, "determine_header_type"); D.check_escape(ck, it, "determine_header_type", allowed=AL)
    # ---------------------------------------------------------------- data field
    rq = P.cls(f"{FQ}.TfdzConstructionRules").qual
    ftq = P.cls(f"{FQ}.FrameType").qual
    for rule in range(8):
        for trunc in (False, True):
            for ft in (None, "FIXED", "VARIABLE"):
                it = new_interp(P); env = Env()
                tag = f"rule {rule:03b}, truncated {trunc}, frame type {ft}"
                try:
                    tf = construct(it, env, f"{FQ}.TransferFrameDataField", dict(tfdz_cnstr_rules=T("const", rule, ty=rq), uslp_ident=sym("uslp_ident", ty=P.cls(f"{FQ}.UslpProtocolIdentifier").qual),
                                                                                   tfdz=sym("tfdz", ty="bytes"), fhp_or_lvop=sym("fhp", ty="int")))
                    p = call_method(it, env, tf, "pack", [], dict(truncated=C(trunc), frame_type=NONE if ft is None else T("const", f"FrameType.{ft}", ty=ftq)))
                except Unsupported as e:
                    ck.unknown("W-PACK", "TransferFrameDataField.pack", tag, str(e))
                    continue
                ptr = rule in FP_RULES and not trunc and ft != "VARIABLE"
                spec = [K(3, rule), F("uslp_ident", 5)] + ([F("fhp", 16)] if ptr else []) + [B("tfdz")]
                R.check_pack_layout(ck, it, env, p, spec, "TransferFrameDataField.pack", f"rules | UPID | {'pointer | ' if ptr else ''}data zone ({tag})", extra_widths={"fhp": 16}, rule="D-TABLE" if rule in FP_RULES else "W-PACK")
                if not trunc and ft is None:
                    R.check_lin_equal(ck, call_method(it, env, tf, "len"), R.spec_len(spec), "TransferFrameDataField.len", f"len() == packed size of the default pack() ({tag})")
    # no pointer stored: header is one octet
    it = new_interp(P); env = Env()
    tf = construct(it, env, f"{FQ}.TransferFrameDataField", dict(tfdz_cnstr_rules=T("const", 7, ty=rq), uslp_ident=sym("uslp_ident", ty=P.cls(f"{FQ}.UslpProtocolIdentifier").qual), tfdz=sym("tfdz", ty="bytes")))
    R.check_lin_equal(ck, call_method(it, env, tf, "len"), Lin({length(sym("tfdz", ty="bytes")): 1}, 1), "TransferFrameDataField.len", "len() == 1 + len(tfdz) without pointer")
    it.setattr(tf, "tfdz", sym("tfdz2", ty="bytes"), env, None, None)
    R.check_lin_equal(ck, call_method(it, env, tf, "len"), Lin({length(sym("tfdz2", ty="bytes")): 1}, 1), "TransferFrameDataField.tfdz setter", "len() tracks a new data zone")
    # data field decoder
    rt = sym("raw_tfdf", ty="bytes")
    el = sym("exact_len", ty="int")
    for rule in range(8):
        for trunc in (False, True):
            for ft in (None, "FIXED", "VARIABLE"):
                it = new_interp(P); env = Env()
                it.concrete_bytes[("raw_tfdf", 0)] = (rule << 5) | 0x05
                env.add_fact(binop(">=", el, C(0)))
                tag = f"rule {rule:03b}, truncated {trunc}, frame type {ft}"
                fn = "TransferFrameDataField.unpack"
                try:
                    dec = call_method(it, env, T("class", P.cls(f"{FQ}.TransferFrameDataField").qual), "unpack", [],
                                      dict(raw_tfdf=rt, truncated=C(trunc), exact_len=el, frame_type=NONE if ft is None else T("const", f"FrameType.{ft}", ty=ftq)))
                except Unsupported as e:
                    ck.unknown("W-UNPACK", fn, tag, str(e))
                    continue
                D.check_escape(ck, it, f"{fn} [{tag}]", allowed=AL)
                mismatch = ft is not None and ((ft == "FIXED") != (rule in FP_RULES))
                if mismatch:
                    rs = [x for x in it.raises if not x["caught"] and x["kind"] == "explicit"]
                    ok = env.dead and any(x["exc"].endswith("UslpInvalidConstructionRules") for x in rs)
                    ck.verdict("G-REFUSE", fn, f"construction rules that do not fit the frame type raise UslpInvalidConstructionRules ({tag})", [] if ok else ["accepted"], "raise")
                    continue
                if env.dead:
                    ck.refuted("W-UNPACK", fn, f"decoder accepts some input ({tag})", "every path raises")
                    continue
                D.check_xbuf(ck, it, f"{fn} [{tag}]")
                ptr = rule in FP_RULES and not trunc and ft != "VARIABLE"
                v = read_path(it, env, dec, "tfdz_contr_rules")
                ck.verdict("W-UNPACK", fn, f"decoded rules == bits 7..5 of octet 0 ({tag})", [] if v.k == "const" and v.a[0] == rule else [show(v)[:40]], "folded", nontrivial=False)
                if ptr:
                    R.check_field_bits(ck, it, read_path(it, env, dec, "fhp_or_lvop"), data_bits_be("raw_tfdf", 8, 16), fn, f"pointer == octets 1..2 ({tag})")
                else:
                    v = read_path(it, env, dec, "fhp_or_lvop")
                    ck.verdict("D-TABLE", fn, f"no pointer decoded ({tag})", [] if v.k == "const" and v.a[0] is None else [show(v)[:40]], "None", nontrivial=False)
                R.check_slice_extent(ck, read_path(it, env, dec, "tfdz"), "raw_tfdf", Lin({}, 3 if ptr else 1), Lin({el: 1}), fn, f"data zone == raw[{3 if ptr else 1} : exact_len] ({tag})")
                # the decoded object reports the size it packs to (the decoder goes through its own construction path)
                try:
                    from ..terms import bcat_len, as_bcat
                    pk = call_method(it, env, dec, "pack", [], dict(truncated=C(trunc), frame_type=NONE if ft is None else T("const", f"FrameType.{ft}", ty=ftq)))
                    if not env.dead and pk.k == "bcat":
                        R.check_lin_equal(ck, call_method(it, env, dec, "len"), linearize(bcat_len(pk)), fn, f"len() of the decoded data field == octets it packs to ({tag})", rule="L-LEN")
                except Unsupported as e:
                    ck.unknown("L-LEN", fn, f"len() of the decoded data field == octets it packs to ({tag})", str(e))
    it = new_interp(P); env = Env()
    dec = call_method(it, env, T("class", P.cls(f"{FQ}.TransferFrameDataField").qual), "unpack", [], dict(raw_tfdf=rt, truncated=C(False), exact_len=el, frame_type=NONE))
    R.check_field_bits(ck, it, read_path(it, env, dec, "tfdz_contr_rules"), data_bits_be("raw_tfdf", 0, 3), "TransferFrameDataField.unpack", "rules == bits 7..5 of octet 0 (symbolic)")
    R.check_field_bits(ck, it, read_path(it, env, dec, "uslp_ident"), data_bits_be("raw_tfdf", 3, 5), "TransferFrameDataField.unpack", "UPID == bits 4..0 of octet 0 (symbolic)")
    # ---------------------------------------------------------------- frame encoder
    for n, op, has_iz, has_ocf, has_fecf in ((0, True, True, True, True), (2, False, False, False, True), (3, True, False, True, False), (0, False, True, False, False)):
        it = new_interp(P); env = Env()
        tag = f"VCF count length {n}, OCF flag {op}, insert zone {has_iz}, OCF {has_ocf}, FECF {has_fecf}"
        try:
            h = mk_header(it, env, P, n, op=op)
            tf = construct(it, env, f"{FQ}.TransferFrameDataField", dict(tfdz_cnstr_rules=T("const", 7, ty=rq), uslp_ident=sym("uslp_ident", ty=P.cls(f"{FQ}.UslpProtocolIdentifier").qual), tfdz=sym("tfdz", ty="bytes")))
            fr = construct(it, env, f"{FQ}.TransferFrame", dict(header=h, tfdf=tf, insert_zone=sym("insert_zone", ty="bytes") if has_iz else NONE,
                                                               op_ctrl_field=sym("op_ctrl_field", ty="bytes") if has_ocf else NONE, fecf=sym("fecf", ty="bytes") if has_fecf else NONE))
            p = call_method(it, env, fr, "pack")
        except Unsupported as e:
            ck.unknown("W-PACK", "TransferFrame.pack", tag, str(e))
            continue
        spec = header_spec(n)
        spec = [K(1, int(op)) if isinstance(c, F) and c.name == "op_ctrl_flag" else c for c in spec]
        spec += ([B("insert_zone")] if has_iz else []) + [K(3, 7), F("uslp_ident", 5), B("tfdz")] + ([B("op_ctrl_field")] if has_ocf else []) + ([B("fecf")] if has_fecf else [])
        if has_ocf != op:
            rs = [x for x in it.raises if not x["caught"] and x["kind"] == "explicit"]
            ck.verdict("G-REFUSE", "TransferFrame.pack", f"OCF presence that contradicts the header flag raises UslpInvalidFrameHeader ({tag})",
                       [] if env.dead and any(x["exc"].endswith("UslpInvalidFrameHeader") for x in rs) else ["packed"], "raise")
            continue
        R.check_pack_layout(ck, it, env, p, spec, "TransferFrame.pack", f"header | insert zone | data field | OCF | FECF ({tag})", extra_widths=hw(n))
        lens = {"op_ctrl_field": Lin({length(sym("op_ctrl_field", ty="bytes")): 1})}
        R.check_lin_equal(ck, call_method(it, env, fr, "len"), R.spec_len(spec), "TransferFrame.len", f"len() == packed size ({tag})")
        call_method(it, env, fr, "set_frame_len_in_header")
        R.check_lin_equal(ck, read_path(it, env, h, "frame_len"), R.spec_len(spec) - Lin({}, 1), "TransferFrame.set_frame_len_in_header", f"frame_len field == packed size - 1 ({tag})")
        if has_ocf:
            st, m = D.prove(env.facts, binop("==", length(sym("op_ctrl_field", ty="bytes")), C(4)))
            ck.verdict3("G-REFUSE", "TransferFrame.pack", f"an OCF that is not 4 octets is refused ({tag})", st, m, "guard")
    # ---------------------------------------------------------------- frame decoder
    tasks = []
    for ftype in ("FIXED", "VARIABLE"):
        for n, op, iz_, fz_ in ((0, 0, False, False), (2, 1, True, True), (3, 1, False, True), (1, 0, True, False)):
            tasks.append((ftype, n, op, iz_, fz_, False))
    tasks += [("VARIABLE", 0, 0, False, True, True), ("VARIABLE", 0, 0, True, False, True), ("FIXED", 0, 0, False, False, True)]
    run_parallel(ck, "spverif.props.c17", "frame_unpack_task", tasks)
    cnt = ck.analysed.get("frame decode analyses", 0)
    ck.floors = [f for f in ck.floors if f[0] != "frame decode analyses"]
    ck.floor("frame decode analyses", cnt, len(tasks))
