"""C06 - CFDP file-directive PDUs (CCSDS 727.0-B-5 5.2)."""
from __future__ import annotations

from ..index import Program
from ..gti import new_interp, call_method, construct, read_path, Env, Unsupported
from ..terms import T, C, sym, show, binop, length, NONE
from ..layout import F, K, A, B, CRC
from ..linear import Lin, linearize
from ..bits import data_bits_be, BitCtx
from .. import rules as R
from .. import decode_rules as D
from .. import cfdp_common as CF
from .. import pdus as PD
from .. import pdu_decode as DEC


def run(ck):
    P = Program(ck.repo)
    ck.explanation = (
        "Static check of the seven CFDP file-directive PDUs against reference layouts written from CCSDS 727.0-B-5 5.2. "
        "Encoder: every directive is constructed with symbolic parameters for each configuration case (entity-ID/sequence widths, "
        "CRC flag, large-file flag - values the code only compares, so they are enumerated) and each parameter variant (optional "
        "TLVs, lists of 0 and 2 items); pack() is abstractly interpreted and the octet stream compared per bit with the table: "
        "header, directive code, parameter fields in order and big-endian, TLV/LV items in list order, CRC cell iff flag, and the "
        "data-field-length cell equal to the layout's own length after the header; packet_len likewise. Decoder: under each case "
        "the structure-determining octets 0 and 3 are concrete; every decoded parameter is compared with the reference input bits "
        "at the reference offset; reads are proven in bounds and inside the declared PDU; the escape set is checked.")
    ck.rule("W-PACK", "normalised layout of <Pdu>.pack() == reference, per configuration case and variant")
    ck.rule("L-LEN", "pdu_data_field_len / packet_len == length of the reference layout")
    ck.rule("W-UNPACK", "decoded parameters == reference input bits / extents at the reference offsets")
    ck.rule("G-RANGE", "file-size-sensitive values reach struct.pack untruncated")
    ck.rule("X-BUF", "reads inside the buffer"); ck.rule("X-DECL", "reads inside the declared PDU (before the CRC trailer for parameters)")
    ck.rule("E-ESC", "documented exception classes only"); ck.rule("P-MUST", "CRC verified when the flag is set")
    ck.rule("Q-EQ", "__eq__ sensitive to every parameter")
    ck.rule("A-ALIAS", "constructing/packing stores nothing into the caller's configuration (shared with C11)")
    ck.trusted += ["struct/bytearray/slice semantics as modelled", "reference tables in spverif/pdus.py", "str.encode()/decode() are opaque, length-correct primitives"]
    ck.assumptions += ["enum-typed parameters are members of their enums", "TLV list elements are well-formed TLV objects",
                       "decoded TLV/segment lists produced by summarised loops are checked for bounds and progress, not element-wise"]
    cases = PD.config_cases(ck.tier)
    npack = 0
    for kind in PD.DIRECTIVES:
        for (E, S, crc, large) in cases:
            for variant in kind.variants:
                it = new_interp(P); env = Env()
                tag = f"{kind.name}/{variant} E={E},S={S},crc={crc},large={large}"
                fn = f"{kind.cls.split('.')[-1]}.pack"

                def build():
                    conf = CF.make_conf(it, env, P, E, S, crc=crc, large=large)
                    return kind.builder(it, env, P, conf, large, variant)
                v = R.run_guarded(ck, "W-PACK", fn, f"construct {tag}", build)
                if v is None:
                    continue
                if env.dead:
                    ck.refuted("W-PACK", fn, f"construct {tag}", "constructor refuses valid parameters: " + "; ".join(r["text"][:50] for r in it.raises if not r["caught"])[:200])
                    continue
                p = R.run_guarded(ck, "W-PACK", fn, f"pack {tag}", lambda: call_method(it, env, v.obj, "pack"))
                if p is None:
                    continue
                npack += 1
                spec, tail_len, total = PD.directive_spec(kind, v, E, S, crc, large)
                w = dict(CF.header_widths(E, S)); w.update(v.widths)
                R.check_pack_layout(ck, it, env, p, spec, fn, f"packed octets == reference layout ({tag})", extra_widths=w)
                R.check_lin_equal(ck, read_path(it, env, v.obj, "packet_len"), total, fn.replace(".pack", ".packet_len"), f"packet_len == packed size ({tag})")
                R.check_lin_equal(ck, read_path(it, env, v.obj, "pdu_header.pdu_data_field_len"), tail_len, fn.replace(".pack", ".pdu_data_field_len"),
                                  f"data field length == octets after the header ({tag})")
                if v.fss_syms:
                    ck.verdict("G-RANGE", fn, f"file-size-sensitive values packed untruncated ({tag})", PD.fss_not_truncated(p, set(v.fss_syms)),
                               "bare values reach struct.pack, which refuses out-of-range values")
                # packing twice gives the same octets (no hidden state)
                p2 = call_method(it, env, v.obj, "pack")
                ck.verdict("W-PACK", fn, f"second pack() yields the same octets ({tag})", [] if p2 == p else [f"second result differs: {show(p2)[:120]}"], "terms identical", nontrivial=False)
    ck.floor("directive pack analyses", npack, 7 * len(cases))
    DEC.check_directive_decoders(ck, P, cases)
    DEC.check_equalities(ck, P)
    # decoded lists (Finished filestore responses, NAK segment requests) and packed buffers are built in local
    # accumulators: none of them is dropped on one exit while another exit keeps it
    from ..keep_rule import check_keep
    check_keep(ck, ck.repo, ["cfdp/pdu"], floor=1)
    # "data-field length equal to the number of octets after the header" also holds for a PDU whose parameters were
    # changed through its setters: the mutated-versus-fresh sequences of C11, per directive kind, under two cases
    from ..report import run_parallel
    run_parallel(ck, "spverif.props.c11", "pdu_task", [(k.name, c) for k in PD.DIRECTIVES for c in cases[:4]])
