"""C10 - decoding arbitrary or truncated input fails only in documented ways."""
from __future__ import annotations

from ..index import Program
from ..terms import T, C, sym, show, binop, un, length, NONE
from ..gti import Unsupported
from .. import decode_rules as D
from .. import targets as TG


def term_check(ck, run):
    """T-TERM: in every summarised while-loop some integer cursor strictly grows on the path that continues"""
    it = run.it
    ends = [n for n in it.notes if n.get("kind") == "loop-end"]
    seen = set()
    for n in ends:
        key = (n["func"], getattr(n["node"], "lineno", 0))
        if key in seen:
            continue
        seen.add(key)
        fnn = f"{run.entry} [{run.tag}]" if run.tag else run.entry
        cons = f"loop at {n['func']} makes progress on every iteration (or exits)"
        if n["next"] is None:
            ck.proved("T-TERM", fnn, cons, "the body always leaves the loop")
            continue
        ok = False
        why = []
        for var, head in n["head"].items():
            nxt = n["next"].get(var)
            if nxt is None or head.ty not in ("int", None) and head.ty != "int":
                continue
            from ..linear import delta_lower_bound
            lb = delta_lower_bound(nxt, head)
            if lb is not None and lb >= 1:
                ok = True
                why.append(f"{var} grows by at least {lb} on every path of the body")
                break
            st, m = D.budgeted_prove(n["facts"], binop(">", nxt, head))
            if st == "proved":
                ok = True
                why.append(f"{var} grows: {show(nxt)[:60]} > {show(head)[:30]}")
                break
        if ok:
            ck.proved("T-TERM", fnn, cons, why[0])
        else:
            # queue-draining loops shrink their container instead of growing a cursor
            src = ""
            try:
                import ast as _a
                src = _a.unparse(n["node"])
            except Exception:
                pass
            if ".popleft()" in src or ".pop()" in src:
                ck.proved("T-TERM", fnn, cons, "each iteration removes one element of the container it tests", nontrivial=False)
            else:
                ck.assume("T-TERM", fnn, cons, "no strictly growing cursor could be shown from the loop-body facts")


def prefix_check(ck, run, fnn):
    """strict prefixes: a normal return implies that the buffer holds at least the length the unit declares"""
    if run.N is None or run.root is None or run.env.dead or run.partial:
        return
    from ..terms import sym as _sym, free_syms
    if {str(x) for x in free_syms(run.N)} - {run.root}:
        return          # the length comes from the caller, not from the octets: not a self-delimiting unit
    goal = binop(">=", length(_sym(run.root, ty="bytes")), run.N)
    what = "a strict prefix of a self-delimiting unit is refused: every normal return has len(buffer) >= declared length"
    st, m = D.budgeted_prove(list(run.env.facts), goal)
    if st == "proved":
        ck.proved("G-REFUSE", fnn, what, f"normal return implies {show(goal)[:80]}")
    elif st == "refutable":
        ck.refuted("G-REFUSE", fnn, what, f"accepted although shorter than declared: {{{', '.join(f'{show(k)[:40]}={v}' for k, v in m.items())}}}", witness=m)
    else:
        ck.assume("G-REFUSE", fnn, what, str(m)[:160])


def task(ck, t):
    P = Program(ck.repo)
    try:
        for run in TG.runs_for(P, ck.tier, t):
            ck.floor("decoder runs", 1, 0)
            fnn = f"{run.entry} [{run.tag}]" if run.tag else run.entry
            D.check_escape(ck, run.it, fnn, allowed=run.allowed)
            D.check_xbuf(ck, run.it, fnn)
            term_check(ck, run)
            prefix_check(ck, run, fnn)
            ck.proved("D-TABLE", fnn, "entry point analysed", f"{len(run.it.reads)} reads, {len(run.it.raises)} raise sites", nontrivial=False)
    except Unsupported as e:
        ck.unknown("E-ESC", str(t), "target group analysed", f"unsupported construct: {e}")


def run(ck):
    from ..report import run_parallel, Checker
    P = Program(ck.repo)
    ck.explanation = (
        "Static check of the exception-escape set of every public decoder. Entry points are discovered by signature (first "
        "parameter an octet string) and cross-checked against a catalogue that says how each is analysed; every catalogued "
        "decoder is abstractly interpreted with all callees inlined - fully symbolically where its control flow allows, otherwise "
        "by finite case analysis over the structure-determining octets (CFDP octets 0/3 and directive code, TLV type octet, USLP "
        "flag octet, subservice octet). From the raise log: every explicit raise that is feasible must be a documented class "
        "(ValueError and subclasses, the CRC errors, UnsupportedCfdpVersion, TlvTypeMissmatch, the USLP errors); modelled "
        "may-raise operations (enum casts, .decode(), assert, dict lookup, attribute of a possibly-None value) likewise. From the "
        "read log: every index and every struct.unpack on an octet string is proven in bounds from the guard facts in force "
        "(IndexError / struct.error cannot occur), with exact slice-clamping axioms; a refutation is reported only with a concrete "
        "octet string. Loops: each summarised loop must strictly advance a cursor. Reads inside summarised loops whose bound "
        "needs an inductive invariant are listed as undecided, not claimed.")
    for r, t in (("E-ESC", "feasible raises are documented classes"), ("X-BUF", "index / struct.unpack in bounds"), ("T-TERM", "decoder loops make progress"), ("G-REFUSE", "normal return implies len(buffer) >= declared length (strict prefixes are refused)"), ("D-TABLE", "every discovered entry point is catalogued")):
        ck.rule(r, t)
    ck.trusted += ["the may-raise model of the interpreter (spverif/interp*.py): indexing, struct, enum casts, decode, assert, dict lookup, None attributes"]
    ck.assumptions += ["arguments other than the octet string are of their annotated types", "strict-prefix rejection follows from X-BUF plus the length refusals checked in C02/C03/C05-C08/C17"]
    tasks = TG.all_tasks(ck.tier)
    # run_parallel merges obligations; entries analysed are returned through the analysed map
    import concurrent.futures as cf
    run_parallel(ck, "spverif.props.c10", "task", tasks)
    cnt = ck.analysed.get("decoder runs", 0)
    ck.floors = [f for f in ck.floors if f[0] != "decoder runs"]
    ck.floor("decoder runs", cnt, len(tasks))
    # discovery cross-check
    analysed = set()
    for o in ck.obs:
        analysed.add(o["func"].split(" [")[0])
    found = TG.discover(P)
    from ..report import UNKNOWN as _UNK
    n = 0
    for short in found:
        if short in TG.NOT_DECODERS:
            ck.proved("D-TABLE", short, "octet-string function outside the decoder set", TG.NOT_DECODERS[short], nontrivial=False)
            continue
        n += 1
        if short in analysed:
            ck.proved("D-TABLE", short, "public decoder is catalogued and was analysed", "escape set and reads checked above", nontrivial=False)
        else:
            # an entry point the catalogue does not know (a new public helper): analysed generically - the octet string and
            # every other parameter symbolic - with the same read / escape rules; only if that is not possible is the run
            # incomplete
            group_failed = [o for o in ck.obs if o.get("status") == _UNK and "target group analysed" in str(o.get("construct", "")) + str(o.get("what", ""))]
            if group_failed or any(o.get("rule") == "ENGINE" for o in ck.obs):
                # a catalogued group could not be analysed: this entry point may well be one of its members, with its own
                # documented classes - nothing is decided about it here
                ck.unknown("D-TABLE", short, "public decoder is catalogued and was analysed", "no analysis target covered this entry point in this run (a target group could not be analysed)")
                continue
            try:
                f = P.func(short)
                it = TG.new_interp(P); env = TG.Env()
                params = [a_.arg for a_ in f.node.args.posonlyargs + f.node.args.args]
                if f.kind == "classmethod":
                    params = params[1:]
                kwargs = {}
                for i_, pn in enumerate(params):
                    ann = next((a_.annotation for a_ in f.node.args.posonlyargs + f.node.args.args if a_.arg == pn), None)
                    ty = it.ann_type(f.module, ann) if ann is not None else None
                    kwargs[pn] = TG.sym(pn, ty="bytes" if i_ == 0 else (ty if isinstance(ty, str) and ty in ("int", "bool", "bytes") else "int"))
                if f.kind == "method":
                    raise Unsupported("instance method")
                it.call_func(f, [], kwargs, env)
                fnn = f"{short} [generic]"
                # every class some catalogued decoder documents (the generic run cannot know which apply to a new helper)
                docs = ["ValueError"]
                for qn in ("cfdp.exceptions.InvalidCrc", "cfdp.defs.UnsupportedCfdpVersion", "cfdp.exceptions.TlvTypeMissmatch", "ecss.tc.InvalidTcCrc16", "ecss.tm.InvalidTmCrc16"):
                    try:
                        docs.append(P.cls(qn).qual)
                    except Exception:  # noqa: BLE001
                        pass
                docs += [q_ for q_ in P.classes if q_.startswith("spacepackets.uslp.") and P.is_exception(q_)]
                D.check_escape(ck, it, fnn, allowed=tuple(docs))
                D.check_xbuf(ck, it, fnn)
                ck.proved("D-TABLE", short, "public decoder is catalogued and was analysed", "not in the catalogue: analysed generically (all parameters symbolic)", nontrivial=False)
            except Unsupported as e:
                ck.unknown("D-TABLE", short, "public decoder is catalogued and was analysed", f"no analysis target covers this entry point, generic analysis not possible: {e}")
            except Exception as e:  # noqa: BLE001
                ck.unknown("D-TABLE", short, "public decoder is catalogued and was analysed", f"no analysis target covers this entry point ({type(e).__name__}: {e})")
    ck.floor("public decoders discovered", n, 45)
