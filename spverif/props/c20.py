"""C20 - unsigned byte fields: value, width and big-endian octets stay coherent."""
from __future__ import annotations

import struct

from ..index import Program
from ..gti import new_interp, call_method, construct, read_path, Env, Unsupported
from ..terms import T, C, sym, show, binop, length, NONE, as_bcat, free_syms
from ..layout import F, K, A, B, CRC
from ..linear import Lin, linearize
from ..bits import data_bits_be, BitCtx
from .. import rules as R
from .. import decode_rules as D

U = "util"
WIDTHS = (1, 2, 4, 8)
UNSIGNED = {1: "!B", 2: "!H", 4: "!I", 8: "!Q"}
SIGNED = {1: "!b", 2: "!h", 4: "!i", 8: "!q"}
SUBCLASS = {1: "ByteFieldU8", 2: "ByteFieldU16", 4: "ByteFieldU32", 8: "ByteFieldU64"}


def run(ck):
    P = Program(ck.repo)
    ck.explanation = (
        "Static check of UnsignedByteField, its four fixed-width subclasses, ByteFieldGenerator and IntByteConversion. The two "
        "struct-specifier tables are extracted by constant evaluation and compared with the reference (size == width, big-endian, "
        "signedness); for every width the constructor, both generator entry points and the value setter (integer and octet form) "
        "are abstractly interpreted: the octet view must be the big-endian image of the value in exactly that width (per bit), "
        "the integer/length views the same value and width, octet input is cut to exactly the width; range and width guards are "
        "decided by linear entailment in both directions; __eq__/__hash__ must key on exactly (value, width).")
    for r, t in (("D-TABLE", "specifier tables / width dispatch == reference"), ("W-PACK", "as_bytes == big-endian image of value in `width` octets"),
                 ("W-UNPACK", "value built from octets == the first `width` octets, big-endian"), ("G-RANGE", "value/width/too-short guards, ValueError"),
                 ("P-MUST", "setter updates value and octet view together"), ("Q-EQ", "__eq__/__hash__ key == (value, width)"), ("E-ESC", "ValueError only")):
        ck.rule(r, t)
    ck.trusted += ["struct format semantics (calcsize, '!' = big-endian, case = signedness)"]
    ubq = P.cls(f"{U}.UnsignedByteField").qual
    ibc = P.cls(f"{U}.IntByteConversion").qual

    # ---------------------------------------------------------------- specifier tables
    for name, table in (("unsigned_struct_specifier", UNSIGNED), ("signed_struct_specifier", SIGNED)):
        fobj = P.func(f"{U}.IntByteConversion.{name}")
        for n in range(0, 10):
            it = new_interp(P); env = Env()
            r = R.run_guarded(ck, "D-TABLE", f"IntByteConversion.{name}", f"n={n}", lambda: it.call_func(fobj, [C(n)], {}, env))
            if r is None:
                continue
            if n in table:
                fmt = r.a[0] if r.k == "const" else None
                probs = []
                if fmt != table[n]:
                    probs.append(f"returns {show(r)[:40]}, reference {table[n]!r}")
                elif struct.calcsize(fmt) != n:
                    probs.append("size mismatch")
                ck.verdict("D-TABLE", f"IntByteConversion.{name}", f"specifier for {n} octets == {table[n]!r} (size {n}, big-endian, {'un' if table is UNSIGNED else ''}signed)", probs, str(fmt))
            else:
                rs = [x for x in it.raises if not x["caught"]]
                ok = env.dead and rs and all(it.exc_matches(x["exc"], ("ValueError",)) for x in rs)
                ck.verdict("G-RANGE", f"IntByteConversion.{name}", f"width {n} is refused with ValueError", [] if ok else [f"returns {show(r)[:40]}"], "raises", nontrivial=False)

    # ---------------------------------------------------------------- per width: constructor, views, generator, setters
    for n in WIDTHS:
        hi = 2 ** (8 * n) - 1
        for how in ("base", "subclass", "from_int"):
            it = new_interp(P); env = Env()
            v = sym("val", ty="int")
            tag = f"width {n} via {how}"

            def mk():
                if how == "base":
                    return construct(it, env, f"{U}.UnsignedByteField", dict(val=v, byte_len=C(n)))
                if how == "subclass":
                    return construct(it, env, f"{U}.{SUBCLASS[n]}", dict(val=v))
                return it.call_func(P.func(f"{U}.ByteFieldGenerator.from_int"), [], dict(byte_len=C(n), val=v), env)
            f = R.run_guarded(ck, "W-PACK", "UnsignedByteField", f"construct {tag}", mk)
            if f is None:
                continue
            fn = {"base": "UnsignedByteField.__init__", "subclass": f"{SUBCLASS[n]}.__init__", "from_int": "ByteFieldGenerator.from_int"}[how]
            if how != "base":
                ck.verdict("D-TABLE", fn, f"{tag} yields a {SUBCLASS[n]}", [] if f.k == "obj" and f.ty == P.cls(f"{U}.{SUBCLASS[n]}").qual else [f"{f.ty}"], str(f.ty), nontrivial=False)
            R.check_range_guard(ck, it, env.facts, it.raises, {"val": (v, 0, hi)}, fn + f" [{n}]")
            R.check_pack_layout(ck, it, env, as_bcat(read_path(it, env, f, "as_bytes")), [F("val", 8 * n)], fn, f"as_bytes == big-endian value in {n} octets ({tag})", extra_widths={"val": 8 * n})
            for view, want in (("value", v), ("byte_len", C(n))):
                got = read_path(it, env, f, view)
                ck.verdict("W-VAL", fn, f"{view} view ({tag})", [] if got == want else [f"{show(got)[:60]}"], show(got)[:40], nontrivial=False)
            got = it.call_builtin("int", [f], {}, env, None)
            ck.verdict("W-VAL", "UnsignedByteField.__int__", f"int(field) == value ({tag})", [] if got == v else [show(got)[:60]], "identity", nontrivial=False)
            got = it.call_builtin("len", [f], {}, env, None)
            ck.verdict("W-VAL", "UnsignedByteField.__len__", f"len(field) == width ({tag})", [] if got == C(n) else [show(got)[:60]], "identity", nontrivial=False)
            if how != "base":
                continue
            # integer setter keeps both views in step
            v2 = sym("val2", ty="int")
            nr = len(it.raises)
            nf = len(env.facts)
            ns = len(it.stores)
            it.setattr(f, "value", v2, env, None, None)
            R.check_range_guard(ck, it, env.facts[nf:], it.raises[nr:], {"val2": (v2, 0, hi)}, f"UnsignedByteField.value setter (int) [{n}]")
            R.check_refusal_atomic(ck, it, f"UnsignedByteField.value setter (int) [{n}]", s0=ns, r0=nr, rule="G-RANGE")
            R.check_pack_layout(ck, it, env, as_bcat(read_path(it, env, f, "as_bytes")), [F("val2", 8 * n)], "UnsignedByteField.value setter",
                                f"after field.value = int: as_bytes == big-endian new value ({tag})", extra_widths={"val2": 8 * n}, rule="P-MUST")
            ck.verdict("P-MUST", "UnsignedByteField.value setter", f"after field.value = int: value view is the new value ({tag})",
                       [] if read_path(it, env, f, "value") == v2 else [show(read_path(it, env, f, "value"))[:60]], "identity", nontrivial=False)
            # octet setter: exactly the first n octets
            raw = sym("raw", ty="bytes")
            nr = len(it.raises); nf = len(env.facts); ns = len(it.stores)
            it.setattr(f, "value", as_bcat(raw), env, None, None)
            R.check_refusal_atomic(ck, it, f"UnsignedByteField.value setter (octets) [{n}]", s0=ns, r0=nr, rule="G-RANGE")
            _sc = {}; simp = lambda t: D.simplify(D.simplify(t, env.facts, _sc), env.facts, _sc)
            ab = simp(read_path(it, env, f, "as_bytes"))
            R.check_slice_extent(ck, ab, "raw", Lin({}, 0), Lin({}, n), "UnsignedByteField.value setter", f"after field.value = octets: as_bytes == exactly the first {n} octets ({tag})", rule="P-MUST")
            val = simp(read_path(it, env, f, "value"))
            R.check_field_bits(ck, it, val, data_bits_be("raw", 0, 8 * n), "UnsignedByteField.value setter", f"after field.value = octets: value == big-endian first {n} octets ({tag})", rule="P-MUST")
            st, m = D.prove(env.facts[nf:], binop(">=", length(raw), C(n)))
            ck.verdict3("G-RANGE", "UnsignedByteField._verify_bytes_value", f"octet strings shorter than {n} are refused ({tag})", st, m, "guard")
            D.check_escape(ck, it, f"UnsignedByteField [{tag}]")
        # from octets
        for how in ("from_bytes generator", "subclass classmethod", "UnsignedByteField.from_bytes"):
            it = new_interp(P); env = Env()
            stream = sym("stream", ty="bytes")
            tag = f"width {n} via {how}"

            def mk2():
                if how == "from_bytes generator":
                    return it.call_func(P.func(f"{U}.ByteFieldGenerator.from_bytes"), [], dict(byte_len=C(n), stream=stream), env)
                if how == "subclass classmethod":
                    meth = {1: "from_u8_bytes", 2: "from_u16_bytes", 4: "from_u32_bytes", 8: "from_u64_bytes"}[n]
                    return call_method(it, env, T("class", P.cls(f"{U}.{SUBCLASS[n]}").qual), meth, [stream])
                env.add_fact(binop("==", length(stream), C(n)))
                return call_method(it, env, T("class", ubq), "from_bytes", [stream])
            f = R.run_guarded(ck, "W-UNPACK", how, f"decode {tag}", mk2)
            if f is None:
                continue
            if how == "UnsignedByteField.from_bytes":
                # width is len(raw): evaluate the symbolic dispatch under len == n
                f_val = D.simplify(read_path(it, env, f, "value"), env.facts)
                bl = read_path(it, env, f, "byte_len")
                ok = linearize(bl).key() == linearize(length(stream)).key()
                ck.verdict("W-UNPACK", how, f"width == len(raw) ({tag})", [] if ok else [show(bl)[:60]], show(bl)[:40])
                continue
            fn = how
            _sc = {}; simp = lambda t: D.simplify(D.simplify(t, env.facts, _sc), env.facts, _sc)
            R.check_field_bits(ck, it, simp(read_path(it, env, f, "value")), data_bits_be("stream", 0, 8 * n), fn, f"value == big-endian first {n} octets ({tag})")
            bl = read_path(it, env, f, "byte_len")
            ck.verdict("W-UNPACK", fn, f"width == {n} ({tag})", [] if bl == C(n) else [show(bl)[:40]], "const", nontrivial=False)
            R.check_pack_layout(ck, it, env, as_bcat(simp(read_path(it, env, f, "as_bytes"))), [F("v", 8 * n)], fn, f"octet view re-encodes the decoded value in {n} octets ({tag})",
                                extra_widths={}, rule="W-PACK") if False else None
            st, m = D.prove(env.facts, binop(">=", length(stream), C(n)))
            ck.verdict3("G-RANGE", fn, f"octet strings shorter than {n} are refused ({tag})", st, m, "guard")
            D.check_xbuf(ck, it, f"{fn} [{n}]")
            D.check_escape(ck, it, f"{fn} [{n}]")
            D.check_independent(ck, it, env, f, "stream", f"{fn} [{n}]")
    # generator refusals
    for name, kw in (("from_int", dict(val=sym("val", ty="int"))), ("from_bytes", dict(stream=sym("stream", ty="bytes")))):
        for n in (0, 3, 5, 6, 7, 9, 16):
            it = new_interp(P); env = Env()
            r = R.run_guarded(ck, "G-RANGE", f"ByteFieldGenerator.{name}", f"n={n}", lambda: it.call_func(P.func(f"{U}.ByteFieldGenerator.{name}"), [], dict(byte_len=C(n), **kw), env))
            rs = [x for x in it.raises if not x["caught"]]
            ok = env.dead and rs and all(it.exc_matches(x["exc"], ("ValueError",)) for x in rs)
            ck.verdict("G-RANGE", f"ByteFieldGenerator.{name}", f"unsupported width {n} is refused with ValueError", [] if ok else ["returns normally"], "raises", nontrivial=False)
    # symbolic width: accepted set
    it = new_interp(P); env = Env()
    bl = sym("byte_len", ty="int")
    n0 = len(it.raises)
    R.run_guarded(ck, "G-RANGE", "UnsignedByteField.verify_byte_len", "call", lambda: it.call_func(P.func(f"{U}.UnsignedByteField.verify_byte_len"), [], dict(byte_len=bl), env))
    goal = None
    for k in (0, 1, 2, 4, 8):
        g = binop("==", bl, C(k))
        goal = g if goal is None else binop("or", goal, g)
    st, m = D.prove(env.facts, goal)
    ck.verdict3("G-RANGE", "UnsignedByteField.verify_byte_len", "accepted widths are exactly {0,1,2,4,8}", st, m, "membership fact")
    for k in (0, 1, 2, 4, 8):
        it2 = new_interp(P); env2 = Env()
        it2.call_func(P.func(f"{U}.UnsignedByteField.verify_byte_len"), [], dict(byte_len=C(k)), env2)
        ck.verdict("G-RANGE", "UnsignedByteField.verify_byte_len", f"width {k} is accepted", [] if not env2.dead else ["refused"], "returns", nontrivial=False)
    for r in it.raises[n0:]:
        if r["kind"] == "explicit":
            ck.verdict("G-RANGE", "UnsignedByteField.verify_byte_len", "refusal is a ValueError", [] if it.exc_matches(r["exc"], ("ValueError",)) else [r["exc"]], r["exc"], nontrivial=False)
    # empty field
    it = new_interp(P); env = Env()
    e = construct(it, env, f"{U}.ByteFieldEmpty", {})
    ab = read_path(it, env, e, "as_bytes")
    ok = (ab.k == "bcat" and not ab.a[0]) or (ab.k == "const" and ab.a[0] == b"")
    ck.verdict("W-PACK", "ByteFieldEmpty", "empty field: no octets, width 0, value 0", [] if ok and read_path(it, env, e, "byte_len") == C(0) and read_path(it, env, e, "value") == C(0) else [show(ab)[:40]], "empty")

    # ---------------------------------------------------------------- equality / hashing
    for na in WIDTHS:
        for nb in WIDTHS:
            it = new_interp(P); env = Env()
            a = construct(it, env, f"{U}.UnsignedByteField", dict(val=sym("a", ty="int"), byte_len=C(na)))
            b = construct(it, env, f"{U}.UnsignedByteField", dict(val=sym("b", ty="int"), byte_len=C(nb)))
            eq = it.compare("==", a, b, env, None)
            if na != nb:
                ck.verdict("Q-EQ", "UnsignedByteField.__eq__", f"fields of widths {na} and {nb} are never equal", [] if eq.k == "const" and eq.a[0] is False else [f"equality is {show(eq)[:60]}"], "False")
            else:
                ok = eq.k == "op" and eq.a[0] == "==" and free_syms(eq) == {"a", "b"}
                ck.verdict("Q-EQ", "UnsignedByteField.__eq__", f"fields of equal width {na} are equal iff the values are", [] if ok else [show(eq)[:60]], show(eq)[:40])
    it = new_interp(P); env = Env()
    a = construct(it, env, f"{U}.UnsignedByteField", dict(val=sym("a", ty="int"), byte_len=sym("la", ty="int")))
    h = it.call_builtin("hash", [a], {}, env, None)
    ok = h.k == "call" and h.a[0] == "hash" and len(h.a[1]) == 1 and h.a[1][0].k == "tuple" and [show(x) for x in h.a[1][0].a[0]] == ["a", "la"]
    ck.verdict("Q-EQ", "UnsignedByteField.__hash__", "hash key == (value, width)", [] if ok else [show(h)[:80]], show(h)[:60])
    rb = sym("other", ty="bytes")
    eqb = it.compare("==", a, as_bcat(rb), env, None)
    ck.verdict("Q-EQ", "UnsignedByteField.__eq__", "comparison with octets compares the octet view", [] if "other" in free_syms(eqb) else [show(eqb)[:60]], show(eqb)[:60], nontrivial=False)

    # ---------------------------------------------------------------- conversion helpers
    for n in WIDTHS:
        for name, table in (("to_unsigned", UNSIGNED), ("to_signed", SIGNED)):
            it = new_interp(P); env = Env()
            v = sym("val", ty="int")
            r = R.run_guarded(ck, "W-PACK", f"IntByteConversion.{name}", f"n={n}", lambda: it.call_func(P.func(f"{U}.IntByteConversion.{name}"), [], dict(byte_num=C(n), val=v), env))
            if r is None:
                continue
            ok = r.k == "bcat" and len(r.a[0]) == 1 and r.a[0][0].k == "packed" and r.a[0][0].a[0] == table[n] and r.a[0][0].a[1] == v
            ck.verdict("W-PACK", f"IntByteConversion.{name}", f"{n} octets: struct.pack({table[n]!r}, value) with the bare value", [] if ok else [show(r)[:80]], show(r)[:60])
            if name == "to_unsigned":
                st, m = D.prove(env.facts, binop("<=", v, C(2 ** (8 * n) - 1)))
                ck.verdict3("G-RANGE", f"IntByteConversion.{name}", f"{n} octets: values above {2 ** (8 * n) - 1:#x} are refused with ValueError", st, m, "guard")
            else:
                lim = 2 ** (8 * n - 1) - 1
                guard = [f for f in env.facts if "abs" in show(f)]
                ok = any(show(f).replace(" ", "") in (f"(abs(val)<={hex(lim) if lim > 9 else lim})",) for f in guard)
                ck.verdict("G-RANGE", f"IntByteConversion.{name}", f"{n} octets: |value| above {lim:#x} is refused with ValueError", [] if ok else [f"facts {[show(f) for f in guard]}"], "guard")
            for x in it.raises:
                if x["kind"] == "explicit" and not x["caught"]:
                    ck.verdict("E-ESC", f"IntByteConversion.{name}", f"refusal `{x['text'][:40]}` is a ValueError [{n}]", [] if it.exc_matches(x["exc"], ("ValueError",)) else [x["exc"]], x["exc"], nontrivial=False)
        for name in ("to_unsigned", "to_signed"):
            pass
    for name in ("to_unsigned", "to_signed"):
        it = new_interp(P); env = Env()
        r = it.call_func(P.func(f"{U}.IntByteConversion.{name}"), [], dict(byte_num=C(0), val=sym("val", ty="int")), env)
        ok = (r.k == "bcat" and not r.a[0]) or (r.k == "const" and r.a[0] == b"")
        ck.verdict("W-PACK", f"IntByteConversion.{name}", "0 octets: empty string", [] if ok else [show(r)[:40]], "empty", nontrivial=False)
        for n in (3, 5, 16):
            it = new_interp(P); env = Env()
            it.call_func(P.func(f"{U}.IntByteConversion.{name}"), [], dict(byte_num=C(n), val=sym("val", ty="int")), env)
            rs = [x for x in it.raises if not x["caught"]]
            ck.verdict("G-RANGE", f"IntByteConversion.{name}", f"width {n} is refused with ValueError", [] if env.dead and all(it.exc_matches(x["exc"], ("ValueError",)) for x in rs) else ["accepted"], "raises", nontrivial=False)
    ck.floor("byte-field widths analysed", len(WIDTHS), 4)
