"""C08 - CFDP TLV and LV items (CCSDS 727.0-B-5 5.1.9, 5.4)."""
from __future__ import annotations

from ..index import Program
from ..gti import new_interp, call_method, construct, read_path, Env, Unsupported
from ..terms import T, C, sym, show, binop, un, length, NONE, as_bcat
from ..layout import F, K, A, B, CRC
from ..linear import Lin, linearize
from ..bits import data_bits_be, BitCtx
from .. import rules as R
from .. import decode_rules as D
from .. import cfdp_common as CF
from .. import pdus as PD

TL = "cfdp.tlv.tlv"
DEFS = "cfdp.tlv.defs"
TLV_TYPES = {"FILESTORE_REQUEST": 0, "FILESTORE_RESPONSE": 1, "MESSAGE_TO_USER": 2, "FAULT_HANDLER": 4, "FLOW_LABEL": 5, "ENTITY_ID": 6}
SECOND_NAME = {2, 3, 4}          # RENAME, APPEND, REPLACE (727.0-B-5 table 5-16)
CONCRETE = {  # class -> (module, tlv type, accessor of the holder)
    "FileStoreRequestTlv": (TL, 0, "to_fs_request"), "FileStoreResponseTlv": (TL, 1, "to_fs_response"), "MessageToUserTlv": ("cfdp.tlv.msg_to_user", 2, "to_msg_to_user"),
    "FaultHandlerOverrideTlv": (TL, 4, "to_fault_handler_override"), "FlowLabelTlv": (TL, 5, "to_flow_label"), "EntityIdTlv": (TL, 6, "to_entity_id"),
}


def mismatch_q(P):
    return P.cls("cfdp.exceptions.TlvTypeMissmatch").qual


def build_concrete(it, env, P, cls, action=0):
    if cls == "FileStoreRequestTlv":
        return construct(it, env, f"{TL}.{cls}", dict(action_code=CF.enumc(P, f"{DEFS}.FilestoreActionCode", action), first_file_name=sym("first_file_name", ty="str"),
                                                       second_file_name=sym("second_file_name", ty="str")))
    if cls == "FileStoreResponseTlv":
        msg = construct(it, env, "cfdp.lv.CfdpLv", dict(value=sym("fs_msg", ty="bytes")))
        return construct(it, env, f"{TL}.{cls}", dict(action_code=CF.enumc(P, f"{DEFS}.FilestoreActionCode", action), status_code=CF.esym(P, "status_code", f"{DEFS}.FilestoreResponseStatusCode"),
                                                       first_file_name=sym("first_file_name", ty="str"), second_file_name=sym("second_file_name", ty="str"), filestore_msg=msg))
    if cls == "MessageToUserTlv":
        return construct(it, env, f"cfdp.tlv.msg_to_user.{cls}", dict(msg=sym("msg", ty="bytes")))
    if cls == "FaultHandlerOverrideTlv":
        return construct(it, env, f"{TL}.{cls}", dict(condition_code=CF.esym(P, "condition_code", "cfdp.defs.ConditionCode"), handler_code=CF.esym(P, "handler_code", "cfdp.defs.FaultHandlerCode")))
    if cls == "FlowLabelTlv":
        return construct(it, env, f"{TL}.{cls}", dict(flow_label=sym("flow_label", ty="bytes")))
    return construct(it, env, f"{TL}.{cls}", dict(entity_id=sym("entity_id", ty="bytes")))


def concrete_spec(cls, action=0):
    e1, e2 = PD.enc_len("first_file_name"), PD.enc_len("second_file_name")
    if cls == "FileStoreRequestTlv":
        val = [K(4, action), K(4, 0)] + PD.lv_spec("enc(first_file_name)", e1) + (PD.lv_spec("enc(second_file_name)", e2) if action in SECOND_NAME else [])
        return [K(8, 0), R.len_atom(8, R.spec_len(val))] + val
    if cls == "FileStoreResponseTlv":
        val = [K(4, action), F("status_code", 4)] + PD.lv_spec("enc(first_file_name)", e1) + (PD.lv_spec("enc(second_file_name)", e2) if action in SECOND_NAME else []) \
            + PD.lv_spec("fs_msg", PD.blen("fs_msg"))
        return [K(8, 1), R.len_atom(8, R.spec_len(val))] + val
    if cls == "MessageToUserTlv":
        return [K(8, 2), R.len_atom(8, PD.blen("msg")), B("msg")]
    if cls == "FaultHandlerOverrideTlv":
        return [K(8, 4), K(8, 1), F("condition_code", 4), F("handler_code", 4)]
    if cls == "FlowLabelTlv":
        return [K(8, 5), R.len_atom(8, PD.blen("flow_label")), B("flow_label")]
    return [K(8, 6), R.len_atom(8, PD.blen("entity_id")), B("entity_id")]


def run(ck):
    P = Program(ck.repo)
    ck.explanation = (
        "Static check of the CFDP LV/TLV classes against CCSDS 727.0-B-5 5.1.9 and 5.4. Generic TLV/LV: pack layout per bit, the "
        "255-octet refusal, decoders honour the length octet (value == data[2:2+L] / data[1:1+L], strict prefixes refused), "
        "reported length. Concrete TLVs: pack layout per bit for every filestore action code (second-name presence table "
        "{RENAME, APPEND, REPLACE}), packet_len against the layout in octets of the encoded names, decoded fields. Type safety: each "
        "concrete class's unpack() and from_tlv() is run against every TLV type octet / generic TLV type: only the matching type "
        "returns, every other one raises TlvTypeMissmatch on all paths; the holder's six accessors against holders of each "
        "concrete kind and of generic TLVs; the response status-code table is checked to be action<<4|code for existing actions.")
    for r, t in (("W-PACK", "layouts"), ("W-UNPACK", "decoded bits/extents"), ("L-LEN", "packet_len == layout length"), ("G-REFUSE", "length > 255, strict prefixes, wrong type"),
                 ("D-TABLE", "second-name table, holder/class table, status-code table"), ("X-BUF", "reads in bounds"), ("X-DECL", "reads inside length+2"), ("E-ESC", "documented exceptions")):
        ck.rule(r, t)
    ck.trusted += ["str.encode()/bytes.decode() are opaque, length-correct primitives", "reference layouts in spverif/props/c08.py"]
    mm = mismatch_q(P)
    allowed = ("ValueError", mm)
    data = sym("data", ty="bytes")
    # ---------------------------------------------------------------- generic TLV / LV
    it = new_interp(P); env = Env()
    tlv = construct(it, env, f"{TL}.CfdpTlv", dict(tlv_type=CF.esym(P, "tlv_type", f"{DEFS}.TlvType"), value=sym("value", ty="bytes")))
    R.check_pack_layout(ck, it, env, call_method(it, env, tlv, "pack"), [F("tlv_type", 8), R.len_atom(8, PD.blen("value")), B("value")], "CfdpTlv.pack", "type | length | value", extra_widths={"tlv_type": 8})
    R.check_lin_equal(ck, read_path(it, env, tlv, "packet_len"), PD.blen("value") + Lin({}, 2), "CfdpTlv.packet_len", "packet_len == len(value) + 2")
    st, m = D.prove(env.facts, binop("<=", length(sym("value", ty="bytes")), C(255)))
    ck.verdict3("G-REFUSE", "CfdpTlv.__init__", "a value longer than 255 octets is refused", st, m, "guard")
    for x in it.raises:
        if x["kind"] == "explicit" and not x["caught"]:
            ck.verdict("G-REFUSE", "CfdpTlv.__init__", "refusal is a ValueError", [] if it.exc_matches(x["exc"], ("ValueError",)) else [x["exc"]], x["exc"], nontrivial=False)
    it = new_interp(P); env = Env()
    lv = construct(it, env, "cfdp.lv.CfdpLv", dict(value=sym("value", ty="bytes")))
    R.check_pack_layout(ck, it, env, call_method(it, env, lv, "pack"), [R.len_atom(8, PD.blen("value")), B("value")], "CfdpLv.pack", "length | value")
    R.check_lin_equal(ck, read_path(it, env, lv, "packet_len"), PD.blen("value") + Lin({}, 1), "CfdpLv.packet_len", "packet_len == len(value) + 1")
    st, m = D.prove(env.facts, binop("<=", length(sym("value", ty="bytes")), C(255)))
    ck.verdict3("G-REFUSE", "CfdpLv.__init__", "a value longer than 255 octets is refused", st, m, "guard")
    # equality (round trip "returns the same type and value" is observed with ==)
    it = new_interp(P); env = Env()
    try:
        tt = P.cls(f"{DEFS}.TlvType").qual
        ta = construct(it, env, f"{TL}.CfdpTlv", dict(tlv_type=sym("type_a", ty=tt), value=sym("value_a", ty="bytes")))
        tb = construct(it, env, f"{TL}.CfdpTlv", dict(tlv_type=sym("type_b", ty=tt), value=sym("value_b", ty="bytes")))
        R.check_eq_pair(ck, it, env, ta, tb, ["type_a", "value_a"], ["type_b", "value_b"], "CfdpTlv.__eq__ (AbstractTlvBase)")
        la = construct(it, env, "cfdp.lv.CfdpLv", dict(value=sym("value_a", ty="bytes")))
        lb = construct(it, env, "cfdp.lv.CfdpLv", dict(value=sym("value_b", ty="bytes")))
        R.check_eq_pair(ck, it, env, la, lb, ["value_a"], ["value_b"], "CfdpLv.__eq__")
    except Unsupported as e:
        ck.unknown("Q-EQ", "CfdpTlv.__eq__", "equality analysed", str(e))
    # decoders
    it = new_interp(P); env = Env()
    dec = R.run_guarded(ck, "W-UNPACK", "CfdpTlv.unpack", "decode", lambda: call_method(it, env, T("class", P.cls(f"{TL}.CfdpTlv").qual), "unpack", [data]))
    if dec is not None:
        fn = "CfdpTlv.unpack"
        L = T("idx", data, C(1), ty="int")
        _sc = {}
        simp = lambda v: D.simplify(D.simplify(v, env.facts, _sc), env.facts, _sc)
        R.check_field_bits(ck, it, read_path(it, env, dec, "tlv_type"), data_bits_be("data", 0, 8), fn, "type == octet 0")
        R.check_slice_extent(ck, simp(read_path(it, env, dec, "value")), "data", Lin({}, 2), Lin({L: 1}, 2), fn, "value == data[2 : 2+L], L = octet 1")
        st, m = D.prove(env.facts, binop(">=", length(data), binop("+", L, C(2))))
        ck.verdict3("G-REFUSE", fn, "a buffer shorter than length + 2 (every strict prefix) is refused", st, m, "len(data) >= L + 2 on return")
        D.check_short_refusals_justified(ck, it, fn, "data", binop("+", L, C(2)), "length + 2 octets (a complete TLV, also one with an empty value, is accepted)")
        R.check_lin_equal(ck, simp(read_path(it, env, dec, "packet_len")), Lin({L: 1}, 2), fn, "decoded packet_len == L + 2")
        D.check_xbuf(ck, it, fn); D.check_xdecl(ck, it, fn, "data", binop("+", L, C(2)), extra_facts=env.facts); D.check_escape(ck, it, fn, allowed=allowed)
        D.check_independent(ck, it, env, dec, "data", fn)
    it = new_interp(P); env = Env()
    rb = sym("raw_bytes", ty="bytes")
    dec = R.run_guarded(ck, "W-UNPACK", "CfdpLv.unpack", "decode", lambda: call_method(it, env, T("class", P.cls("cfdp.lv.CfdpLv").qual), "unpack", [rb]))
    if dec is not None:
        fn = "CfdpLv.unpack"
        L = T("idx", rb, C(0), ty="int")
        st, m = D.prove(env.facts, binop(">=", length(rb), binop("+", L, C(1))))
        ck.verdict3("G-REFUSE", fn, "a buffer shorter than length + 1 is refused", st, m, "len >= L + 1 on return")
        D.check_short_refusals_justified(ck, it, fn, "raw_bytes", binop("+", L, C(1)), "length + 1 octets (a complete LV is accepted)", exc_suffix=("BytesTooShortError", "ValueError"), only_func="CfdpLv.unpack")
        # value: gamma(L == 0, empty, slice)
        def obj_leaves(t):
            if t.k == "gamma":
                return obj_leaves(t.a[1]) + obj_leaves(t.a[2])
            return [t]
        leaves = []
        for o in obj_leaves(dec):
            if o.k == "obj":
                for lf in obj_leaves(read_path(it, env, o, "value")):
                    if lf.k != "undef":
                        leaves.append(lf)
        probs = []
        for lf in leaves:
            if lf.k == "bcat" and not lf.a[0] or (lf.k == "const" and lf.a[0] == b""):
                continue
            lf = D.simplify(lf, env.facts)
            if lf.k == "slice":
                from ..bits import buffer_pos
                lo = buffer_pos(lf, Lin({}, 0)); hi = buffer_pos(T("slice", lf.a[0], lf.a[2], NONE), Lin({}, 0))
                if lo[1].key() != Lin({}, 1).key() or hi[1].key() != Lin({L: 1}, 1).key():
                    probs.append(f"value is {show(lf)[:60]}; reference raw[1:1+L]")
            else:
                probs.append(f"value is {show(lf)[:60]}")
        ck.verdict("W-UNPACK", fn, "value == raw[1 : 1+L] (empty for L = 0)", probs, f"{len(leaves)} alternatives")
        D.check_xbuf(ck, it, fn); D.check_xdecl(ck, it, fn, "raw_bytes", binop("+", L, C(1)), extra_facts=env.facts); D.check_escape(ck, it, fn, allowed=allowed)
    # ---------------------------------------------------------------- concrete TLV layouts
    n = 0
    for cls in CONCRETE:
        actions = range(9) if cls.startswith("FileStore") else (0,)
        for action in actions:
            it = new_interp(P); env = Env()
            tag = f"action code {action}" if cls.startswith("FileStore") else "all parameters"
            obj = R.run_guarded(ck, "W-PACK", f"{cls}.__init__", tag, lambda: build_concrete(it, env, P, cls, action))
            if obj is None:
                continue
            p = R.run_guarded(ck, "W-PACK", f"{cls}.pack", tag, lambda: call_method(it, env, obj, "pack"))
            if p is None:
                continue
            n += 1
            spec = concrete_spec(cls, action)
            R.check_pack_layout(ck, it, env, p, spec, f"{cls}.pack", f"packed TLV == reference field layout ({tag})", extra_widths={"status_code": 4, "condition_code": 4, "handler_code": 4},
                                rule="D-TABLE" if cls.startswith("FileStore") else "W-PACK")
            R.check_lin_equal(ck, read_path(it, env, obj, "packet_len"), R.spec_len(spec), f"{cls}.packet_len", f"packet_len == packed size in octets ({tag})")
            tt = read_path(it, env, obj, "tlv_type")
            ck.verdict("D-TABLE", f"{cls}.tlv_type", "tlv_type is the class's TLV type", [] if tt.k == "const" and tt.a[0] == CONCRETE[cls][1] else [show(tt)[:30]], str(CONCRETE[cls][1]), nontrivial=False)
            p2 = call_method(it, env, obj, "pack")
            ck.verdict("W-PACK", f"{cls}.pack", f"packing twice yields the same octets ({tag})", [] if p2 == p else ["differs"], "identical terms", nontrivial=False)
    ck.floor("concrete TLV pack analyses", n, 20)
    from ..report import run_parallel
    run_parallel(ck, "spverif.props.c08", "types_task", [(c_,) for c_ in CONCRETE])
    run_parallel(ck, "spverif.props.c08", "fields_task", [("all",)])
    acts = range(9) if ck.tier == "thorough" else (0, 2, 3, 4, 6)
    ntasks = [(cls, t0, a, L1) for cls, t0 in (("FileStoreRequestTlv", 0), ("FileStoreResponseTlv", 1)) for a in acts for L1 in (0, 3)]
    run_parallel(ck, "spverif.props.c08", "names_task", ntasks)
    cnt = ck.analysed.get("filestore name analyses", 0)
    ck.floors = [f for f in ck.floors if f[0] != "filestore name analyses"]
    ck.floor("filestore name analyses", cnt, len(ntasks))
    from ..keep_rule import check_keep
    check_keep(ck, ck.repo, ["cfdp/tlv", "cfdp/lv.py"], floor=1)
    # ---------------------------------------------------------------- status code table
    it = new_interp(P)
    sc = {n_: v.a[0] for n_, v in it.class_namespace(P.cls(f"{DEFS}.FilestoreResponseStatusCode").qual).items() if v.k == "const" and isinstance(v.a[0], int)}
    ac = {n_: v.a[0] for n_, v in it.class_namespace(P.cls(f"{DEFS}.FilestoreActionCode").qual).items() if v.k == "const" and isinstance(v.a[0], int)}
    generic = {"SUCCESS", "NOT_PERFORMED", "APPEND_FROM_DATA_FILE_NOT_EXISTS", "INVALID"}
    bad = [f"{n_}={v:#04x}" for n_, v in sc.items() if n_ not in generic and ((v >> 4) not in ac.values() or not 0 <= v <= 0xFF)]
    ck.verdict("D-TABLE", "FilestoreResponseStatusCode", "every specific status code is action<<4 | code for an existing action code", bad, f"{len(sc)} members, {len(ac)} actions")
    ck.floor("status code members", len(sc), 30)
    for fname, arg, want in (("map_enum_status_code_to_int", dict(status_code=sym("s", ty="int")), None),):
        it = new_interp(P); env = Env()
        r = it.call_func(P.func(f"{TL}.{fname}"), [], arg, env)
        R.check_field_bits(ck, it, r, [("f", "s", j) for j in range(4)], fname, "status nibble == low 4 bits", rule="W-VAL", ctx=BitCtx(widths={"s": 8}))


def types_task(ck, task):
    """type safety of one concrete TLV class (runs in a worker process)"""
    P = Program(ck.repo)
    cls, = task
    mm = mismatch_q(P)
    allowed = ("ValueError", mm)
    data = sym("data", ty="bytes")
    (mod, ttype, acc) = CONCRETE[cls]
    if True:
            cq = P.cls(f"{mod}.{cls}").qual
            for octet in (0, 1, 2, 3, 4, 5, 6, 7, 0x10, 0xFF):
                it = new_interp(P); env = Env()
                it.concrete_bytes[("data", 0)] = octet
                try:
                    r = call_method(it, env, T("class", cq), "unpack", [data])
                except Unsupported as e:
                    ck.unknown("G-REFUSE", f"{cls}.unpack", f"type octet {octet}", str(e))
                    continue
                rs = [x for x in it.raises if not x["caught"]]
                if octet == ttype:
                    ck.verdict("G-REFUSE", f"{cls}.unpack", f"a TLV of its own type {octet:#04x} is decoded", [] if not env.dead and r.k == "obj" and r.ty == cq else ["refused"], "returns instance")
                    D.check_escape(ck, it, f"{cls}.unpack", allowed=allowed)
                    D.check_xbuf(ck, it, f"{cls}.unpack")
                    D.check_xdecl(ck, it, f"{cls}.unpack", "data", binop("+", T("idx", data, C(1), ty="int"), C(2)), extra_facts=env.facts)
                else:
                    valid_other = octet in TLV_TYPES.values()
                    ok = env.dead and rs and all(it.exc_matches(x["exc"], allowed) for x in rs)
                    if valid_other:
                        ok = ok and any(x["exc"] == mm for x in rs if x["kind"] == "explicit")
                    ck.verdict("G-REFUSE", f"{cls}.unpack", f"a TLV with type octet {octet:#04x} {'raises TlvTypeMissmatch' if valid_other else 'is refused'}, never an object of this class",
                               [] if ok else [f"returns {show(r)[:40]}" if not env.dead else f"raises {sorted({x['exc'].split('.')[-1] for x in rs})}"], "all paths raise")
                    if valid_other and env.dead:
                        # once the generic TLV decoder has accepted the octets (a well-formed TLV of a foreign type), the
                        # type-mismatch error is the only failure: no other refusal of the concrete class may come first
                        early = [x for x in rs if x["kind"] == "explicit" and x["exc"] != mm and not x["func"].endswith("CfdpTlv.unpack")
                                 and not any("CfdpTlv.unpack" in str(fr) for fr in x["stack"])]
                        ck.verdict("G-REFUSE", f"{cls}.unpack", f"a well-formed TLV with foreign type octet {octet:#04x} fails with TlvTypeMissmatch on every path (no other refusal of {cls} precedes the type check)",
                                   [f"`{x['text'][:60]}` in {x['func']} raises {x['exc'].split('.')[-1]} for a foreign type" for x in early[:2]], "explicit raises outside CfdpTlv.unpack are all TlvTypeMissmatch")
            for other, tval in TLV_TYPES.items():
                it = new_interp(P); env = Env()
                g = construct(it, env, f"{TL}.CfdpTlv", dict(tlv_type=CF.enumc(P, f"{DEFS}.TlvType", tval), value=sym("value", ty="bytes")))
                n0 = len(it.raises)
                try:
                    r = call_method(it, env, T("class", cq), "from_tlv", [g])
                except Unsupported as e:
                    ck.unknown("G-REFUSE", f"{cls}.from_tlv", other, str(e))
                    continue
                rs = [x for x in it.raises[n0:] if not x["caught"]]
                if tval == ttype:
                    ck.verdict("G-REFUSE", f"{cls}.from_tlv", f"a generic TLV of type {other} converts", [] if not env.dead and r.k == "obj" and r.ty == cq else ["refused"], "returns instance")
                else:
                    ok = env.dead and any(x["exc"] == mm and x["kind"] == "explicit" for x in rs)
                    ck.verdict("G-REFUSE", f"{cls}.from_tlv", f"a generic TLV of type {other} raises TlvTypeMissmatch", [] if ok else [f"returns {show(r)[:40]}" if not env.dead else "other exception"], "raises")
                # the holder reaches the same conversion
                it2 = new_interp(P); env2 = Env()
                g2 = construct(it2, env2, f"{TL}.CfdpTlv", dict(tlv_type=CF.enumc(P, f"{DEFS}.TlvType", tval), value=sym("value", ty="bytes")))
                h = construct(it2, env2, "cfdp.tlv.holder.TlvHolder", dict(tlv=g2))
                n0 = len(it2.raises)
                r2 = call_method(it2, env2, h, acc)
                rs2 = [x for x in it2.raises[n0:] if not x["caught"]]
                if tval == ttype:
                    ck.verdict("D-TABLE", f"TlvHolder.{acc}", f"holder of a generic {other} TLV yields a {cls}", [] if not env2.dead and r2.k == "obj" and r2.ty == cq else ["refused"], "instance")
                else:
                    ok = env2.dead and rs2 and all(x["exc"] in (mm, "TypeError") or it2.exc_matches(x["exc"], ("ValueError",)) for x in rs2) and any(x["exc"] in (mm, "TypeError") for x in rs2)
                    ck.verdict("D-TABLE", f"TlvHolder.{acc}", f"holder of a generic {other} TLV refuses conversion to {cls}", [] if ok else [f"returns {show(r2)[:40]}" if not env2.dead else str({x['exc'] for x in rs2})], "raises")
            # holder of a concrete object of another class
            for other in CONCRETE:
                it3 = new_interp(P); env3 = Env()
                o = build_concrete(it3, env3, P, other)
                h = construct(it3, env3, "cfdp.tlv.holder.TlvHolder", dict(tlv=o))
                n0 = len(it3.raises)
                r3 = call_method(it3, env3, h, acc)
                rs3 = [x for x in it3.raises[n0:] if not x["caught"]]
                if other == cls:
                    ck.verdict("D-TABLE", f"TlvHolder.{acc}", f"holder of a {other} returns it", [] if not env3.dead and r3 == o else ["refused"], "same object")
                else:
                    ok = env3.dead and rs3 and all(x["exc"] == "TypeError" for x in rs3 if x["kind"] == "explicit")
                    ck.verdict("D-TABLE", f"TlvHolder.{acc}", f"holder of a {other} raises TypeError", [] if ok else [f"returns {show(r3)[:40]}" if not env3.dead else str({x['exc'] for x in rs3})], "raises")


def fields_task(ck, task):
    """decoded fields of the value-carrying concrete TLVs (runs in a worker process)"""
    P = Program(ck.repo)
    data = sym("data", ty="bytes")
    it = new_interp(P); env = Env()
    it.concrete_bytes[("data", 0)] = 4
    dec = call_method(it, env, T("class", P.cls(f"{TL}.FaultHandlerOverrideTlv").qual), "unpack", [data])
    if not env.dead:
        _sc = {}
        simp = lambda v: D.simplify(D.simplify(v, env.facts, _sc), env.facts, _sc)
        R.check_field_bits(ck, it, simp(read_path(it, env, dec, "condition_code")), data_bits_be("data", 16, 4), "FaultHandlerOverrideTlv.unpack", "condition code == high nibble of the value octet")
        R.check_field_bits(ck, it, simp(read_path(it, env, dec, "handler_code")), data_bits_be("data", 20, 4), "FaultHandlerOverrideTlv.unpack", "handler code == low nibble of the value octet")
    for cls, t0 in (("FileStoreRequestTlv", 0), ("FileStoreResponseTlv", 1)):
        it = new_interp(P); env = Env()
        it.concrete_bytes[("data", 0)] = t0
        dec = call_method(it, env, T("class", P.cls(f"{TL}.{cls}").qual), "unpack", [data])
        if env.dead:
            ck.refuted("W-UNPACK", f"{cls}.unpack", "decoder accepts some input", "every path raises")
            continue
        _sc = {}
        simp = lambda v: D.simplify(D.simplify(v, env.facts, _sc), env.facts, _sc)
        R.check_field_bits(ck, it, simp(read_path(it, env, dec, "action_code")), data_bits_be("data", 16, 4), f"{cls}.unpack", "action code == high nibble of the first value octet")
        fnm = simp(read_path(it, env, dec, "first_file_name"))
        L1 = T("idx", data, C(3), ty="int")
        probs = []
        nslices = 0

        def leaves_of(t):
            return leaves_of(t.a[1]) + leaves_of(t.a[2]) if t.k == "gamma" else [t]
        for lf in leaves_of(fnm):
            if lf.k == "call" and lf.a[0] == "decode" and lf.a[1][0].k == "undef":
                continue
            if not (lf.k == "call" and lf.a[0] == "decode"):
                probs.append(f"alternative {show(lf)[:60]} is not a decoded octet string")
                continue
            inner = lf.a[1][0]
            while inner.k == "bcat" and len(inner.a[0]) == 1 and inner.a[0][0].k == "bytes":
                inner = inner.a[0][0].a[0]
            if inner.k == "slice":
                nslices += 1
                from ..bits import buffer_pos
                lo = buffer_pos(inner, Lin({}, 0)); hi = buffer_pos(T("slice", inner.a[0], inner.a[2], NONE), Lin({}, 0)) if not D.is_const(inner.a[2], None) else None
                if lo is None or hi is None or lo[1].key() != Lin({}, 4).key() or hi[1].key() != Lin({L1: 1}, 4).key():
                    probs.append(f"name taken from {show(inner)[:70]}; reference data[4 : 4+L1]")
            elif not ((inner.k == "bcat" and not inner.a[0]) or (inner.k == "const" and inner.a[0] == b"")):
                probs.append(f"name taken from {show(inner)[:70]}")
        if not nslices:
            probs.append("no alternative takes the name from the input")
        ck.verdict("W-UNPACK", f"{cls}.unpack", "first file name == decode(data[4 : 4+L1]), L1 = octet 3 (empty for L1 = 0)", probs, f"{nslices} slice alternative(s)")


TWO_NAME_ACTIONS = (2, 3, 4)        # rename, append, replace (727.0-B-5 table 5-16)


def _octet_leaves(t):
    """leaves of a gated name / value term with decode() and `is not None` gates removed"""
    if t.k == "gamma":
        return _octet_leaves(t.a[1]) + _octet_leaves(t.a[2])
    if t.k == "call" and t.a[0] == "decode":
        return _octet_leaves(t.a[1][0])
    while t.k == "bcat" and len(t.a[0]) == 1 and t.a[0][0].k == "bytes":
        t = t.a[0][0].a[0]
    return [t]


def _extent_problems(term, lo, hi, what):
    """every non-empty alternative of `term` must be data[lo:hi]; -> (problems, number of slice alternatives)"""
    from ..bits import buffer_pos
    probs, n = [], 0
    for lf in _octet_leaves(term):
        if lf.k == "undef" or (lf.k == "bcat" and not lf.a[0]) or (lf.k == "const" and lf.a[0] in (b"", "", None)):
            continue
        if lf.k != "slice":
            probs.append(f"{what}: alternative {show(lf)[:60]} is not a slice of the input")
            continue
        n += 1
        a = buffer_pos(lf, Lin({}, 0))
        b = buffer_pos(T("slice", lf.a[0], lf.a[2], NONE), Lin({}, 0)) if not D.is_const(lf.a[2], None) else None
        if a is None or b is None or a[1].key() != lo.key() or b[1].key() != hi.key():
            probs.append(f"{what} taken from data[{a[1] if a else '?'!r} : {b[1] if b else '?'!r}]; reference data[{lo!r} : {hi!r}]")
    return probs, n


def names_task(ck, task):
    """second file name and filestore message of the filestore TLVs sit where 727.0-B-5 5.4.1/5.4.2 puts them: after the
    first LV, counted in octets (one analysis per class, action code and first-name length)"""
    P = Program(ck.repo)
    cls, t0, act, L1 = task
    data = sym("data", ty="bytes")
    it = new_interp(P); env = Env()
    it.concrete_bytes[("data", 0)] = t0
    it.concrete_bytes[("data", 2)] = act << 4
    it.concrete_bytes[("data", 3)] = L1
    fn = f"{cls}.unpack"
    tag = f"action code {act}, first name of {L1} octets"
    try:
        dec = call_method(it, env, T("class", P.cls(f"{TL}.{cls}").qual), "unpack", [data])
    except Unsupported as e:
        ck.unknown("W-UNPACK", fn, tag, str(e))
        return
    ck.floor("filestore name analyses", 1, 0)
    if env.dead:
        ck.refuted("W-UNPACK", fn, f"decoder accepts some input ({tag})", "every path raises")
        return
    _sc = {}
    simp = lambda v: D.simplify(D.simplify(v, env.facts, _sc), env.facts, _sc)
    p1, n1 = _extent_problems(simp(read_path(it, env, dec, "first_file_name")), Lin({}, 4), Lin({}, 4 + L1), "first file name")
    if L1 and not n1:
        p1.append("no alternative takes the first name from the input")
    ck.verdict("W-UNPACK", fn, f"first file name == data[4 : 4+{L1}] ({tag})", p1, f"{n1} slice alternative(s)")
    two = act in TWO_NAME_ACTIONS
    sec = simp(read_path(it, env, dec, "second_file_name"))
    L2 = T("idx", data, C(4 + L1), ty="int")
    if two:
        p2, n2 = _extent_problems(sec, Lin({}, 5 + L1), Lin({L2: 1}, 5 + L1), "second file name")
        if not n2:
            p2.append("no alternative takes the second name from the input")
        ck.verdict("W-UNPACK", fn, f"second file name == data[{5 + L1} : {5 + L1}+L2], L2 = octet {4 + L1} - offsets counted in octets ({tag})", p2, f"{n2} slice alternative(s)")
    else:
        leaves = [lf for lf in _octet_leaves(sec) if lf.k != "undef"]
        ok = all((lf.k == "const" and lf.a[0] in ("", None, b"")) or (lf.k == "bcat" and not lf.a[0]) for lf in leaves)
        ck.verdict("W-UNPACK", fn, f"no second file name for a single-name action ({tag})", [] if ok else [show(sec)[:80]], "empty", nontrivial=False)
    if t0 == 1:
        # filestore message LV follows the name LV(s)
        base = Lin({L2: 1}, 5 + L1) if two else Lin({}, 4 + L1)
        from ..decode_rules import lin_term
        Lm = T("idx", data, lin_term(base) if not base.is_const() else C(base.c), ty="int")
        try:
            msg = simp(read_path(it, env, dec, "filestore_msg.value"))
        except Exception as e:  # noqa: BLE001
            ck.unknown("W-UNPACK", fn, f"filestore message located ({tag})", f"{type(e).__name__}: {e}")
            return
        pm, nm = _extent_problems(msg, base + Lin({}, 1), base + Lin({Lm: 1}, 1), "filestore message")
        if not nm:
            pm.append("no alternative takes the filestore message from the input")
        ck.verdict("W-UNPACK", fn, f"filestore message == the LV that follows the file name LV(s), offsets counted in octets ({tag})", pm, f"{nm} slice alternative(s)")


def D_leaf_slices(t):
    """the slice a (possibly gated) LV value denotes when non-empty; None if not recognisable"""
    if t.k == "gamma":
        for side in (t.a[1], t.a[2]):
            r = D_leaf_slices(side)
            if r is not None:
                return r
        return None
    return t if t.k == "slice" else None
