"""Obligation bookkeeping, verdicts, evidence files, known findings, exit codes."""
from __future__ import annotations

import hashlib
import json
import os
import pathlib
import re
import time

VERIF = pathlib.Path(__file__).resolve().parent.parent
EVIDENCE_DIR = pathlib.Path(os.environ.get("SPVERIF_EVIDENCE_DIR") or (VERIF / "evidence"))
KNOWN_FILE = VERIF / "known_findings.json"
ASSUMED_FILE = VERIF / "assumed.json"

PROVED, REFUTED, UNKNOWN, ASSUMED = "PROVED", "REFUTED", "UNKNOWN", "ASSUMED"


def norm_text(s: str) -> str:
    return re.sub(r"\s+", " ", str(s)).strip()


class Checker:
    def __init__(self, pid: str, tier: str, repo: str, seed: int = 0):
        self.pid = pid
        self.tier = tier
        self.repo = repo
        self.seed = seed
        self.obs = []
        self.t0 = time.time()
        self.analysed = {}
        self.floors = []
        self.notes = []
        self.samples = []
        self.assumptions = []
        self.trusted = []
        self.rules = {}
        self.explanation = ""

    # ------------------------------------------------------------------ recording
    def ob(self, rule, func, construct, status, detail="", nontrivial=True, witness=None):
        key = f"{rule}|{func}|{norm_text(construct)}"
        self.obs.append({"rule": rule, "func": func, "construct": norm_text(construct), "status": status,
                         "detail": detail, "nontrivial": nontrivial, "key": key, "witness": witness})
        return status == PROVED

    def proved(self, rule, func, construct, detail="", nontrivial=True):
        return self.ob(rule, func, construct, PROVED, detail, nontrivial)

    def refuted(self, rule, func, construct, detail="", witness=None):
        return self.ob(rule, func, construct, REFUTED, detail, True, witness)

    def unknown(self, rule, func, construct, detail=""):
        return self.ob(rule, func, construct, UNKNOWN, detail, True)

    def assume(self, rule, func, construct, detail=""):
        """an obligation the analysis deliberately does not decide (declared limitation, e.g. reads inside a
        summarised loop); listed in the evidence under assumptions, never a violation, never silent"""
        return self.ob(rule, func, construct, ASSUMED, detail, True)

    def verdict(self, rule, func, construct, problems, detail_ok="", nontrivial=True):
        """problems: list of strings (empty -> PROVED, else REFUTED with the first few)"""
        if problems:
            return self.refuted(rule, func, construct, "; ".join(problems[:4]))
        return self.proved(rule, func, construct, detail_ok, nontrivial)

    def verdict3(self, rule, func, what, st, model, how, nontrivial=True):
        """three-way verdict from a prove() result: proved / refutable (with its concrete witness) / anything else is UNKNOWN"""
        if st == "proved":
            self.proved(rule, func, what, how, nontrivial=nontrivial)
        elif st == "refutable":
            det = ", ".join(f"{k}={v}" for k, v in list(model.items())[:6]) if isinstance(model, dict) else str(model)
            self.refuted(rule, func, what, f"counter-example: {{{det}}}", witness=model)
        else:
            self.unknown(rule, func, what, f"{st}: {str(model)[:200]}")

    def floor(self, what, count, minimum):
        self.floors.append((what, count, minimum))
        self.analysed[what] = count

    def rule(self, name, text):
        self.rules[name] = text

    # ------------------------------------------------------------------ finishing
    def finish(self):
        known = load_known()
        assumed = load_assumed()
        known_keys = {k["key"]: k for k in known.get("known", []) if k.get("property") == self.pid}
        assumed_keys = {k["key"]: k for k in assumed.get("assumed", []) if k.get("property") == self.pid}
        refuted = [o for o in self.obs if o["status"] == REFUTED]
        unknown = [o for o in self.obs if o["status"] == UNKNOWN]
        new_viol = [o for o in refuted if o["key"] not in known_keys]
        known_hit = [o for o in refuted if o["key"] in known_keys]
        unk_new = [o for o in unknown if o["key"] not in assumed_keys]
        unk_assumed = [o for o in unknown if o["key"] in assumed_keys]
        floor_fail = [(w, c, m) for (w, c, m) in self.floors if c < m]
        EVIDENCE_DIR.mkdir(exist_ok=True)
        vdir = EVIDENCE_DIR / f"{self.pid}.violations"
        lines = []
        for o in known_hit:
            lines.append(f"KNOWN-FINDING: property={self.pid} {o['rule']} at {o['func']}: {o['construct']} -- {known_keys[o['key']].get('what', o['detail'])}")
        for o in new_viol:
            vdir.mkdir(exist_ok=True)
            h = hashlib.sha1(o["key"].encode()).hexdigest()[:12]
            path = vdir / f"{o['rule']}-{h}.json"
            path.write_text(json.dumps({"property": self.pid, **{k: (str(v) if k == "witness" and v is not None else v) for k, v in o.items()},
                                        "repo": self.repo, "tier": self.tier}, indent=1))
            lines.append(f"VIOLATION property={self.pid} replay={path}")
            lines.append(f"  {o['rule']} at {o['func']}: {o['construct']}\n    {o['detail']}")
        for o in unk_new:
            lines.append(f"ANALYSIS-INCOMPLETE property={self.pid} {o['rule']} at {o['func']}: {o['construct']} -- {o['detail']}")
        for (w, c, m) in floor_fail:
            lines.append(f"ANALYSIS-ERROR property={self.pid} instance floor: {w} = {c} < {m} (anchor vanished?)")
        declared = [o for o in self.obs if o["status"] == ASSUMED]
        self.obs = [o for o in self.obs if o["status"] != ASSUMED]
        n = len(self.obs)
        discharged = len([o for o in self.obs if o["status"] == PROVED])
        distinct = len({o["key"] for o in self.obs if o["nontrivial"]})
        samples = self.samples[:]
        for o in self.obs:
            if len(samples) >= 8:
                break
            if o["nontrivial"]:
                samples.append({"rule": o["rule"], "function": o["func"], "obligation": o["construct"][:300],
                                "verdict": o["status"], "how": o["detail"][:300]})
        ev = {
            "property_id": self.pid,
            "tier": self.tier,
            "seed": self.seed,
            "level": "other",
            "coverage": {
                "explanation": self.explanation,
                "rules": self.rules,
                "obligations": n,
                "discharged": discharged,
                "evaluations": n,
                "distinct_nontrivial": distinct,
                "rule": "one evaluation per rule instance (obligation) generated from the current source; "
                        "non-trivial = the verdict needed at least one extracted fact, table row, layout cell or term; "
                        "distinct = distinct (rule, function, normalised construct) keys",
                "samples": samples,
                "analysed": self.analysed,
                "instance_floors": [{"what": w, "count": c, "min": m} for (w, c, m) in self.floors],
                "refuted": len(refuted), "known_findings_hit": len(known_hit),
                "unknown": len(unknown), "unknown_assumed": len(unk_assumed),
                "trusted_base": self.trusted,
                "checker_cmd": f"/venv/bin/python -m spverif check {self.pid} --tier {self.tier}",
                "notes": self.notes[:40],
                "exhaustive": False,
            },
            "assumptions": self.assumptions + [f"assumed (not discharged automatically): {o['key']}" for o in unk_assumed]
                           + sorted({f"not decided (declared limitation): {o['rule']} {o['construct'][:120]}" for o in declared})[:60],
            "undecided_declared": len(declared),
            "wall_s": round(time.time() - self.t0, 3),
            "violations": len(new_viol),
        }
        (EVIDENCE_DIR / f"{self.pid}.json").write_text(json.dumps(ev, indent=1, default=str))
        for l in lines:
            print(l)
        print(f"[{self.pid}/{self.tier}] obligations={n} proved={discharged} refuted={len(refuted)} "
              f"(known {len(known_hit)}) unknown={len(unknown)} (assumed {len(unk_assumed)}) undecided-declared={len(declared)} "
              f"wall={ev['wall_s']}s repo={self.repo}")
        if new_viol:
            return 1
        if unk_new or floor_fail:
            return 2
        return 0


def _par_entry(args):
    modname, fname, pid, tier, repo, seed, task = args
    import importlib
    import traceback
    mod = importlib.import_module(modname)
    sub = Checker(pid, tier, repo, seed)
    import signal
    import time as _t

    def _alarm(_sig, _frm):
        raise TimeoutError(f"analysis task exceeded its time budget")
    t0 = _t.time()
    try:
        signal.signal(signal.SIGALRM, _alarm)
        signal.alarm(int(os.environ.get("SPVERIF_TASK_TIMEOUT", "1200")))
    except (ValueError, AttributeError):
        pass
    try:
        getattr(mod, fname)(sub, task)
        signal.alarm(0)
        sub.analysed["slowest task s"] = 0
        sub.notes.append((round(_t.time() - t0, 2), str(task)[:80]))
        if os.environ.get("SPVERIF_DEBUG_OPS"):
            from . import linear as _lin
            import sys as _sys
            print(f"OPS task={str(task)[:60]} ops={_lin.OPS_DONE[0]} t={_t.time() - t0:.1f}", file=_sys.stderr)
    except Exception as e:  # noqa: BLE001 - fail closed in the parent
        signal.alarm(0)
        sub.unknown("ENGINE", "spverif", f"worker task {str(task)[:80]}", f"{type(e).__name__}: {e} | {traceback.format_exc()[-600:]}")
    for o in sub.obs:
        if o.get("witness") is not None:
            o["witness"] = str(o["witness"])
    return sub.obs, sub.floors, sub.analysed, sub.notes


def run_parallel(ck, modname, fname, tasks, jobs=None):
    """run `modname.fname(sub_checker, task)` for every task in worker processes and merge the obligations
    (order of tasks preserved).  Workers re-parse the repository themselves; nothing but plain data crosses."""
    import concurrent.futures as cf
    import os
    jobs = jobs or min(16, os.cpu_count() or 4, max(1, len(tasks)))
    args = [(modname, fname, ck.pid, ck.tier, ck.repo, ck.seed, t) for t in tasks]
    if jobs <= 1 or len(tasks) <= 1 or os.environ.get("SPVERIF_SERIAL"):
        results = [_par_entry(a) for a in args]
    else:
        with cf.ProcessPoolExecutor(max_workers=jobs) as ex:
            results = list(ex.map(_par_entry, args, chunksize=1))
    for obs, floors, analysed, notes in results:
        ck.notes.extend(f"task {n[1]}: {n[0]} s" for n in notes if isinstance(n, tuple) and n[0] > 5)
        ck.obs.extend(obs)
        ck.floors.extend(floors)
        for k, v in analysed.items():
            ck.analysed[k] = ck.analysed.get(k, 0) + v if isinstance(v, int) else v


def load_known():
    try:
        return json.loads(KNOWN_FILE.read_text())
    except FileNotFoundError:
        return {"known": [], "fixed": []}


def load_assumed():
    try:
        return json.loads(ASSUMED_FILE.read_text())
    except FileNotFoundError:
        return {"assumed": []}
