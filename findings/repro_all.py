"""Reproduction of every genuine defect found on the pinned tree (documentation, NOT a check).

Each function returns True when the defect is PRESENT in the importable `spacepackets`.
Run with:  PYTHONPATH=<tree> /venv/bin/python /verif/findings/repro_all.py
On the pinned tree (cd426f0) every line prints DEFECT; on the repaired tree every line prints ok
except the entries recorded as `known` in /verif/known_findings.json.
This file is never run by a registered check: the checks are static (see DESIGN.md).
"""
import datetime
import struct
import sys
import traceback
from collections import deque

from spacepackets.ccsds.spacepacket import (
    PacketId, PacketType, SpacePacketHeader, parse_space_packets,
)
from spacepackets.ccsds.time import CdsShortTimestamp
from spacepackets.cfdp import CrcFlag, LargeFileFlag, TransmissionMode, ConditionCode
from spacepackets.cfdp.conf import PduConfig
from spacepackets.cfdp.defs import DeliveryCode, FileStatus, Direction, ChecksumType
from spacepackets.cfdp.lv import CfdpLv
from spacepackets.cfdp.pdu import (
    EofPdu, FinishedPdu, KeepAlivePdu, MetadataPdu, NakPdu, FileDataPdu, AckPdu,
)
from spacepackets.cfdp.pdu.ack import TransactionStatus
from spacepackets.cfdp.pdu.file_directive import DirectiveType
from spacepackets.cfdp.pdu.file_data import FileDataParams, SegmentMetadata, RecordContinuationState
from spacepackets.cfdp.pdu.finished import FinishedParams
from spacepackets.cfdp.pdu.metadata import MetadataParams
from spacepackets.cfdp.pdu.helper import PduFactory
from spacepackets.cfdp.tlv import (
    CfdpTlv, EntityIdTlv, FlowLabelTlv, FaultHandlerOverrideTlv, MessageToUserTlv,
    FileStoreRequestTlv, FileStoreResponseTlv, TlvType, FilestoreActionCode,
)
from spacepackets.cfdp.tlv.msg_to_user import ReservedCfdpMessage
from spacepackets.cfdp.exceptions import TlvTypeMissmatch
from spacepackets.ecss.tc import PusTc
from spacepackets.ecss.tm import PusTm
from spacepackets.ecss.fields import PacketFieldU8
from spacepackets.ecss.pus_1_verification import FailureNotice
from spacepackets.seqcount import SeqCountProvider
from spacepackets.util import ByteFieldU8, ByteFieldU16
from spacepackets.crc import CRC16_CCITT_FUNC
from spacepackets.uslp.frame import (
    TransferFrameDataField, TfdzConstructionRules, UslpProtocolIdentifier, TransferFrame,
    FrameType, VarFrameProperties,
)
from spacepackets.uslp.header import (
    PrimaryHeader, SourceOrDestField, BypassSequenceControlFlag, ProtocolCommandFlag,
)

DOC = (ValueError,)  # BytesTooShortError etc. are subclasses


def conf(crc=False, large=False):
    return PduConfig(
        source_entity_id=ByteFieldU8(1), dest_entity_id=ByteFieldU8(2),
        transaction_seq_num=ByteFieldU16(3), trans_mode=TransmissionMode.ACKNOWLEDGED,
        crc_flag=CrcFlag.WITH_CRC if crc else CrcFlag.NO_CRC,
        file_flag=LargeFileFlag.LARGE if large else LargeFileFlag.NORMAL,
    )


def escapes_undocumented(fn, *a):
    try:
        fn(*a)
    except (ValueError, TlvTypeMissmatch):
        return False
    except Exception as e:  # noqa
        if type(e).__module__.startswith("spacepackets"):
            return False
        return True
    return False


# ---------------------------------------------------------------- C06
def d01_eof_condition_code_not_shifted():
    p = EofPdu(conf(), bytes(4), 0, condition_code=ConditionCode.FILE_SIZE_ERROR)
    return EofPdu.unpack(p.pack()).condition_code != ConditionCode.FILE_SIZE_ERROR


def d02_keep_alive_native_byte_order():
    p = KeepAlivePdu(conf(), progress=1)
    raw = p.pack()
    return raw[-4:] != b"\x00\x00\x00\x01" and sys.byteorder == "little"


def d03_keep_alive_file_flag_setter_drops_crc():
    p = KeepAlivePdu(conf(crc=True), progress=1)
    p.file_flag = LargeFileFlag.LARGE
    return p.packet_len != len(p.pack())


def d04_finished_len_counts_unpacked_fault_location():
    p = FinishedPdu(conf(), FinishedParams(ConditionCode.NO_ERROR, DeliveryCode.DATA_COMPLETE,
                                            FileStatus.FILE_RETAINED,
                                            fault_location=EntityIdTlv(bytes([1]))))
    return p.packet_len != len(p.pack())


def d05_eof_crc_trailer_parsed_as_tlv():
    p = EofPdu(conf(crc=True), bytes(4), 0)
    try:
        return EofPdu.unpack(p.pack()) != p
    except Exception:
        return True


def d05b_eof_suffix_folded_in():
    p = EofPdu(conf(), bytes(4), 0)
    try:
        q = EofPdu.unpack(bytes(p.pack()) + b"\x06\x01\x09")
    except ValueError:
        return False
    return q.fault_location is not None


def d06_finished_crc_and_suffix():
    p = FinishedPdu(conf(crc=True), FinishedParams(ConditionCode.NO_ERROR, DeliveryCode.DATA_COMPLETE,
                                                    FileStatus.FILE_RETAINED))
    try:
        if FinishedPdu.unpack(p.pack()) != p:
            return True
    except Exception:
        return True
    p2 = FinishedPdu(conf(), FinishedParams.success_params())
    return escapes_undocumented(FinishedPdu.unpack, bytes(p2.pack()) + b"\x00\x00")


def d07_metadata_crc_trailer():
    p = MetadataPdu(conf(crc=True), MetadataParams(False, ChecksumType.CRC_32, 5, "a", "b"))
    try:
        return MetadataPdu.unpack(p.pack()) != p
    except Exception:
        return True


def d08_nak_crc_and_suffix():
    p = NakPdu(conf(crc=True), 0, 10, [(0, 5)])
    try:
        if NakPdu.unpack(p.pack()) != p:
            return True
    except Exception:
        return True
    p2 = NakPdu(conf(), 0, 10, [])
    try:
        q = NakPdu.unpack(bytes(p2.pack()) + bytes(8))
    except ValueError:
        return False
    return len(q.segment_requests) != 0


# ---------------------------------------------------------------- C07
def d09_file_data_runs_into_crc():
    p = FileDataPdu(conf(crc=True), FileDataParams(b"abc", 7))
    q = FileDataPdu.unpack(p.pack())
    return q.file_data != b"abc"


def d10_file_data_empty_segment_refused():
    p = FileDataPdu(conf(), FileDataParams(b"", 7))
    try:
        return FileDataPdu.unpack(p.pack()).file_data != b""
    except ValueError:
        return True


def d11_file_data_stale_length_after_metadata():
    p = FileDataPdu(conf(), FileDataParams(b"abc", 7, SegmentMetadata(RecordContinuationState.START_AND_END, b"xy")))
    q = FileDataPdu.unpack(p.pack())
    return q.packet_len != len(p.pack()) or q != p


# ---------------------------------------------------------------- C11
def d12_nak_mutates_caller_conf():
    c = conf()
    c.direction = Direction.TOWARDS_RECEIVER
    NakPdu(c, 0, 0)
    return c.direction != Direction.TOWARDS_RECEIVER


def d13_tc_app_data_setter_stale_len():
    tc = PusTc(17, 1)
    tc.app_data = b"abcd"
    raw = tc.pack()
    return struct.unpack("!H", raw[4:6])[0] != len(raw) - 7


# ---------------------------------------------------------------- C02 / C03
def d14_tc_declared_length_too_small_accepted():
    body = bytearray(SpacePacketHeader(PacketType.TC, 1, 0, 2, sec_header_flag=True).pack())
    body.append(0x2F)
    crc = CRC16_CCITT_FUNC(body)
    body.extend(struct.pack("!H", crc))  # 9 octets, declared len 9
    body.extend(b"\x11\x01\x00\x00\x00\x00")
    try:
        PusTc.unpack(bytes(body))
    except ValueError:
        return False
    except Exception:
        return False
    return True


def d15_tm_timestamp_overlaps_crc():
    # declared length 18 (data_len 11), timestamp_len 7 -> needs 6+7+7+2 = 22
    body = bytearray(SpacePacketHeader(PacketType.TM, 1, 0, 11, sec_header_flag=True).pack())
    body.extend(b"\x20\x11\x02\x00\x00\x00\x00")
    body.extend(b"\x01\x02\x03")
    body.extend(struct.pack("!H", CRC16_CCITT_FUNC(body)))
    assert len(body) == 18
    try:
        PusTm.unpack(bytes(body), 7)
    except ValueError:
        return False
    except Exception:
        return False
    return True


# ---------------------------------------------------------------- C08
def d16_entity_id_type_check_vacuous():
    raw = FlowLabelTlv(b"ab").pack()
    try:
        EntityIdTlv.unpack(raw)
    except TlvTypeMissmatch:
        return False
    return True


def d17_fault_handler_type_check_vacuous():
    raw = FlowLabelTlv(b"ab").pack()
    try:
        FaultHandlerOverrideTlv.unpack(raw)
    except TlvTypeMissmatch:
        return False
    return True


def d18_msg_to_user_type_check_vacuous():
    raw = FlowLabelTlv(b"ab").pack()
    try:
        MessageToUserTlv.unpack(raw)
    except TlvTypeMissmatch:
        return False
    return True


def d19_tlv_two_octet_prefix_accepted():
    raw = CfdpTlv(TlvType.FLOW_LABEL, b"abc").pack()
    try:
        CfdpTlv.unpack(raw[:2])
    except ValueError:
        return False
    return True


def d20_filestore_len_counts_characters():
    t = FileStoreRequestTlv(FilestoreActionCode.CREATE_FILE_SNM, "ä")
    return t.packet_len != len(t.pack())


# ---------------------------------------------------------------- C18
def d21_is_reserved_raises():
    try:
        return MessageToUserTlv(b"\xff\xfe\xfd\xfc\x00").is_reserved_cfdp_message() is not False
    except Exception:
        return True


# ---------------------------------------------------------------- C15
def d22_failure_notice_no_eq():
    return FailureNotice(PacketFieldU8(1), b"ab") != FailureNotice(PacketFieldU8(1), b"ab")


# ---------------------------------------------------------------- C19
def d23_seq_count_never_wraps():
    p = SeqCountProvider(2)
    vals = [p.get_and_increment() for _ in range(6)]
    return vals != [0, 1, 2, 3, 0, 1]


# ---------------------------------------------------------------- C14
def d24_cds_add_carry():
    s = CdsShortTimestamp(10, 86399000)
    s = s + datetime.timedelta(seconds=1)
    return not (s.ccsds_days == 11 and s.ms_of_day == 0)


def d25_cds_pre_1970_sign():
    s = CdsShortTimestamp(100, 3600 * 1000)
    exp = datetime.datetime(1958, 1, 1, tzinfo=datetime.timezone.utc) + datetime.timedelta(days=100, hours=1)
    return s.as_datetime() != exp


def d26_cds_from_datetime_pre_1970():
    dt = datetime.datetime(1965, 5, 5, 12, 0, 0, tzinfo=datetime.timezone.utc)
    s = CdsShortTimestamp.from_datetime(dt)
    exp_days = (dt.date() - datetime.date(1958, 1, 1)).days
    return s.ccsds_days != exp_days or s.ms_of_day != 12 * 3600 * 1000


# ---------------------------------------------------------------- C13
def _pkt(n=10):
    return SpacePacketHeader(PacketType.TM, 0x22, 0, n - 7).pack() + bytes(n - 6)


def d27_parser_drops_tail():
    ids = [PacketId(PacketType.TM, False, 0x22)]
    res = []
    for cut in (3, 6):
        q = deque()
        p = _pkt()
        q.append(p[:cut])
        out = parse_space_packets(q, ids)
        q.append(p[cut:])
        out += parse_space_packets(q, ids)
        res.append(out != [p])
    q = deque([_pkt() + _pkt()[:4]])
    parse_space_packets(q, ids)
    res.append(b"".join(q) != _pkt()[:4])
    return any(res)


# ---------------------------------------------------------------- C01
def d28_header_setters_bypass_range_checks():
    h = SpacePacketHeader(PacketType.TM, 1, 0, 0)
    try:
        h.seq_count = 0x4000
        h.apid = 0x800
    except ValueError:
        return False
    return True


# ---------------------------------------------------------------- C17
def d28a_tfdf_len_counts_unpacked_pointer():
    t = TransferFrameDataField(TfdzConstructionRules.VpNoSegmentation,
                               UslpProtocolIdentifier.USER_DEFINED_OCTET_STREAM, b"ab", fhp_or_lvop=5)
    return t.len() != len(t.pack())


def d28b_short_variable_frame_accepted():
    hdr = PrimaryHeader(1, SourceOrDestField.SOURCE, 1, 1, 0, BypassSequenceControlFlag.SEQ_CTRLD_QOS,
                        ProtocolCommandFlag.USER_DATA, True)
    tfdf = TransferFrameDataField(TfdzConstructionRules.VpNoSegmentation,
                                  UslpProtocolIdentifier.USER_DEFINED_OCTET_STREAM, b"abcd")
    fr = TransferFrame(hdr, tfdf, op_ctrl_field=b"\x01\x02\x03\x04", fecf=b"\xaa\xbb")
    fr.set_frame_len_in_header()
    raw = fr.pack(frame_type=FrameType.VARIABLE)
    props = VarFrameProperties(False, True, 0, fecf_len=2)
    try:
        TransferFrame.unpack(bytes(raw[:-3]), FrameType.VARIABLE, props)
    except Exception:
        return False
    return True


# ---------------------------------------------------------------- C10 (undocumented exceptions)
def d29a_lv_empty():
    return escapes_undocumented(CfdpLv.unpack, b"")


def d29b_factory_short():
    return any(escapes_undocumented(f, b"\x20\x00") for f in
               (PduFactory.pdu_directive_type, PduFactory.from_raw)) or escapes_undocumented(PduFactory.pdu_type, b"")


def d29c_ack_short():
    p = AckPdu(conf(), DirectiveType.EOF_PDU, ConditionCode.NO_ERROR, TransactionStatus.ACTIVE)
    raw = bytearray(p.pack())
    raw[1:3] = struct.pack("!H", 1)
    return escapes_undocumented(AckPdu.unpack, bytes(raw[:-2]))


def d29d_finished_short():
    p = FinishedPdu(conf(), FinishedParams.success_params())
    raw = bytearray(p.pack())
    raw[1:3] = struct.pack("!H", 1)
    return escapes_undocumented(FinishedPdu.unpack, bytes(raw[:-1]))


def d29e_nak_short():
    p = NakPdu(conf(), 0, 0)
    raw = bytearray(p.pack())
    raw[1:3] = struct.pack("!H", 3)
    return escapes_undocumented(NakPdu.unpack, bytes(raw[:-6]))


def d29f_file_data_metadata_short():
    p = FileDataPdu(conf(), FileDataParams(b"", 0, SegmentMetadata(RecordContinuationState.START_AND_END, b"")))
    raw = bytearray(p.pack())
    raw[1:3] = struct.pack("!H", 0)
    return escapes_undocumented(FileDataPdu.unpack, bytes(raw[:8]))


def d29g_filestore_tlv_short():
    return any(escapes_undocumented(c.unpack, b) for c in (FileStoreRequestTlv, FileStoreResponseTlv)
               for b in (b"", b"\x00", b"\x01", b"\x00\x00", b"\x01\x00"))


def d29h_fault_handler_empty_value():
    return escapes_undocumented(FaultHandlerOverrideTlv.unpack, b"\x04\x00") or escapes_undocumented(
        FaultHandlerOverrideTlv.from_tlv, CfdpTlv(TlvType.FAULT_HANDLER, b""))


def d29i_tfdf_pointer_short():
    return escapes_undocumented(TransferFrameDataField.unpack, b"\x00", False, 1, FrameType.FIXED)


def d29j_reserved_msg_short_value():
    r = []
    for t in (0x0A, 0x07, 0x0B, 0x04, 0x11, 0x15, 0x00, 0x10):
        m = ReservedCfdpMessage(t, b"")
        for g in ("get_originating_transaction_id", "get_proxy_put_response_params",
                  "get_proxy_closure_requested", "get_proxy_transmission_mode",
                  "get_dir_listing_response_params", "get_dir_listing_options",
                  "get_proxy_put_request_params", "get_dir_listing_request_params"):
            r.append(escapes_undocumented(getattr(m, g)))
    return any(r)


def d29k_reserved_msg_assert():
    return escapes_undocumented(MessageToUserTlv(b"cfdp\xff").to_reserved_msg_tlv)


def d29l_filestore_tlv_ignores_length_octet():
    # TLV declares 2 value octets but the first-name LV claims 3: decoder reads past the TLV
    raw = bytes([0x00, 0x02, 0x00, 0x03]) + b"abc"
    try:
        FileStoreRequestTlv.unpack(raw)
    except ValueError:
        return False
    return True


def main():
    bad = 0
    for name, fn in sorted(globals().items()):
        if name.startswith("d") and name[1:3].isdigit() and callable(fn):
            try:
                r = fn()
            except Exception:
                traceback.print_exc()
                r = "ERROR"
            print(f"{'DEFECT' if r is True else ('ok' if r is False else r):7} {name}")
            bad += r is not False
    print("defects present:", bad)


if __name__ == "__main__":
    main()
