#!/venv/bin/python
"""Verify sub-agent behaviour-preserving refactorings and file them under /verif/refactors/.

usage: tools/intake_mutants.py /tmp/wt_C01 [/tmp/wt_C02 ...]  [--suffix n]

For every mutant_k.diff / demo_k.py / meta_k.json triple in a worktree this re-checks, on scratch copies of
/repo's working tree (never in /repo, never in the agent's worktree):
  1. the demo passes on the pristine tree,
  2. the diff applies,
  3. the full test suite passes with the diff (304 tests),
  4. the demo fails with the diff.
Accepted mutants are stored as /verif/seeded/<Cxx>-<suffix><k>/{patch.diff,demo.py,meta.json}.
"""
import argparse, json, os, pathlib, shutil, subprocess, sys, tempfile

VERIF = pathlib.Path(__file__).resolve().parent.parent
REPO = pathlib.Path("/repo")
PY = "/venv/bin/python"


def sh(cmd, cwd, env=None, timeout=900):
    e = dict(os.environ)
    e.update(env or {})
    r = subprocess.run(cmd, cwd=cwd, env=e, capture_output=True, text=True, timeout=timeout)
    return r.returncode, (r.stdout + r.stderr)[-1500:]


def scratch():
    d = pathlib.Path(tempfile.mkdtemp(prefix="spv_intake_"))
    for name in ("spacepackets", "tests"):
        shutil.copytree(REPO / name, d / name, ignore=shutil.ignore_patterns("__pycache__"))
    for f in ("pyproject.toml", "setup.cfg", "setup.py", "README.md", "pytest.ini", "tox.ini", "conftest.py"):
        if (REPO / f).exists():
            shutil.copy(REPO / f, d / f)
    return d


def intake(wt: pathlib.Path, suffix: str):
    pid = wt.name.replace("wt_", "")
    out = []
    for k in (1, 2, 3):
        diff, demo, meta = wt / f"refactor_{k}.diff", wt / f"check_{k}.py", wt / f"meta_{k}.json"
        if not (diff.exists() and demo.exists()):
            continue
        name = f"{pid}-{suffix}{k}"
        log = {}
        d = scratch()
        try:
            env = {"PYTHONPATH": str(d)}
            local_demo = d / "demo_under_test.py"       # run the copy: the script's own directory leads sys.path
            shutil.copy(demo, local_demo)
            rc, o = sh([PY, str(local_demo)], d, env, 900)
            log["demo_on_pristine"] = rc
            if rc != 0:
                out.append((name, "REJECT demo fails on pristine tree", o[-300:]))
                continue
            rc, o = sh(["git", "apply", "--unsafe-paths", f"--directory={d}", str(diff)], "/", None, 60)
            if rc != 0:
                rc, o = sh(["patch", "-p1", "-s", "-i", str(diff)], d, None, 60)
            log["apply"] = rc
            if rc != 0:
                out.append((name, "REJECT patch does not apply", o[-300:]))
                continue
            local_demo.rename(d / "demo_under_test.txt")   # keep it out of pytest's --doctest-modules collection
            rc, o = sh([PY, "-m", "pytest", "-q", "-p", "no:cacheprovider", "-x"], d, env, 900)
            (d / "demo_under_test.txt").rename(local_demo)
            tail = o.strip().splitlines()[-1] if o.strip() else ""
            log["tests"] = tail
            if rc != 0 or "304 passed" not in tail:
                out.append((name, "REJECT test suite does not pass with the change", tail))
                continue
            rc, o = sh([PY, str(local_demo)], d, env, 900)
            log["demo_with_patch"] = rc
            if rc != 0:
                out.append((name, "REJECT property check fails with the refactoring", o[-300:]))
                continue
            dst = VERIF / "refactors" / name
            dst.mkdir(parents=True, exist_ok=True)
            shutil.copy(diff, dst / "patch.diff")
            shutil.copy(demo, dst / "check.py")
            m = {}
            if meta.exists():
                try:
                    m = json.loads(meta.read_text())
                except Exception:
                    m = {"raw_meta": meta.read_text()[:1000]}
            m.update({"property": pid, "origin": "independent sub-agent (saw only the property text and a scratch worktree); behaviour-preserving refactoring",
                      "verified": {"demo_on_pristine_exit": log["demo_on_pristine"], "tests_with_patch": log["tests"], "demo_with_patch_exit": log["demo_with_patch"]},
                      "ran": ["PYTHONPATH=<scratch> python demo.py (pristine): exit 0", "git apply patch.diff", "pytest -q: 304 passed", "python check.py (refactored): exit 0"]})
            (dst / "meta.json").write_text(json.dumps(m, indent=1))
            out.append((name, "ACCEPTED", m.get("what", "")[:160]))
        finally:
            shutil.rmtree(d, ignore_errors=True)
    return out


def main():
    ap = argparse.ArgumentParser()
    ap.add_argument("worktrees", nargs="+")
    ap.add_argument("--suffix", default="r")
    a = ap.parse_args()
    for w in a.worktrees:
        for name, verdict, info in intake(pathlib.Path(w), a.suffix):
            print(f"{name:10} {verdict}: {info}")


if __name__ == "__main__":
    main()
