#!/venv/bin/python
"""Apply each seeded change to a scratch copy of /repo's working tree and run checks on it.

usage: tools/run_seeded.py [--props C01,C02] [--seeds C01-m1,...] [--all-props] [--tier quick] [-v]
Never touches /repo.  Scratch copies live under a mkdtemp directory and are removed afterwards.
Evidence of these runs goes to a scratch directory (SPVERIF_EVIDENCE_DIR), not to /verif/evidence.
"""
import argparse, json, os, pathlib, shutil, subprocess, sys, tempfile
from concurrent.futures import ThreadPoolExecutor

VERIF = pathlib.Path(__file__).resolve().parent.parent
REPO = pathlib.Path(os.environ.get("SPVERIF_REPO", "/repo"))


# source files (prefixes under spacepackets/) each check reads; used by --related to skip checks a change cannot influence
DEPENDS = {
    "C01": ("ccsds/spacepacket.py",), "C02": ("ecss/tc.py", "ecss/__init__.py", "ccsds/spacepacket.py", "crc.py", "util.py", "exceptions.py"),
    "C03": ("ecss/tm.py", "ecss/pus_17_test.py", "ecss/__init__.py", "ccsds/", "crc.py", "util.py", "exceptions.py"),
    "C04": ("ecss/", "cfdp/", "ccsds/", "crc.py", "util.py", "exceptions.py"), "C05": ("cfdp/pdu/header.py", "cfdp/conf.py", "cfdp/defs.py", "util.py", "exceptions.py"),
    "C06": ("cfdp/", "util.py", "crc.py", "exceptions.py"), "C07": ("cfdp/", "util.py", "crc.py", "exceptions.py"),
    "C08": ("cfdp/tlv/", "cfdp/lv.py", "cfdp/defs.py", "cfdp/exceptions.py", "util.py", "exceptions.py"),
    "C09": ("",), "C10": ("",), "C11": ("ecss/tc.py", "ecss/tm.py", "cfdp/", "uslp/", "ccsds/", "util.py", "crc.py", "exceptions.py"),
    "C12": ("cfdp/", "util.py", "crc.py", "exceptions.py"), "C13": ("ccsds/spacepacket.py",), "C14": ("ccsds/time/", "exceptions.py"),
    "C15": ("ecss/", "ccsds/", "util.py", "crc.py", "exceptions.py"), "C16": ("ecss/", "ccsds/spacepacket.py", "util.py"), "C17": ("uslp/", "exceptions.py"),
    "C18": ("cfdp/", "util.py", "exceptions.py"), "C19": ("seqcount.py",), "C20": ("util.py",),
}


def touched(seed_dir):
    out = set()
    for l in (seed_dir / "patch.diff").read_text().splitlines():
        if l.startswith("+++ "):
            p = l[4:].split("\t")[0].strip()
            if "spacepackets/" in p:
                out.add(p.split("spacepackets/", 1)[1])
    return out


def claimed():
    m = json.loads((VERIF / "MANIFEST.json").read_text())
    return [c["property_id"] for c in m["checks"]]


def run_one(seed_dir, props, tier, verbose):
    tmp = pathlib.Path(tempfile.mkdtemp(prefix="spv_seed_"))
    try:
        shutil.copytree(REPO / "spacepackets", tmp / "spacepackets", ignore=shutil.ignore_patterns("__pycache__"))
        p = subprocess.run(["patch", "-p1", "-s", "-i", str(seed_dir / "patch.diff")], cwd=tmp, capture_output=True, text=True)
        if p.returncode != 0:
            return seed_dir.name, {"_patch": "FAILED " + p.stdout + p.stderr}
        res = {}
        env = dict(os.environ, SPVERIF_EVIDENCE_DIR=str(tmp / "evidence"))
        for pid in props:
            r = subprocess.run(["/venv/bin/python", "-m", "spverif", "check", pid, "--tier", tier, "--repo", str(tmp)],
                               cwd=VERIF, capture_output=True, text=True, env=env)
            viol = [l for l in r.stdout.splitlines() if l.startswith("VIOLATION")]
            res[pid] = (r.returncode, len(viol), r.stdout if verbose else "")
        return seed_dir.name, res
    finally:
        shutil.rmtree(tmp, ignore_errors=True)


def main():
    ap = argparse.ArgumentParser()
    ap.add_argument("--props", default=None)
    ap.add_argument("--seeds", default=None)
    ap.add_argument("--all-props", action="store_true", help="run every claimed check on every seed (default: only the seed's own property)")
    ap.add_argument("--tier", default="quick")
    ap.add_argument("-v", action="store_true")
    ap.add_argument("--jobs", type=int, default=16, help="seeds analysed concurrently")
    ap.add_argument("--related", action="store_true", help="with --all-props: only the checks that read a file the change touches")
    ap.add_argument("--dir", default="seeded", help="sub-directory of /verif holding the changes (seeded | refactors)")
    ap.add_argument("--expect-clean", action="store_true", help="the changes preserve behaviour: every check must exit 0 (reports false alarms)")
    a = ap.parse_args()
    seeds = sorted(d for d in (VERIF / a.dir).iterdir() if d.is_dir())
    if a.seeds:
        want = set(a.seeds.split(","))
        seeds = [s for s in seeds if s.name in want]
    cl = claimed() if not a.props else a.props.split(",")
    jobs = []
    for s in seeds:
        own = s.name.split("-")[0]
        if a.all_props or a.props:
            props = cl
            if a.related:
                t = touched(s)
                props = [p for p in cl if any(f.startswith(pre) for f in t for pre in DEPENDS.get(p, ("",)))]
        else:
            props = [own] if own in cl else []
        if a.props is None and not a.all_props and not props:
            continue
        jobs.append((s, props))
    detected = 0
    nonclean = 0
    with ThreadPoolExecutor(max_workers=a.jobs) as ex:
        for name, res in ex.map(lambda j: run_one(j[0], j[1], a.tier, a.v), jobs):
            hits = [p for p, v in res.items() if isinstance(v, tuple) and v[0] == 1]
            inc = [p for p, v in res.items() if isinstance(v, tuple) and v[0] == 2]
            detected += bool(hits)
            nonclean += bool(hits or inc)
            print(f"{name:10} detected_by={hits} incomplete={inc} " + (str(res.get('_patch', '')) if '_patch' in res else ''))
            if a.v:
                for p, v in res.items():
                    if isinstance(v, tuple) and v[0] != 0:
                        print("   ", "\n    ".join(v[2].splitlines()[:12]))
    if a.expect_clean:
        print(f"changes with a check that did not exit 0: {nonclean}/{len(jobs)}")
    else:
        print(f"detected {detected}/{len(jobs)}")


if __name__ == "__main__":
    main()
