#!/venv/bin/python
"""Turn the output of tools/run_seeded.py into the markdown table of DESIGN.md 8.5.

usage: tools/kill_matrix.py RESULT.txt [RESULT2.txt ...] > table.md
Each result line looks like `C01-m1     detected_by=['C01', 'C03'] incomplete=[]`; when a change appears in several
files the detections are united (own-property runs and --related runs can be combined).
"""
import ast
import json
import pathlib
import re
import sys

VERIF = pathlib.Path(__file__).resolve().parent.parent


def main():
    det, inc = {}, {}
    for fn in sys.argv[1:]:
        for line in pathlib.Path(fn).read_text().splitlines():
            m = re.match(r"^(C\d\d-\w+)\s+detected_by=(\[.*?\]) incomplete=(\[.*?\])", line)
            if not m:
                continue
            det.setdefault(m.group(1), set()).update(ast.literal_eval(m.group(2)))
            inc.setdefault(m.group(1), set()).update(ast.literal_eval(m.group(3)))
    print("| change | what was changed | detected by |")
    print("|---|---|---|")
    for sid in sorted(det):
        meta = VERIF / "seeded" / sid / "meta.json"
        what = ""
        if meta.exists():
            try:
                what = json.loads(meta.read_text()).get("what", "")
            except Exception:
                what = ""
        what = re.sub(r"\s+", " ", what).replace("|", "/")
        if len(what) > 150:
            what = what[:147] + "..."
        own = sid.split("-")[0]
        d = sorted(det[sid])
        ds = ", ".join(([f"**{own}**"] if own in d else []) + [x for x in d if x != own]) or "not detected"
        if inc.get(sid) - det[sid]:
            ds += f" (undecided: {', '.join(sorted(inc[sid] - det[sid]))})"
        print(f"| {sid} | {what} | {ds} |")
    n = len(det)
    own_hit = sum(1 for s in det if s.split('-')[0] in det[s])
    any_hit = sum(1 for s in det if det[s])
    print()
    print(f"{n} changes; detected by the check of their own property: {own_hit}; detected by at least one check: {any_hit}.")


if __name__ == "__main__":
    main()
