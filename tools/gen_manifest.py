#!/venv/bin/python
"""Regenerate /verif/MANIFEST.json from the table below (one entry per claimed property).

A property is claimed only when its check module exists and is listed in CLAIMS; every other
property of properties.jsonl goes to not_applicable with the reason given in NOT_CLAIMED (or
the default "under construction" text).
"""
import json
import pathlib

VERIF = pathlib.Path(__file__).resolve().parent.parent
TECH = "ast-based abstract interpretation (gated terms) + bit-provenance normal forms + linear entailment of guard facts"

CLAIMS = {
    "C01": dict(
        text="Static analysis: every output/input bit of the primary-header encoder, decoder and word converters is reduced to its "
             "provenance by abstract interpretation of the current source and compared with a reference table written from CCSDS "
             "133.0-B-2; range guards are decided by linear entailment in both directions. Decides the structural clauses (bit-exact "
             "layout both ways, length identity, range refusals) for all 2^48 values at once; it does not execute the code.",
        note="Trusted: the bit/struct semantics modelled in spverif/bits.py, the reference table in spverif/props/c01.py; fields are "
             "assumed within their declared widths when packing (established by the G-RANGE obligations for apid/seq_count/data_len).",
        technique=TECH),
    "C02": dict(
        text="Static analysis: PusTc.pack (fresh, after each public setter, with and without a cached CRC), to_space_packet().pack() "
             "and unpack are abstractly interpreted; the packed stream is compared bit for bit with a reference layout from "
             "ECSS-E-ST-70-41C (constants, length field == total-7 as a linear form, CRC cell last over exactly the preceding cells); "
             "decoded fields, app-data/CRC extents, the minimum-length refusal, read bounds and the escape set are decided by linear "
             "entailment. Decides layout/extent/refusal clauses for all field values; equality of whole objects is decided only as "
             "sensitivity of __eq__ to every field.",
        note="Trusted: struct/bytearray semantics as modelled; reference layout tc_spec() in spverif/props/c02.py; CRC mathematics. "
             "Field values assumed within declared widths.",
        technique=TECH + "; must-pass check of the CRC verification"),
    "C03": dict(
        text="Static analysis: PusTm.pack (fresh, after setters, cached CRC, both call orders with to_space_packet), Service17Tm and "
             "the three decoders are abstractly interpreted with a timestamp of symbolic length T; layouts are compared per bit with "
             "a reference from ECSS-E-ST-70-41C, the length field as a linear form, the CRC by coverage; decoded fields and the "
             "timestamp/source-data/CRC extents against offsets 13, 13+T, N-2, N; the too-small-length refusal is decided by linear "
             "entailment with exact slice-clamping axioms and any counter-model is realised as a concrete octet string before it is "
             "reported. Decides layout/extent/refusal clauses for every T >= 0 and all field values.",
        note="Trusted: struct/bytearray/slice semantics as modelled; reference layout tm_spec() in spverif/props/c03.py. Assumes "
             "timestamp_len >= 0 and field values within declared widths.",
        technique=TECH + "; must-pass check of the CRC verification"),
    "C05": dict(
        text="Static analysis: PduHeader.pack is abstractly interpreted for every entity-ID/sequence-number width pair and compared "
             "per bit with a reference layout from CCSDS 727.0-B-5 5.1; header_len/packet_len as linear forms; the decoder's flag "
             "and length bits are checked symbolically, its width-code handling by finite case analysis over all 64 code pairs (valid: "
             "IDs decoded from the reference offsets, all reads proven inside buffer and header; invalid: refused with ValueError); "
             "header_len_from_raw is reduced to the two 3-bit codes with factors 2 and 1; the four documented refusals are decided "
             "from the guard facts. Quick tier checks 4 width pairs on the encoder side and 8 of the 16 valid code pairs in full.",
        note="Trusted: struct/bit semantics as modelled; reference layout cfdp_common.header_spec(). ID values are validated by the "
             "byte-field classes (C20).",
        technique=TECH + "; finite case analysis over the width codes"),
    "C04": dict(
        text="Static analysis of the structure that makes CRC protection effective: in each of the ten encoders (all parameter "
             "variants and configuration cases, and for PUS TC/TM also after setters with a cached CRC) the packed stream ends in "
             "one CRC16 item whose coverage term is exactly all preceding items; the declared length field equals the packed length; "
             "every decoder and wrapper (Service1Tm, Service17Tm, PduFactory.from_raw) establishes CRC16(data[0:N]) == 0 on every "
             "path to a normal return and raises its checksum error otherwise; every CRC object is created as crc-ccitt-false. "
             "It decides the coverage structure, not the burst-detection theorem of the polynomial.",
        note="Trusted: CRC-16/CCITT-FALSE detects all bursts <= 16 bits; crcmod; the interpreter maps every crcmod object to one "
             "abstract crc16 function, which the K-CONST obligations justify. Corruption is assumed outside the length-determining octets.",
        technique="ast-based abstract interpretation (gated terms) + coverage comparison of the CRC term + must-pass (dominance) check of the verification + constant check of the algorithm name"),
    "C06": dict(
        text="Static analysis: each of the seven directive PDUs is constructed with symbolic parameters for every configuration case "
             "(ID widths, CRC flag, large-file flag: values the code only compares, enumerated) and parameter variant (optional TLVs, "
             "lists of 0 and 2 items); pack() is compared per bit with reference layouts from CCSDS 727.0-B-5 5.2 (field order, "
             "big-endian FSS fields, TLV/LV items in list order, CRC iff flag, data-field length == layout length); decoders are "
             "analysed per case with octets 0 and 3 concrete: fixed-offset parameters against the reference input bits, all reads "
             "in bounds and inside the declared PDU, mandatory-parameter and short-buffer refusals, CRC verification, escape set. "
             "Decoded TLV/segment lists come from summarised loops: their reads are proved where the guards suffice and otherwise "
             "listed as undecided in the evidence; element-wise equality of decoded lists is not decided.",
        note="Trusted: struct/bytearray/slice semantics as modelled; reference tables in spverif/pdus.py; str.encode/decode opaque and "
             "length-correct. Quick tier: 6 configuration cases; thorough: all 64.",
        technique=TECH + "; finite case analysis over configuration flags and widths; syntax-directed path dataflow for accumulator hand-over (D-KEEP)"),
    "C07": dict(
        text="Static analysis: the File Data PDU is constructed for every configuration case and segment-metadata variant (absent, "
             "present, present with zero octets); pack() is compared per bit with a reference layout from CCSDS 727.0-B-5 5.3, lengths "
             "as linear forms, the 63-octet refusal by entailment, the max-segment helper against the layout, both setters by "
             "re-packing; the decoder's offset/metadata/file-data extents are compared with the reference offsets up to the declared "
             "end minus the CRC trailer ('not one octet more or fewer'), with bounds, refusals, CRC verification and reported length.",
        note="Trusted: struct/bytearray/slice semantics as modelled; reference layout fd_spec() in spverif/props/c07.py.",
        technique=TECH + "; finite case analysis over configuration flags and widths"),
    "C12": dict(
        text="Static analysis: for each of the eight PDU kinds and configuration case PduFactory.from_raw is abstractly interpreted "
             "with octet 0, octet 3 and the directive-code octet concrete; the result must be an instance of exactly the kind's "
             "class whose reachable state equals, term for term, what the kind's own decoder produces, with header IDs at the "
             "reference offsets; the inspectors are checked per bit and for all 16 width pairs; the code->class table against the "
             "DirectiveType enum (exhaustive); undefined codes are refused; all 64 (held kind, accessor) pairs of the holder are "
             "decided: identity on the diagonal, TypeError on every path elsewhere. Equality with the packed original is inherited "
             "from C06/C07, not re-decided.",
        note="Trusted: reference code table in spverif/pdus.py; decoder semantics as modelled.",
        technique="ast-based abstract interpretation (gated terms) + table extraction/comparison + finite case analysis over PDU kinds"),
    "C19": dict(
        text="Static analysis: the successor function of both providers is extracted as a closed term of count and width by abstract "
             "interpretation and decided against (c+1) mod 2^w by finite case analysis over the extracted term (every count for "
             "widths <= 8, boundary counts up to 14/16 bits); returned value == old count; initial state 0; check_count's accepted "
             "interval is decided from its guard facts in both directions. The file provider is decided on the trace of file-system "
             "effects the interpreter records in program order (open and its mode, read*, seek, write*, truncate, close, exists, "
             "leaving a with-block), whatever statements or helpers produce them: create_new writes the constant '0\\n' to a truncated "
             "file; get_and_increment opens without truncation, reads before it writes, seeks to 0 in between, writes exactly "
             "str(successor)+newline with the successor a function of the returned count, does not cut the file to another length and "
             "leaves it closed; readers parse the first line; a new instance touches an existing file only under not exists(); "
             "missing-file refusals from the raise log. The inductive step (stored value always lies in the accepted interval) gives the "
             "all-histories part; crash points inside a call and OS durability are not decided.",
        note="Trusted: Python file/with semantics; int()/isdigit()/rstrip(). Written text that cannot be decomposed into literal pieces and "
             "str() of integer terms yields an analysis error, not a verdict.",
        technique="ast-based abstract interpretation + finite case analysis on the extracted successor term + ordering rules over the interpreter's file-effect trace"),
    "C20": dict(
        text="Static analysis: both struct-specifier tables are constant-evaluated and compared with the reference; for every width the "
             "constructor, the fixed-width subclasses, both generator entry points and the value setter (integer and octet form) are "
             "abstractly interpreted and the octet view compared per bit with the big-endian image of the value in exactly that "
             "width; integer/length views, range/width/too-short guards (both directions, ValueError), cut-to-width of octet input, "
             "and __eq__/__hash__ keyed on exactly (value, width) for all 16 width pairs.",
        note="Trusted: struct format semantics. hex_str/__str__ formatting is not checked.",
        technique=TECH + "; table extraction by constant evaluation"),
    "C14": dict(
        text="Static analysis: pack() and the three decoders per bit against CCSDS 301.0-B-4 3.3; accepted P-fields by finite case "
             "analysis of the decoder's guard facts over all 256 octets; epoch constants against a date difference computed by the "
             "checker; unix seconds as one linear form 86400*(days-4383)+ms/1000; from_datetime's quotient/remainder must use floor "
             "division and modulo of the same floored dividend; __add__ is split on its gated result and each branch decided by "
             "linear entailment (ms in [0,86399999], carry exactly at 86400000, day <= 65535 or OverflowError), refutations carry a "
             "concrete (timestamp, timedelta) witness. Floating-point exactness below one millisecond and the wall-clock helpers "
             "are not decided.",
        note="Trusted: datetime/timedelta and IEEE-754 semantics; timedelta components normalised as datetime guarantees.",
        technique=TECH + "; idiom normal forms for integer kernels"),
    "C15": dict(
        text="Static analysis: the request ID's packed form, as_u32(), decoded form and construction from a header are each compared "
             "per bit with the first four octets of the C01 reference table (all 2^32 values); __eq__/__hash__ must key on as_u32(); "
             "packet-field enums are big-endian unsigned of pfc/8 octets both ways; report source data (request id | step id | "
             "failure code | failure data) per bit for every presence combination and each of the eight helpers; the acceptance "
             "table of verify_against_subservice for all 8x2x2 combinations; the decoder per subservice octet, timestamp length and "
             "field-width choice with offsets 13+T, +4, +S, reads in bounds and inside the declared packet; the equality closure "
             "must mention every field of both operands.",
        note="Trusted: C01 reference table; ECSS-E-ST-70-41C 8.1.2 report structure. Decoder analysed for timestamp lengths 0 and 7 and "
             "2 (quick) / 4 (thorough) width pairs.",
        technique=TECH + "; finite case analysis over subservices and parameter presence"),
    "C16": dict(
        text="Static analysis: add_tm -> _check_subservice -> helpers is abstractly interpreted once with a symbolic subservice and a "
             "symbolic old status; the closed terms of the five status fields, the step list and result.completed are specialised to "
             "all 8 x 162 (subservice, old status) pairs (exhaustive finite case analysis on extracted terms) and compared with a "
             "reference transition table; the one-step invariants (finished flag never reverts, failed step kept, completed flag "
             "set exactly for {2,4,6,7,8}, only the own stage changes) are checked on the same evaluations and are inductive, which "
             "covers every history; isolation by the store log; refusals and the two removal filters structurally.",
        note="Trusted: the reference table in spverif/props/c16.py (documented behaviour; where the documentation is silent it records "
             "the documented meaning of 'all verifications received'); dictionary-key soundness of RequestId is C15's obligation.",
        technique="ast-based abstract interpretation (gated terms) + exhaustive finite case analysis of the extracted transition function + store-log alias analysis"),
    "C17": dict(
        text="Static analysis: header pack() per bit for the truncated header and each VCF-count length 0..7 (fields straddling "
             "octets handled by bit provenance), decoders per bit with the structure octets concrete, reads in bounds and inside "
             "7+n, version / header-type / range refusals; data field pack() for all 8 construction rules x truncated x frame type "
             "against the pointer-presence table, len() against the layout, decoder extents; frame pack order header | insert zone | "
             "data field | OCF | FECF, len() and set_frame_len_in_header against the layout; frame decoder offset chain for "
             "fixed/variable/truncated frames with symbolic insert-zone and FECF sizes, and the USLP refusals.",
        note="Trusted: reference layouts in spverif/props/c17.py (CCSDS 732.1-B-2 figures 4-2/4-3/4-5). Frame decoder analysed for 11 "
             "managed-parameter configurations.",
        technique=TECH + "; finite case analysis over VCF-count length, construction rules and managed parameters"),
    "C08": dict(
        text="Static analysis: generic TLV/LV pack layout per bit, 255-octet refusal, decoders honour the length octet (value extent, "
             "strict prefixes refused, reported length); the six concrete TLVs' pack layout per bit for every filestore action code "
             "against the second-name presence table, packet_len in octets of the encoded names; type safety decided by running every "
             "concrete class's unpack() against every TLV type octet and from_tlv() / the holder accessors against every generic type "
             "and every other concrete class: only the matching type returns an object, all other paths raise TlvTypeMissmatch / "
             "TypeError; response status-code table is action<<4|code for existing actions.",
        note="Trusted: str.encode/bytes.decode opaque and length-correct; reference layouts in spverif/props/c08.py. A few in-bounds "
             "proofs inside the nested LV parsing of the filestore TLVs exceed the per-proof time budget and are listed as undecided "
             "in the evidence.",
        technique=TECH + "; finite case analysis over TLV types and action codes"),
    "C18": dict(
        text="Static analysis: each of the nine reserved-message builders is constructed with symbolic parameters and its packed TLV "
             "compared per bit with the reference ('cfdp', type octet, fields of 727.0-B-5 6.2/6.3; widths enumerated); every getter "
             "is run on the built message, where it may not answer None (valid messages are accepted, including empty file names) "
             "and must return the built widths, and on a message with a symbolic value, where the decoded fields are compared per "
             "bit with the reference offsets, reads are proven in bounds and the escape set is checked; the type classification "
             "tables for every type octet 0..31; the reserved-message recogniser must have an empty raise log.",
        note="Trusted: reference field tables in spverif/props/c18.py. Term-for-term identity of the decoded LV names of a put request "
             "with the built ones is not decided (LV decoding is C08's obligation).",
        technique=TECH + "; empty-escape-set (purity) check from the raise log"),
    "C13": dict(
        text="Static analysis of the per-call structural conditions from which lossless ordered reassembly follows by induction over "
             "parser calls. The drain loop (while queue: buffer.extend(queue.popleft())) is located on the syntax tree, in the function "
             "or one helper; everything else is decided on interpreter terms whatever the statements look like: ONE iteration of the scan "
             "loop is interpreted from an arbitrary loop-head state (helpers inlined, list arguments by reference) and each outcome is "
             "followed to the function's return and compared with the reference step relation: the loop is left only when fewer than 6 "
             "octets remain or a registered id heads an incomplete packet, and the call then leaves the queue as exactly [buf[idx:]] "
             "(nothing when idx == len) and returns the result list unchanged; a continuing iteration has a full header, at a registered "
             "id appends exactly buf[idx:idx+total] and advances by total = length field + 7, otherwise advances by exactly 1; the "
             "scanned id is the 13-bit packet id of the C01 layout (bit-provenance comparison) tested against the raw() words of the given "
             "ids. The universally quantified statement over fragmentations is NOT decided; only these necessary conditions are.",
        note="Trusted: the induction argument in DESIGN.md 4/C13; deque semantics. A scan loop that carries further state between "
             "iterations is reported as undecided for the step relation (the peeled whole-part analysis still runs).",
        technique="ast-based abstract interpretation of one loop iteration (gated terms) + linear entailment with propositional membership atoms + syntax-tree location of the drain loop"),
    "C11": dict(
        text="Static analysis of the mutation clauses without a reference table: for every documented setter the object is packed once "
             "(caches exist), mutated, packed again, and the octet stream and reported length are compared cell for cell with those of "
             "an object freshly constructed with the final values (TC/TM data, EOF/Finished/Metadata/NAK/Keep Alive/File Data setters "
             "under every configuration case, USLP data zone and frame-length update); the store log of constructor + pack() is "
             "searched for stores that reach the caller's PduConfig or the ID objects it holds; pack() twice yields identical terms "
             "and equality is unchanged by packing.",
        note="Trusted: the interpreter's store log (all attribute stores go through setattr). Setter sequences of length one or two per "
             "field; longer histories follow because every setter ends in the same recomputation from current field values.",
        technique="ast-based abstract interpretation (gated terms) + normal-form comparison mutated-vs-fresh + store-log alias analysis"),
    "C09": dict(
        text="Static analysis: every catalogued decoder of a self-delimiting unit (space packet header, PUS TC/TM and wrappers, CDS "
             "timestamp, request id, packet-field enum, CFDP header, the eight PDUs and the factory, TLV/LV and concrete TLVs, USLP "
             "headers, data field and frame) is abstractly interpreted (symbolically or by finite case analysis over its structure "
             "octets); for every read of the entry buffer the absolute end - or the end of a closed slice it goes through - is "
             "proven <= the declared length N from the facts at the read plus the facts of the normal return; no heap cell "
             "reachable from the decoded object may mention len(buffer) or an open-ended slice of the buffer. Refutations carry a "
             "concrete octet string. Per-format extent equalities are decided in C02/C03/C06/C07/C08/C15/C17.",
        note="Trusted: the interpreter's read log. Reads inside summarised loops whose bound needs an inductive invariant, or whose "
             "proof exceeds the per-proof time budget, are listed as undecided in the evidence, not claimed.",
        technique=TECH + "; read-extent (declared-length) and independence dataflow rules over the read log and the abstract heap"),
    "C10": dict(
        text="Static analysis: public decoders are discovered by signature and cross-checked against a catalogue; each is abstractly "
             "interpreted with callees inlined. From the raise log every feasible explicit raise and every modelled may-raise "
             "operation (enum cast, decode, assert, dict lookup, attribute of a possibly-None value) must be a documented class; "
             "from the read log every index and struct.unpack on an octet string is proven in bounds from the guard facts with exact "
             "slice-clamping axioms (IndexError / struct.error cannot occur); refutations only with a concrete octet string; each "
             "summarised decoder loop must strictly advance a cursor.",
        note="Trusted: the interpreter's may-raise model. In-bounds proofs for reads inside summarised loops are attempted and, where "
             "they would need an inductive invariant, listed as undecided (the NAK pair-size guard that protects the one loop with "
             "two reads per iteration is checked as a modulus rule in C06). TypeError from wrongly typed non-octet arguments is "
             "outside the property.",
        technique=TECH + "; exception-escape analysis over the raise log; loop progress (termination) rule"),
}

NOT_CLAIMED = {}


# clauses added after the seeded-change rounds (appended to the claim text of the property)
EXTRA = {
    "C18": " Also: a True answer of the reserved-message test entails at least five octets (marker and message-type octet); the conversion's reads are in bounds.",
    "C17": " Also: len() of a decoded data field equals the number of octets it packs to, for every construction rule / frame type / truncation case.",
    "C01": " Also: a setter that refuses a value has stored nothing on the path of the refusal (refusal atomicity); the too-short refusal of the decoder is taken only for buffers shorter than six octets.",
    "C02": " Also: every too-short refusal of the decoder implies that the buffer is shorter than the declared packet (no well-formed packet is refused), also when its guards are merged through max()/min().",
    "C04": " Also: the reads made while the CFDP checksum is verified and while its error object is built are in bounds, only documented classes escape from that routine, and the stale-CRC sequences are analysed with one object per observed serialisation.",
    "C05": " Also: the decoder's too-short refusal is taken only for buffers shorter than the header the width codes give (a complete header is never refused). set_entity_ids with IDs of different widths and an out-of-range data-field length, applied to an existing header, store nothing on the path of the refusal.",
    "C06": " Also: for every directive the mutated-versus-fresh setter sequences of C11 are run, so that the data-field length is compared with the packed octets after changes through setters; the Finished PDU is analysed for both condition codes whose fault location is not transmitted. The setter sequences run under all four CRC / large-file flag combinations. Structural rule D-KEEP (path walk over the statement tree): a local accumulator that one normal exit returns or stores whole (decoded filestore responses, NAK segment requests, packed buffers) is handed on at every normal exit reachable after an append; this is a necessary condition only, element-wise equality of decoded lists stays undecided.",
    "C08": " Also: second file name and filestore message of the filestore TLVs are located per action code and first-name length (offsets counted in octets); for a well-formed TLV of a foreign type no refusal other than the type-mismatch error precedes the type check; a complete TLV/LV (also with an empty value) is never refused as too short; equality of generic TLVs/LVs mentions type and value. Structural rule D-KEEP: no packed buffer or decoded list built in a local accumulator is dropped on one exit while another exit keeps it.",
    "C09": " Also: no decoder stores into an object created at module level (nothing is carried from one call to the next); the first iteration of every decoder loop is analysed from the real entry state, so its reads are decided exactly. Indexing a byte string that was copied from the input is a read like any other; loops whose test has a concretely bounded part are unrolled under the symbolic rest of the test (their reads are then decided instead of being declared undecided); the stream parser is analysed through its scan part, whatever its helpers are called.",
    "C10": " Also: for every decoder of a self-delimiting unit a normal return implies len(buffer) >= declared length (strict prefixes are refused); arguments of raised exceptions are analysed like other expressions; the first iteration of every loop is decided exactly. Indexing a byte string that was copied from the input is a read like any other (IndexError when the copy is shorter).",
    "C11": " Also: after each setter sequence the reported length equals the length of the packed stream; every setter whose recomputation can refuse the new value (12 listed setters) leaves the object unchanged on that path; the 16-bit data-field-length bound through which all recomputed PDU lengths are stored is checked.",
    "C13": " Also: the whole scan part (index initialisation to the end of the scan loop) is interpreted over one symbolic buffer with three peeled iterations and all its reads are proven in bounds, which covers state carried from one iteration to the next.",
    "C14": " Also: from_datetime is decided either as the integer timedelta form ((datetime - Unix epoch).days/.seconds/.microseconds, exact for every microsecond value) or by evaluating the extracted millisecond term on witness timestamps (whole milliseconds whose fraction is not a binary fraction, a .9996 fraction, a pre-1970 instant); a form that is neither recognised nor refuted is reported as undecided. The UTC-datetime view is evaluated on witness field values on both sides of 1970 against 1958-01-01 + days + milliseconds (refuted with the witness; otherwise declared undecided because it goes through float seconds). from_datetime also accepts the total-millisecond form ((datetime - epoch) // timedelta(milliseconds=1), divmod by 86400000).",
    "C15": " Also: the service-1 decoder stores nothing into module-level objects (decoded reports do not share parameter objects); the request-id decoder refuses only buffers shorter than four octets.",
    "C20": " Also: a refused assignment through the value setter (integer or octet form) has stored nothing on the path of the refusal.",
}


def main():
    props = [json.loads(l)["id"] for l in (VERIF / "properties.jsonl").read_text().splitlines() if l.strip()]
    checks = []
    for pid in props:
        if pid not in CLAIMS:
            continue
        c = CLAIMS[pid]
        checks.append({
            "property_id": pid,
            "quick_cmd": f"/venv/bin/python -m spverif check {pid} --tier quick",
            "thorough_cmd": f"/venv/bin/python -m spverif check {pid} --tier thorough",
            "evidence_file": f"/verif/evidence/{pid}.json",
            "replay_cmd_template": f"/venv/bin/python -m spverif check {pid} --tier quick --replay {{path}}",
            "engine": "spverif",
            "level_claimed": {"category": "other", "text": c["text"] + EXTRA.get(pid, ""), "design_ref": f"DESIGN.md 4/{pid}"},
            "level_note": c["note"],
            "technique": c["technique"],
        })
    na = [{"property_id": pid, "reason": NOT_CLAIMED.get(pid, "check under construction (see DESIGN.md); not yet claimed")}
          for pid in props if pid not in CLAIMS]
    m = {
        "version": 1,
        "setup_cmd": "/venv/bin/python -m compileall -q spverif",
        "hooks": {
            "guard": "SPACEPACKETS_VERIF",
            "enable": "none needed: checks parse /repo sources with ast, nothing is instrumented",
            "baseline_off_cmd": "cd /repo && /venv/bin/python -m pytest -ra -q -p no:cacheprovider --timeout=900 --continue-on-collection-errors",
            "source_commits": [],
            "add_only": True,
        },
        "checks": checks,
        "notes": "Static analysis only (ast front end + gated-term abstract interpreter + normalisers); checks are registered as they become sound on the clean tree.",
        "not_applicable": na,
        "engines": [{
            "name": "spverif", "path": "/verif/spverif", "serves_properties": [c["property_id"] for c in checks],
            "kind_free_text": "custom static analyser for spacepackets-py: ast front end, gated-term abstract interpreter, bit-provenance / layout / linear normalisers, Fourier-Motzkin entailment",
        }],
    }
    (VERIF / "MANIFEST.json").write_text(json.dumps(m, indent=1) + "\n")
    print(f"claimed {len(checks)}, not applicable {len(na)}")


if __name__ == "__main__":
    main()
